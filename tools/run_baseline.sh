#!/bin/bash
# Runs the pinned test suite of /repo (guard off) and compares with BASELINE.json stable_pass.
# usage: tools/run_baseline.sh [junit-out]
OUT=${1:-/tmp/vf_baseline.junit.xml}
cd /repo && /venv/bin/python -m pytest -ra -q -p no:cacheprovider --timeout=900 --continue-on-collection-errors --junitxml="$OUT" > "${OUT%.xml}.log" 2>&1
/venv/bin/python - "$OUT" <<'PY'
import json, sys, xml.etree.ElementTree as ET
b = json.load(open('/root/.vp/BASELINE.json'))
stable = set(b['stable_pass'])
root = ET.parse(sys.argv[1]).getroot()
passed, bad = set(), {}
for tc in root.iter('testcase'):
    name = f"{tc.get('classname')}::{tc.get('name')}"
    if any(ch.tag in ('failure', 'error') for ch in tc):
        bad[name] = 'fail'
    elif any(ch.tag == 'skipped' for ch in tc):
        bad[name] = 'skip'
    else:
        passed.add(name)
missing = sorted(stable - passed)
print(f"passed={len(passed)} stable={len(stable)} stable_not_passed={len(missing)}")
for m in missing[:40]:
    print("  NOT PASSED:", m, bad.get(m, 'absent'))
sys.exit(1 if missing else 0)
PY
