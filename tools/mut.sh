#!/bin/bash
# tools/mut.sh <patch.diff> <check-id> [extra check args...]
# Applies a patch to a scratch worktree of /repo (never /repo itself), runs the check against it
# (PYTHONPATH override), removes the worktree. Prints DETECTED / MISSED. Safe to run in parallel.
P=$(readlink -f "$1"); shift
ID=$1; shift
WT=$(mktemp -d /tmp/vfmut.XXXXXX)
git -C /repo worktree add -q --detach "$WT" HEAD >/dev/null 2>&1 || { echo "worktree failed"; exit 2; }
trap 'git -C /repo worktree remove --force "$WT" >/dev/null 2>&1; rm -rf "$WT" /tmp/mut_$$.log' EXIT
( cd "$WT" && git apply "$P" ) || { echo "patch does not apply: $P"; exit 2; }
cd /verif && PYTHONPATH="$WT" VF_EVIDENCE_DIR="$WT/.vf_evidence" VF_REPLAY_DIR="$WT/.vf_replays" ./check "$ID" "$@" > /tmp/mut_$$.log 2>&1
RC=$?
if [ $RC -eq 1 ] && grep -q "^VIOLATION property=$ID" /tmp/mut_$$.log; then
  echo "DETECTED $ID $(basename $P): $(grep -c '^VIOLATION' /tmp/mut_$$.log) violation line(s); first: $(grep -m1 'signature:' /tmp/mut_$$.log | cut -c1-240)"
  exit 0
else
  echo "MISSED $ID $(basename $P) rc=$RC"; tail -4 /tmp/mut_$$.log | cut -c1-400
  exit 1
fi
