#!/bin/bash
# tools/mut.sh <patch.diff> <check-id> [extra check args...]
# Applies a patch to /repo's working tree, runs the check, always reverts. Prints DETECTED / MISSED.
P=$(readlink -f "$1"); shift
ID=$1; shift
cd /repo || exit 2
if ! git diff --quiet; then echo "repo working tree not clean"; exit 2; fi
git apply "$P" || { echo "patch does not apply"; exit 2; }
cd /verif && ./check "$ID" "$@" > /tmp/mut_$$.log 2>&1
RC=$?
cd /repo && git checkout -- . 
if [ $RC -eq 1 ] && grep -q "^VIOLATION property=$ID" /tmp/mut_$$.log; then
  echo "DETECTED $ID $(basename $P): $(grep -c '^VIOLATION' /tmp/mut_$$.log) violation line(s); first: $(grep -m1 'signature:' /tmp/mut_$$.log | cut -c1-220)"
else
  echo "MISSED $ID $(basename $P) rc=$RC"; tail -3 /tmp/mut_$$.log
fi
rm -f /tmp/mut_$$.log
