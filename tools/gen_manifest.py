#!/usr/bin/env python3
"""Regenerate /verif/MANIFEST.json from the table below (keeps it schema-valid)."""

import json
import os

ROOT = os.path.dirname(os.path.dirname(os.path.abspath(__file__)))

ENGINES = [
    {"name": "enum", "path": "vf/props", "kind_free_text":
     "E3: complete enumeration of finite / finitised input domains through the real functions",
     "serves_properties": []},
    {"name": "bfs", "path": "vf/bfs.py", "kind_free_text":
     "E2: explicit-state breadth-first search over operation histories replayed on the real backends, "
     "dedup on canonical concrete state, step-wise comparison with a reference model and the sibling backend",
     "serves_properties": []},
    {"name": "sched", "path": "vf/sched.py", "kind_free_text":
     "E1: controlled scheduler (real threads, one baton) + stateless DFS over schedules with iterative "
     "preemption bounding; line-level points in the in-memory backends, SQL-statement points in the SQLite ones",
     "serves_properties": []},
    {"name": "crash", "path": "vf/props/c03.py", "kind_free_text":
     "E4: crash-point enumeration (before/after every backend effect) + recovery + drain",
     "serves_properties": []},
]

# id -> dict(engine, technique, text, note, design_ref)
CHECKS = {
    "C01": dict(
        engine="enum+bfs",
        technique="complete enumeration of the single-step table (15 current x 3 owners) x (14 requested x 3 requesters) on both orchestrators + explicit-state BFS over request sequences to closure, against a frozen specification transcribed from the docs",
        text="Every cell of the single-step space is executed through set_invocation_status on the in-memory and the SQLite orchestrator (unreachable (status, owner) pairs planted), compared with vf/spec/lifecycle.json (transcribed from docs + SVG, never imports status.py) and cell by cell between the backends; failed requests must leave record, timestamp and history unchanged. Sequences: BFS over all 42 requests from every reachable (status, owner) state until no new state appears, each transition on a fresh invocation after replaying the path.",
        note="Exceptions compared by class; when a request both lacks an edge and violates ownership either status error is accepted. Seeded random long sequences are not used (the BFS reaches closure, so longer sequences add no new state).",
        design_ref="§2 C01",
    ),
    "C02": dict(
        engine="sched",
        technique="stateless exploration of all schedules up to a deviation (preemption) bound under a controlled scheduler: source-line points in the in-memory backends, SQL-statement points for SQLite",
        text="N pollers (claim through get_invocations_to_run, then run) plus recovery / kill / late-finisher actors on one shared backend; queues with a single id, a duplicated id, three ids (batch-routed), a blocking-priority entry; held invocations that a recovery run takes away and another runner re-claims while the first owner is inside its own status change. Every schedule with <= 2 deviations (N=2), <= 1 (N=3), 0 (N=4) is executed on the real code; a monitor on all status changes, deliveries and body enter/exit decides: no second claim without a release, only the owner moves PENDING/RUNNING work (recovery excepted), stored record = last change, no overlapping bodies without kill/recovery in between.",
        note="Scheduling points only inside mem_orchestrator/mem_broker/mem_state_backend (memory) or at SQL statements (SQLite); other code touches thread-local data only. Background history writers run last (explored as actors in C10). Bounds, not randomised schedules, for N up to 4. SQLite's own atomicity trusted; busy handler emulated by blocking.",
        design_ref="§2 C02",
    ),
    "C04": dict(
        engine="bfs+sched",
        technique="explicit-state BFS over poll/start/finish/heartbeat/parent-report/clock-advance/recovery histories on both backends against a reference model of (pending-since, last heartbeat) with both recovery scans read out in every state + deviation-bounded schedule exploration of a real recovery task body racing the owner",
        text="Histories: BFS to depth 4 (5) from every first operation and depth 3 (4) from seeded states (running with own heartbeat, running with parent-reported heartbeat, two held) over polls of two runners, start, finish, heartbeats, the real parent heartbeat report, advances chosen so that ages land on limit-u, limit, limit+u and timeout-u, timeout, timeout+u (dyadic, microsecond-exact clock), and the real recover_pending / recover_running task bodies; results, records, queue, history lengths and the answers of both recovery scans are compared with the model and between backends after every step (1 limit/timeout configuration in quick, 2x2 in thorough). Schedules: the recovery task body against an owner that moves one of two listed invocations on, pending and running recovery, all schedules with <= 2 (3) deviations: everything taken by recovery ends REROUTED and queued exactly once, nothing else is disturbed.",
        note="Frozen dyadic clock (every operation takes 1/64 s) so that 'age >= limit' / 'age > timeout' are decided identically by oracle and code; each implementation keeps its own time line. Parent/child runners are represented at the heartbeat interface (process runners: C14).",
        design_ref="§2 C04",
    ),
    "C05": dict(
        engine="enum+sched+crash",
        technique="exhaustive enumeration of a value/exception catalogue x serializer x backend x externalisation threshold through the real run()/result path + deviation-bounded schedule exploration of a reader polling status/result against the finishing worker + crash-point enumeration (worker process dies before/after every backend effect) with the reader oracle evaluated by a surviving process",
        text="Values: 28 results (scalars incl. NaN, -0.0, 2^63, unicode, strings straddling the threshold, nested lists/dicts, Enum/IntEnum) and 10 exceptions (builtin with 0-2 args, user-defined, RetryError, PynencError subclass with fields) x {Json, JsonPickle, Pickle} x {memory, SQLite} x 3 (7) thresholds: produced by a real task body via run(), read by a fresh client-side invocation object (another app object for SQLite); SUCCESS must come with an equal value (type-, NaN-, signed-zero-aware), FAILED with the same exception class and args; at REGISTERED and PENDING get_final_result must raise. Schedules: reader (status, then final result, 3-4 polls) against the worker for success / externalised success / failure / retry-then-success, all schedules with <= 2 (3) deviations, line points incl. the in-memory data store, SQL-statement points for SQLite. Crashes: in 5 scenarios (success, failure, retry, kill-and-reroute, running recovery) x 2 backends the victim dies before / after each of its backend effects; a surviving process reads status + final result of every accepted invocation at the crash instant and again after recovery and drain.",
        note="The recursive value domain per serializer is explored in C15; this check fixes a catalogue and varies the path. A value returned by get_final_result after a non-final status read is judged against the status re-read afterwards (finals are absorbing).",
        design_ref="§2 C05",
    ),
    "C06": dict(
        engine="bfs+sched",
        technique="explicit-state BFS over submit/batch/poll/start/finish/fail/kill histories with parked task bodies on both backends (from the empty and from seeded non-initial states) + deviation-bounded schedule exploration of two poller+worker actors with the RUNNING-per-key invariant evaluated on the visible concrete state at every scheduling point",
        text="Histories: per (TASK|ARGUMENTS|KEYS) x reroute option, BFS (depth 4/5 from the empty history, 2/3 from 5 seeded states such as 'one running, one queued', 'retry behind a pending one', 'rerouted behind a pending one') over single and batch submissions, polls of two runners, start (body parked in a real thread so RUNNING is a state), finish, retriable failure, kill-and-reroute; results and read-outs compared between the two backends; on the real state: <= 1 RUNNING per key, polls never raise, what a poll took and did not hand out is CONCURRENCY_CONTROLLED_FINAL or re-queued available, nothing is blocked or handed out against the same-key rule. Schedules: two poller+worker actors over same-key / different-key / already-both-PENDING invocations, all schedules with <= 1 (2) deviations, invariant read from the records dict / a separate SQLite connection at every scheduling point.",
        note="27 recorded findings (known_findings.json; 9 of them reachable in the quick tier): a blocked RETRY or REROUTED invocation makes the poll raise because the documented lifecycle lacks the edge. Trigger-launched submissions use the single-call path and are not enumerated separately. History writers run last here (C10 explores them).",
        design_ref="§2 C06",
    ),
    "C07": dict(
        engine="bfs",
        technique="explicit-state BFS over submission/claim/finish histories per registration configuration on both backends against a reference dict key -> REGISTERED invocation",
        text="For each of 11 configurations (DISABLED, TASK, ARGUMENTS, KEYS with key sets (a), (b), (a,b), (), raise option on/off; three of them again with every argument value externalised to the client data store) a breadth-first search to depth 5 (7) over 5 submissions (argument values with repeats, positional and keyword spelling), claim and finish on the in-memory and SQLite stacks; after every step the returned identity (new / reused / raised), total and REGISTERED counts, queue length, statuses and history lengths are compared with the reference model and between the backends, and the invariant <= 1 REGISTERED invocation per key is evaluated on the real state.",
        note="Sequential submissions only (as the statement says); raise option only combined with KEYS. States merged only when the canonical concrete dump (records, argument index, queue) of both backends is equal.",
        design_ref="§2 C07",
    ),
    "C08": dict(
        engine="bfs+sched",
        technique="explicit-state BFS over broker operation histories against a deque on both brokers + exhaustive deviation-bounded schedule exploration of concurrent SQLite actors with a brute-force linearizability check",
        text="Histories: BFS to depth 6 (8) over route / batch (repeated ids, empty) / retrieve / count / purge; result, count and the stored order are compared with a deque after every step on the in-memory and SQLite broker. Schedules: 2-3 SQLite actors (retrievers, routers, counter), one app object each, a scheduling point at every SQL statement, all schedules with <= 2 deviations (3 actors: 1); each execution's call/return history must be linearizable w.r.t. the deque and leave the deque's content. The same programs are explored on the in-memory broker (threads sharing one broker object, a point at every source line of mem_broker).",
        note="A batch route is judged as a sequence of single routings (the property does not promise atomic batches). julianday('now') is real time; ties broken by rowid.",
        design_ref="§2 C08",
    ),
    "C10": dict(
        engine="sched",
        technique="stateless exploration of all schedules up to a deviation bound with the background history writers as independent scheduler threads; stored history compared with the monitor's list of successful changes",
        text="The C02 worlds (claims, duplicate messages, batch registration, blocking path, pending/running recovery, kill, late finisher) with every history writer thread scheduled as an actor that by default runs arbitrarily late; all schedules with <= 1 deviation (single: 2; thorough +1). After the flush: per invocation, history sorted by time of change == list of successful changes (status, owner, acting runner, timestamp), starts at REGISTERED, ends at the current record, is a path of the frozen lifecycle graph. Worlds also include retry, failure and concurrency-control lifecycles (two poller+worker actors); 12 of the 14 statuses occur in the compared histories. Every actor additionally flushes per invocation and reads inside the schedule: its own changes must be in the history.",
        note="The monitor orders changes by the timestamp taken inside the atomic transition. Same scheduling-point placement as C02.",
        design_ref="§2 C10",
    ),
    "C12": dict(
        engine="enum",
        technique="exhaustive enumeration of (runner count, cycle, margin, epoch offset) x instants (grid + all slot boundaries +-1ulp) through the real can_run_atomic_service and should_run_atomic_service",
        text="Every configuration of a finite grid (1..8 runners, 16 in thorough; 5 cycle lengths; 6 margins incl. margin>=slot; 3 epoch offsets) is evaluated at every instant of a dense grid plus every slot boundary and its float neighbours, all runners asked at the same instant; the oracle is the property itself (<=1 authorised, gaps >= margin, liveness per cycle). Also driven through both orchestrators' should_run_atomic_service under a frozen virtual clock.",
        note="Instants are sampled, not continuous: sound because the implementation is piecewise constant between the enumerated boundaries. Margins within 0.1% below the slot size are outside the alphabet (window below double-clock resolution).",
        design_ref="§2 C12",
    ),
}

CHECKS["C15"] = dict(
    engine="enum+bfs",
    technique="exhaustive enumeration of recursively generated values per serializer x thresholds x cache options x stores through the real submit/worker-read and result paths; BFS over data-store operation histories against a content-addressed model; all spellings / all pairs of argument dicts with the SHA-256 pre-image captured",
    text="Values: 11k-15k values per serializer (atoms incl. float/unicode edge cases, enums, exceptions, JsonSerializable; lists/dicts to depth 2, width 2) x min_size_to_cache {1, L-1, L, L+1, 1024} x data store on/off x disable_cache_args {(), (x), (*)} x {memory, SQLite}: task(x=v) -> worker-side get_invocation(...).arguments.kwargs with a cold cache (second app object for SQLite) and set_result/get_result, type-/NaN-/signed-zero-aware equality, externalised exactly when documented, reference<->content bijection. Store histories: BFS to depth 4 (5) over serialize/resolve/mutate returned/mutate original/purge/cold. Identity: every spelling of f(a,b=1,*,c=2), g(x), h() incl. LazyCall read-back and parallelize with every common_args split => one call id; all pairs and insertion orders of 4096 (32768) adversarial argument dicts: pre-images equal <=> dicts equal, ids equal <=> pre-images equal.",
    note="SHA-256 trusted. Per-serializer domains stated in the evidence assumptions (tuples / non-str keys outside plain JSON). Quick uses reduced SQLite value lists. Four recorded findings: reference-prefix strings (D1, two paths) and LRU aliasing (D2, two aliases); a violating store history is not extended.",
    design_ref="§2 C15",
)

CHECKS["C17"] = dict(
    engine="enum",
    technique="exhaustive enumeration of all ordered pairs (thorough: plus triples of a core) of an adversarial application-id set, each with a fixed operation alphabet incl. every component purge, with a full read-out of the observed app before and after every operation",
    text="43 (79) ids: punctuation / case / leading-digit / unicode / 200-char / empty-like / SQL-text / LIKE-wildcard variants and ids constructed from another id's storage prefix (tp(a), tp(a)+'__'+component, swapped case, '_'->Z, prefix not at start, two-level chain). Every ordered pair (A acts, B observed) on one shared SQLite file and in one process with two in-memory apps: both populated through the public API, then 25 operations on A (routes, claims, status, results, heartbeats, events, trigger loop, workflow data, data store, auto-purge, purge of each of the 5 components, app.purge(), re-population), B's 63-65-query read-out (+ raw dump of its tables) compared after each; storage names of A and B disjoint and matching ^[A-Za-z0-9_]+$; no exception from hostile ids. Thorough adds purges-before-writes for a 12-id core and all 220 triples. The ids include pairs that Unicode normalisation or case folding would identify (NFC / NFD, ligature, superscript; thorough: KELVIN SIGN, fullwidth digit, sharp s).",
    note="The empty string is treated as a legal id (unvalidated config field). sqlite_sequence belongs to no app. One world per acting app.",
    design_ref="§2 C17",
)

CHECKS["C20"] = dict(
    engine="bfs",
    technique="explicit-state enumeration: (system states reached by all operation histories up to depth 3/4, deduplicated on the concrete read-out) x (every GET route of the real route table) x (a finite parameter menu), full concrete state compared before/after every request",
    text="Routes are taken from the FastAPI route table after setup_routes() (39 GET routes, cross-checked against openapi()); ~175 requests per state through starlette TestClient (existing / missing / malformed ids per path parameter, each query parameter over its menu, limit in {0,1,2,20,-1,10^6,'x',''}); states: histories over submit, submit x21 (queue longer than the page), claim, run ok/fail/spawn-child, block-on-child, heartbeat, service record, trigger event, clock +25h, purge of exactly one component, on memory and on SQLite (monitor = second app object on the same file). Oracle: queue in order, every attribute of orchestrator / blocking control / state backend / trigger / data store (memory) or every row of every table (SQLite) identical after each request, whatever the status code.",
    note="The monitor's own selection state is not 'the system'. Lazily created locks, empty defaultdict entries and two read caches are not counted as state (listed in the evidence). One recorded finding per backend: the queue view rotates queues longer than the limit (no peek in the broker API).",
    design_ref="§2 C20",
)

CHECKS["C19"] = dict(
    engine="enum+sched",
    technique="exhaustive enumeration of generated task programs, each executed inline (sync mode) and by the real ThreadRunner on the in-memory and SQLite stacks in a whole-runner simulation under the controlled scheduler (virtual time, default and round-robin schedules); outcomes compared",
    text="286 programs in quick (more in thorough): every leaf (plain/direct x max_retries 0..2 x {return, succeed on attempt 2/3, always retriable, non-retriable}), root+child, root+2 single children, root+group of 2, root->child->grandchild over a reduced node alphabet. Each runs (a) with dev_mode_force_sync_tasks, (b) memory stack + ThreadRunner.run(), (c) SQLite stack + ThreadRunner.run(), the runner loop, its task threads and the client being scheduler threads (shim threading/time, SQL-statement points), default and round-robin schedule, 2 slots (thorough: 1 and 2). Compared: value or exception class+args at the caller, body executions per node, num_retries; leaves also against the statement's accounting (k, max_retries+1, 1). Retry accounting also under two interleaved workers (one retrying invocation, whoever polls runs the next attempt; always retriable / succeeds on attempt 2 or 3; max_retries 0..2; memory line points, SQLite statement points), all schedules with <= 1 (2) deviations.",
    note="Group results combined with an order-insensitive sum; each .result read once; exception args compared via repr(). One spin iteration of the thread runner's wait = sleep(10 ms) virtual. Only two deterministic schedules per distributed run (C09 explores deviations).",
    design_ref="§2 C19",
)

CHECKS["C09"] = dict(
    engine="bfs+sched",
    technique="explicit-state BFS over wait declarations / status steps on both orchestrators against a set-of-edges reference wait graph (limit queries in every state) + whole-runner simulation of every call tree up to depth 2 / fan-out 2 on the real ThreadRunner under the controlled scheduler (default, round-robin, all 1-deviation schedules for a core)",
    text="Wait graph: BFS to depth 5 over wait(x,[y]) / wait(x,[y,z]) / status steps REGISTERED->PENDING->RUNNING->SUCCESS on 3 (4) ids; in every state get_blocking_invocations(n), n in {0,1,2,10}, must be a duplicate-free subset of {waited on, not final, not itself waiting, runnable} of size min(n, |set|), and no edge to a finished invocation remains. Trees: all 41 call trees of depth <= 2, fan-out <= 2 (single .result and group .results) run by ThreadRunner.run() with 1 and 2 slots on memory and SQLite in virtual time (loop thread, task threads and client are scheduler threads) under the default and the round-robin schedule; every schedule with <= 1 deviation for 6 core trees (thorough: all trees, both backends): the root must become final with the right value before the 60 s virtual horizon, no deadlock, every body exactly once. Plus 8 trees whose inner nodes run under running-concurrency control (TASK, reroute on): waited-on siblings that may not start while their sibling waits itself.",
    note="Which subset is returned above the limit is unspecified; waits are only declared on non-final invocations; outgoing edges of a finished waiter are outside the alphabet. Fair randomised schedules replaced by the three exhaustive schedule sets. One spin iteration of the wait loop = sleep(10 ms) virtual.",
    design_ref="§2 C09",
)

CHECKS["C11"] = dict(
    engine="sched",
    technique="whole-runner simulation of the real ThreadRunner.run() under the controlled scheduler in virtual time with the stop request injected at every scheduling point of a reference run (fault-point enumeration), thorough: plus all single-deviation schedules around selected stop points",
    text="8 workloads (two independent, parent-child, retrying, parent+group, mix, and three with bodies that take virtual time so that task threads are alive when the stop arrives) x {memory, SQLite} x {1, 2} slots: a reference run executes the workload to completion; then one run per scheduling point between the end of on_start and completion with stop_runner_loop() injected exactly there (2800 stop points in quick; SQLite every third point, thorough every point). Judged on a snapshot taken at the instant run() returns: every invocation the runner claimed is final, or available + ownerless + queued; nothing PENDING/RUNNING/KILLED under the runner id; run() returns before the 30 s virtual horizon (no recovery timeouts involved).",
    note="Five recorded findings (known_findings.json): stop never completes while a task thread waits for a sub-invocation nobody runs. Real OS signals are not delivered (the injected call is what the handler calls); process-based runners are outside the thread-level scheduler.",
    design_ref="§2 C11",
)

CHECKS["C03"] = dict(
    engine="crash",
    technique="crash-point enumeration: the victim's operation is recorded effect by effect, then re-run with a hard crash before and after every backend effect, followed by clock advance, the real recovery task bodies and a draining survivor; end state and body completions judged",
    text="14 scenarios (client single / batch call after an accepted one, runner claiming 2 messages, claim through the blocking path, worker run to success (with and without a heartbeat ever sent) / failure / retry-then-success, concurrency-controlled reroute, kill-and-reroute, the real PersistentProcessRunner worker main and the real ProcessRunner loop iteration polling a blocked invocation in front of a runnable one, pending recovery of 2, running recovery of 2) x {memory (worker-thread death), SQLite (separate app object per process)}: every effect of the victim (queue push/pop, status write, register, argument index, retry counter, wait-graph write/release, result/exception write, history, upsert) x {before, after} = 414 crash runs + fault-free runs; afterwards 3 rounds of (clock +11 min, recover_pending_invocations and recover_running_invocations bodies under a surviving runner, drain). Every accepted invocation must be final and its body completed >= 1 time; the position of a stranded invocation at the crash instant is classified.",
    note="32 recorded findings (known_findings.json; 18 + 14 in the two runner-loop scenarios), one per stranding window; SQLite additionally: every effect in turn finds the database locked for good while the process lives on (storage-error points, judged against the crash point before the same effect). Windows: message popped but not yet claimed; status RETRY/REROUTED written but not yet pushed; KILLED / CONCURRENCY_CONTROLLED / *_RECOVERY written and the writer dies. Crash granularity = one backend effect (SQLite's own atomicity trusted); survivors run sequentially; no real process death or OS signals.",
    design_ref="§2 C03",
)

CHECKS["C18"] = dict(
    engine="enum+sched",
    technique="exhaustive enumeration of workflow programs x re-execution histories x process images through the real submit/claim/run path on both state backends + deviation-bounded schedule exploration of two worker threads running the same task for two workflows",
    text="Programs: all 155 (thorough 780) sequences of 1-3 (1-4) operations over random / utc_now / uuid / execute_task(sub,0) / execute_task(sub,1), run by one interpreter task through task.wf.*. Histories: three attempts via RetryError; kill-and-reroute and running recovery at every position; two workflows sequential / alternating / with retries; images: same app object, a fresh Pynenc + fresh Task objects on the same SQLite file before every poll, two runner images taking turns. Oracle per workflow: attempt k yields the values of attempt 1 position by position, one sub-invocation per (workflow, call) handed back on later attempts, workflow data of A holds only A's values. Schedules: two threads, same task, two workflows, line points in workflow_deterministic / workflow_context / mem_state_backend or SQL-statement points, <= 1-2 (2-3) deviations. Isolation clause: what a workflow draws (random / uuid) under a preempting schedule must equal what the same two workflows draw under the default schedule.",
    note="The harness time base of utc_now follows the virtual clock through a datetime shim installed by the check. pynenc's own deterministic random/uuid are not the harness's uuid4 replacement.",
    design_ref="§2 C18",
)
CHECKS["C13"] = dict(
    engine="bfs+sched+enum",
    technique="explicit-state BFS over occurrence histories per trigger configuration on both trigger stores against a reference multiset model + deviation-bounded schedule exploration of concurrent trigger-loop iterations + exhaustive cron poll-sequence enumeration against an independent brute-force cron evaluator",
    text="Occurrences: 45 trigger configurations (every 1-3 subset of {event e1, event e2, status, result, exception}, single / OR / AND) registered through the public decorator path; BFS (depth 4-5, thorough 6-7) over emit(e1,1|2), emit(e2,1), a real source invocation finishing ok / failing, trigger_loop_iteration, in three alphabets (full; at most one pending occurrence per condition; additionally one exception per history) on the in-memory and SQLite stores; launches (multiset of argument dicts of the target task) and remaining valid conditions compared with a model written from the property text. Schedules: two concurrent loop iterations (+ a concurrent emit) over 7 scenarios, memory (one shared trigger object, line points in mem_trigger/base_trigger) and SQLite (one app object per process, statement points), <= 1-2 (2-3) deviations: exactly one launch per occurrence. Cron: the real CronCondition evaluated over all poll sequences (BFS over (poll second, last firing), gaps 10-300 s, 6 (thorough 14) expressions x window x min interval x lenient/strict) against an independent brute-force evaluator of the five cron fields; the same through the trigger stores (memory; SQLite with two runner images and a restart operation); two concurrent cron polls under the controlled scheduler (first-ever / later firing, frozen / ticking clock): exactly one launch per tick.",
    note="Status occurrences restricted to final statuses. Seven recorded findings: several pending occurrences of one condition launch once (4 kinds), OR launches share the first context's arguments, first-ever cron firing under two concurrent runners launches twice on both stores (None = 'no expectation' in the store interface). A poll is attributed to the latest scheduled minute <= poll time (no catch-up of skipped ticks demanded). KeyError out of a concurrent loop iteration's clean-up (launches stay correct) is counted, not judged.",
    design_ref="§2 C13",
)

CHECKS["C16"] = dict(
    engine="bfs",
    technique="explicit-state BFS per component pair (in-memory implementation, SQLite implementation, reference model written from the abstract-base-class contract) over the public operation alphabet with small universes; result / exception class and a full read-out compared after every operation",
    text="Orchestrator (85 queries per state: records, existing-by-task/args/status, pagination, counts, filter-by-status, retries, heartbeats / active runners / recovery scans under a frozen dyadic clock, auto-purge with aged seeds, wait graph incl. cycles, purge), state backend (60 queries: invocations, children, results, exceptions, histories, runner contexts, workflow data / runs / sub-invocations, time-range iterators, purge), trigger store (conditions, triggers, valid conditions, events, cron bookkeeping, expiring claims, purge), client data store and broker; work split over configuration x seeded history x first operation; quick depth 3-5 after seeds (52k transitions), thorough 4-8 (427k). 'probe/*' configurations are tiny searches around each suspected divergence, each implementation alone against the literal contract. Key-lookup part: a two-argument task, four overlapping calls, look-ups with 1-2 key pairs as operations of the history (a look-up must not change what a later look-up returns), all sequences to depth 4 (5).",
    note="Only the exhaustive half of the quantifier (no random long sequences). Order compared only where the base class promises one. Eleven recorded findings (known_findings.json), all low-severity divergences or places where both implementations depart from the docstring; operations on ids never registered, batches with tied timestamps and naive datetimes are outside the alphabet (unspecified).",
    design_ref="§2 C16",
)

CHECKS["C14"] = dict(
    engine="bfs",
    technique="explicit-state BFS over worker-death sequences driving the real parent-side start / heartbeat-report / loop-iteration code of the three process-based runners on the real SQLite stack, with the operating-system process objects (Process, Manager, cpu_count, os.kill, signal) replaced by controllable stand-ins; every state judged against the configured pool numbers",
    text="50 configurations (PersistentProcessRunner num_processes 1-3 / cpu_count / min_parallel_slots, MultiThreadRunner (min,max) in 6 pairs x enforce on/off x queue 0/2/3/4, ProcessRunner cpu_count 1-3 x queue 0/2/5). Per round every live tracked worker gets a fate (survives / dies before the heartbeat report / dies between report and iteration / ProcessRunner: finishes and exits); quick: every subset of the pool x one kind of death per round, depth 3; thorough: every assignment, depth 4. After every round and after one more quiet round: dead workers forgotten, pool back at the configured number, heartbeats only for live tracked workers, every started worker's claimed invocation protected while it lives and recoverable after it died (probe with the clock past the dead-runner limit).",
    note="The child entry points never run: after every start the explorer performs the first steps of the real child (register context, claim one invocation, set RUNNING) through the real components with the ids the parent passed to Process(...). No OS process is started. One defect found and repaired in /repo (MultiThreadRunner never forgot or replaced dead workers).",
    design_ref="§2 C14",
)

NOT_YET = "check not built yet in this session (planned, see DESIGN.md §2)"


def main() -> None:
    props = [json.loads(l)["id"] for l in open(os.path.join(ROOT, "properties.jsonl"))]
    checks = []
    for pid in props:
        c = CHECKS.get(pid)
        if not c:
            continue
        checks.append(
            {
                "property_id": pid,
                "quick_cmd": f"./check {pid} --tier quick",
                "thorough_cmd": f"./check {pid} --tier thorough",
                "evidence_file": f"/verif/evidence/{pid}.json",
                "replay_cmd_template": f"./check {pid} --replay {{path}}",
                "engine": c["engine"],
                "level_claimed": {
                    "category": "model_checking",
                    "text": c["text"],
                    "design_ref": c["design_ref"],
                },
                "level_note": c["note"],
                "technique": c["technique"],
            }
        )
        for e in ENGINES:
            if e["name"] in c["engine"].split("+") and pid not in e["serves_properties"]:
                e["serves_properties"].append(pid)
    manifest = {
        "version": 1,
        "setup_cmd": "/venv/bin/python -c \"import pynenc, sys; assert sys.version_info >= (3, 12)\" && chmod +x /verif/check",
        "hooks": {
            "guard": "PYNENC_VERIF",
            "enable": "no hook commits: all seams are rebound from outside by vf/env.py (module attributes), the checks import pynenc from /repo's working tree (editable install)",
            "baseline_off_cmd": "cd /repo && /venv/bin/python -m pytest -ra -q -p no:cacheprovider --timeout=900 --continue-on-collection-errors",
            "source_commits": [],
            "add_only": True,
        },
        "engines": ENGINES,
        "checks": checks,
        "notes": "All checks: ./check <id> [--tier quick|thorough]; exit 0 = held on everything explored, exit 1 + 'VIOLATION property=<id> replay=<path>' otherwise, exit 2 = harness error (never a verdict). Known findings: known_findings.json. See DESIGN.md.",
        "not_applicable": [
            {"property_id": pid, "reason": NOT_YET} for pid in props if pid not in CHECKS
        ],
    }
    with open(os.path.join(ROOT, "MANIFEST.json"), "w") as f:
        json.dump(manifest, f, indent=1)
    print("checks:", [c["property_id"] for c in checks])


if __name__ == "__main__":
    main()
