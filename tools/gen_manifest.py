#!/usr/bin/env python3
"""Regenerate /verif/MANIFEST.json from the table below (keeps it schema-valid)."""

import json
import os

ROOT = os.path.dirname(os.path.dirname(os.path.abspath(__file__)))

ENGINES = [
    {"name": "enum", "path": "vf/props", "kind_free_text":
     "E3: complete enumeration of finite / finitised input domains through the real functions",
     "serves_properties": []},
    {"name": "bfs", "path": "vf/bfs.py", "kind_free_text":
     "E2: explicit-state breadth-first search over operation histories replayed on the real backends, "
     "dedup on canonical concrete state, step-wise comparison with a reference model and the sibling backend",
     "serves_properties": []},
    {"name": "sched", "path": "vf/sched.py", "kind_free_text":
     "E1: controlled scheduler (real threads, one baton) + stateless DFS over schedules with iterative "
     "preemption bounding; line-level points in the in-memory backends, SQL-statement points in the SQLite ones",
     "serves_properties": []},
    {"name": "crash", "path": "vf/crash.py", "kind_free_text":
     "E4: crash-point enumeration (before/after every backend effect) + recovery + drain",
     "serves_properties": []},
]

# id -> dict(engine, technique, text, note, design_ref)
CHECKS = {
    "C01": dict(
        engine="enum+bfs",
        technique="complete enumeration of the single-step table (15 current x 3 owners) x (14 requested x 3 requesters) on both orchestrators + explicit-state BFS over request sequences to closure, against a frozen specification transcribed from the docs",
        text="Every cell of the single-step space is executed through set_invocation_status on the in-memory and the SQLite orchestrator (unreachable (status, owner) pairs planted), compared with vf/spec/lifecycle.json (transcribed from docs + SVG, never imports status.py) and cell by cell between the backends; failed requests must leave record, timestamp and history unchanged. Sequences: BFS over all 42 requests from every reachable (status, owner) state until no new state appears, each transition on a fresh invocation after replaying the path.",
        note="Exceptions compared by class; when a request both lacks an edge and violates ownership either status error is accepted. Seeded random long sequences are not used (the BFS reaches closure, so longer sequences add no new state).",
        design_ref="§2 C01",
    ),
    "C12": dict(
        engine="enum",
        technique="exhaustive enumeration of (runner count, cycle, margin, epoch offset) x instants (grid + all slot boundaries +-1ulp) through the real can_run_atomic_service and should_run_atomic_service",
        text="Every configuration of a finite grid (1..8 runners, 16 in thorough; 5 cycle lengths; 6 margins incl. margin>=slot; 3 epoch offsets) is evaluated at every instant of a dense grid plus every slot boundary and its float neighbours, all runners asked at the same instant; the oracle is the property itself (<=1 authorised, gaps >= margin, liveness per cycle). Also driven through both orchestrators' should_run_atomic_service under a frozen virtual clock.",
        note="Instants are sampled, not continuous: sound because the implementation is piecewise constant between the enumerated boundaries. Margins within 0.1% below the slot size are outside the alphabet (window below double-clock resolution).",
        design_ref="§2 C12",
    ),
}

NOT_YET = "check not built yet in this session (planned, see DESIGN.md §2)"


def main() -> None:
    props = [json.loads(l)["id"] for l in open(os.path.join(ROOT, "properties.jsonl"))]
    checks = []
    for pid in props:
        c = CHECKS.get(pid)
        if not c:
            continue
        checks.append(
            {
                "property_id": pid,
                "quick_cmd": f"./check {pid} --tier quick",
                "thorough_cmd": f"./check {pid} --tier thorough",
                "evidence_file": f"/verif/evidence/{pid}.json",
                "replay_cmd_template": f"./check {pid} --replay {{path}}",
                "engine": c["engine"],
                "level_claimed": {
                    "category": "model_checking",
                    "text": c["text"],
                    "design_ref": c["design_ref"],
                },
                "level_note": c["note"],
                "technique": c["technique"],
            }
        )
        for e in ENGINES:
            if e["name"] in c["engine"].split("+") and pid not in e["serves_properties"]:
                e["serves_properties"].append(pid)
    manifest = {
        "version": 1,
        "setup_cmd": "/venv/bin/python -c \"import pynenc, sys; assert sys.version_info >= (3, 12)\" && chmod +x /verif/check",
        "hooks": {
            "guard": "PYNENC_VERIF",
            "enable": "no hook commits: all seams are rebound from outside by vf/env.py (module attributes), the checks import pynenc from /repo's working tree (editable install)",
            "baseline_off_cmd": "cd /repo && /venv/bin/python -m pytest -ra -q -p no:cacheprovider --timeout=900 --continue-on-collection-errors",
            "source_commits": [],
            "add_only": True,
        },
        "engines": ENGINES,
        "checks": checks,
        "notes": "All checks: ./check <id> [--tier quick|thorough]; exit 0 = held on everything explored, exit 1 + 'VIOLATION property=<id> replay=<path>' otherwise, exit 2 = harness error (never a verdict). Known findings: known_findings.json. See DESIGN.md.",
        "not_applicable": [
            {"property_id": pid, "reason": NOT_YET} for pid in props if pid not in CHECKS
        ],
    }
    with open(os.path.join(ROOT, "MANIFEST.json"), "w") as f:
        json.dump(manifest, f, indent=1)
    print("checks:", [c["property_id"] for c in checks])


if __name__ == "__main__":
    main()
