#!/bin/bash
# Runs every registered quick check once; prints one line per property. usage: tools/all_quick.sh [seed]
cd /verif
export VERIF_SEED=${1:-0}
fail=0
for p in $(python3 -c "import json;print(' '.join(c['property_id'] for c in json.load(open('MANIFEST.json'))['checks']))"); do
  s=$(date +%s)
  ./check $p --tier quick > /tmp/allq_$p.log 2>&1
  rc=$?
  echo "$p rc=$rc $(( $(date +%s) - s ))s viol=$(grep -c '^VIOLATION' /tmp/allq_$p.log) known=$(grep -c '^KNOWN-FINDING' /tmp/allq_$p.log)"
  [ $rc -ne 0 ] && fail=1
done
exit $fail
