#!/usr/bin/env python3
"""Compare the known findings seen by the evidence in the working tree with the committed evidence (HEAD).

A recorded finding that silently stops being seen is as suspicious as a new violation: either the defect was
repaired, or a harness change hides it.  Usage: tools/known_diff.py [rev]   (default HEAD)
"""
import json
import subprocess
import sys
from pathlib import Path

root = Path(__file__).resolve().parent.parent
rev = sys.argv[1] if len(sys.argv) > 1 else "HEAD"
bad = 0
for f in sorted((root / "evidence").glob("C*.json")):
    new = json.loads(f.read_text())
    try:
        old = json.loads(subprocess.check_output(["git", "-C", str(root), "show", f"{rev}:evidence/{f.name}"], text=True))
    except subprocess.CalledProcessError:
        continue
    if old.get("tier") != new.get("tier"):
        print(f"{f.stem}: tiers differ ({old.get('tier')} vs {new.get('tier')}), not compared")
        continue
    a = set(old["coverage"].get("known_findings_seen", {}))
    b = set(new["coverage"].get("known_findings_seen", {}))
    if a != b:
        bad += 1
        print(f"{f.stem}: no longer seen: {sorted(a - b)}; newly seen: {sorted(b - a)}")
print("known findings seen: unchanged" if not bad else f"{bad} propert(y/ies) with a changed set of known findings seen")
sys.exit(1 if bad else 0)
