#!/usr/bin/env python3
"""Evaluate a seeded change produced by an independent sub-agent.

usage: tools/seed_eval.py <seed-id> <dir with patch.diff demo.py meta.json> <property id> [--tests <pytest paths...>] [--full]
                          [--checks C02,C10]
Steps (all in a fresh scratch worktree of /repo HEAD, removed afterwards; /repo is never touched):
  1. patch applies, package imports
  2. demo fails WITH the patch and passes WITHOUT it
  3. the repository's tests (given paths, or the whole suite with --full) pass with the patch
  4. which checks report a violation against the patched tree (PYTHONPATH override)
Writes /verif/seeded/<seed-id>/{patch.diff,demo.py,meta.json} with the agent's meta plus "verified" results.
"""

import json
import os
import shutil
import subprocess
import sys
import tempfile

PY = "/venv/bin/python"


def sh(cmd, cwd=None, env=None, timeout=None):
    e = dict(os.environ)
    e.update(env or {})
    try:
        r = subprocess.run(cmd, shell=True, cwd=cwd, env=e, capture_output=True, text=True, timeout=timeout)
        return r.returncode, (r.stdout + r.stderr)
    except subprocess.TimeoutExpired as ex:
        return 124, f"TIMEOUT after {timeout}s\n{ex.stdout or ''}"


def main():
    args = sys.argv[1:]
    sid, src, prop = args[0], os.path.abspath(args[1]), args[2]
    tests, full, checks = [], False, [prop]
    i = 3
    while i < len(args):
        if args[i] == "--full":
            full = True
        elif args[i] == "--tests":
            i += 1
            while i < len(args) and not args[i].startswith("--"):
                tests.append(args[i])
                i += 1
            continue
        elif args[i] == "--checks":
            i += 1
            checks = args[i].split(",")
        i += 1
    wt = tempfile.mkdtemp(prefix="vfseed.")
    os.rmdir(wt)
    out = {"seed": sid, "property": prop}
    rc, o = sh(f"git -C /repo worktree add -q --detach {wt} HEAD")
    if rc:
        print("worktree failed", o)
        return 2
    try:
        rc, o = sh(f"git apply {src}/patch.diff", cwd=wt)
        out["patch_applies"] = rc == 0
        if rc:
            print("PATCH DOES NOT APPLY\n", o)
            return 2
        rc, o = sh(f"{PY} -c 'import pynenc, pynmon.app; print(pynenc.__file__)'", cwd=wt, env={"PYTHONPATH": wt})
        out["imports"] = rc == 0 and wt in o
        demo = os.path.join(src, "demo.py")
        runner = f"{PY} -m pytest -q -p no:cacheprovider -x {demo}" if "def test_" in open(demo).read() and "__main__" not in open(demo).read() else f"{PY} {demo}"
        rc1, o1 = sh(runner, cwd=tempfile.gettempdir(), env={"PYTHONPATH": wt}, timeout=600)
        rc0, o0 = sh(runner, cwd=tempfile.gettempdir(), env={"PYTHONPATH": "/repo"}, timeout=600)
        out["demo_with_patch_rc"] = rc1
        out["demo_without_patch_rc"] = rc0
        out["demo_ok"] = rc1 != 0 and rc0 == 0
        print(f"demo: with patch rc={rc1}, without rc={rc0} -> {'OK' if out['demo_ok'] else 'NOT AS CLAIMED'}")
        if not out["demo_ok"]:
            print("--- with patch:\n", o1[-1500:], "\n--- without:\n", o0[-1500:])
        if full or tests:
            target = "" if full else " ".join(tests)
            junit = os.path.join(wt, ".junit.xml")
            rc, o = sh(f"{PY} -m pytest -q -p no:cacheprovider --timeout=900 --continue-on-collection-errors --junitxml={junit} {target}",
                       cwd=wt, env={"PYTHONPATH": wt}, timeout=4 * 3600)
            tail = [l for l in o.splitlines() if " passed" in l or " failed" in l or l.startswith("FAILED") or l.startswith("ERROR ")]
            out["tests"] = {"target": target or "<full suite>", "rc": rc, "summary": tail[-12:]}
            print("tests:", target or "<full suite>", "rc=", rc, tail[-6:])
        det = {}
        for c in checks:
            rc, o = sh(f"./check {c}", cwd="/verif", env={"PYTHONPATH": wt, "VF_EVIDENCE_DIR": f"{wt}/.e", "VF_REPLAY_DIR": f"{wt}/.r"},
                       timeout=3600)
            sigs = [l.strip() for l in o.splitlines() if l.strip().startswith("signature:")]
            det[c] = {"rc": rc, "detected": rc == 1 and any(l.startswith(f"VIOLATION property={c}") for l in o.splitlines()),
                      "first_signatures": sigs[:3]}
            print(f"check {c}: rc={rc} detected={det[c]['detected']} {sigs[:1]}")
        out["checks"] = det
    finally:
        sh(f"git -C /repo worktree remove --force {wt}")
        shutil.rmtree(wt, ignore_errors=True)
    dst = f"/verif/seeded/{sid}"
    os.makedirs(dst, exist_ok=True)
    shutil.copy(os.path.join(src, "patch.diff"), dst)
    shutil.copy(os.path.join(src, "demo.py"), dst)
    meta = {}
    try:
        meta = json.load(open(os.path.join(src, "meta.json")))
    except Exception as e:  # noqa: BLE001
        meta = {"agent_meta_error": str(e)}
    prev = {}
    if os.path.exists(os.path.join(dst, "meta.json")):
        try:
            prev = json.load(open(os.path.join(dst, "meta.json"))).get("verified", {})
        except Exception:  # noqa: BLE001
            prev = {}
    prev.update(out)
    meta["verified"] = prev
    json.dump(meta, open(os.path.join(dst, "meta.json"), "w"), indent=1)
    return 0


if __name__ == "__main__":
    sys.exit(main())
