"""Bounded exhaustive exploration machinery for pynenc (see /verif/DESIGN.md)."""
