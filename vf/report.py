"""Run context: counters, violations, known-findings matching, evidence + replay files."""

from __future__ import annotations

import hashlib
import json
import os
import sys
import time
from typing import Any

ROOT = os.path.dirname(os.path.dirname(os.path.abspath(__file__)))
# mutant runs (tools/mut.sh) redirect their output so that they never touch the real evidence
EVIDENCE_DIR = os.environ.get("VF_EVIDENCE_DIR") or os.path.join(ROOT, "evidence")
REPLAY_DIR = os.environ.get("VF_REPLAY_DIR") or os.path.join(ROOT, "replays")
KNOWN_FILE = os.path.join(ROOT, "known_findings.json")
MAX_REPORT = int(os.environ.get("VF_MAX_REPORT", "20"))


def canon(obj: Any) -> str:
    return json.dumps(obj, sort_keys=True, default=repr, ensure_ascii=True)


def digest(obj: Any) -> str:
    return hashlib.sha256(canon(obj).encode()).hexdigest()[:16]


class Partial:
    """Mergeable result of one unit of exploration work (picklable)."""

    def __init__(self) -> None:
        self.counters: dict[str, int] = {}
        self.sets: dict[str, set] = {}
        self.samples: list[Any] = []
        self.violations: list[dict] = []
        self.notes: list[str] = []
        self.caps: list[str] = []
        self.maxes: dict[str, int] = {}

    def count(self, key: str, n: int = 1) -> None:
        self.counters[key] = self.counters.get(key, 0) + n

    def add(self, key: str, item: Any) -> None:
        self.sets.setdefault(key, set()).add(item)

    def max(self, key: str, v: int) -> None:
        if v > self.maxes.get(key, -1):
            self.maxes[key] = v

    def sample(self, item: Any, limit: int = 3) -> None:
        if len(self.samples) < limit:
            self.samples.append(item)

    def violation(self, signature: dict, detail: dict, replay: dict) -> None:
        """signature: the structured record matched against known findings (exactly);
        detail: human-readable context; replay: what is needed to re-run this one execution."""
        self.violations.append(
            {"signature": signature, "detail": detail, "replay": replay}
        )

    def merge(self, other: "Partial") -> None:
        for k, v in other.counters.items():
            self.counters[k] = self.counters.get(k, 0) + v
        for k, s in other.sets.items():
            self.sets.setdefault(k, set()).update(s)
        for k, v in other.maxes.items():
            self.max(k, v)
        for s in other.samples:
            if len(self.samples) < 8:
                self.samples.append(s)
        self.violations.extend(other.violations)
        for n in other.notes:
            if n not in self.notes:
                self.notes.append(n)
        for c in other.caps:
            if c not in self.caps:
                self.caps.append(c)


def load_known() -> dict:
    try:
        with open(KNOWN_FILE) as f:
            return json.load(f)
    except FileNotFoundError:
        return {"findings": [], "fixed": []}


class Ctx(Partial):
    def __init__(self, prop: str, tier: str, seed: int) -> None:
        super().__init__()
        self.prop = prop
        self.tier = tier
        self.seed = seed
        self.t0 = time.time()
        self.assumptions: list[str] = []
        self.extra: dict[str, Any] = {}
        self.rule = ""
        self.exhaustive = True

    @property
    def thorough(self) -> bool:
        return self.tier == "thorough"

    def assume(self, text: str) -> None:
        if text not in self.assumptions:
            self.assumptions.append(text)

    # ------------------------------------------------------------------
    def finish(self) -> int:
        known = [
            k for k in load_known().get("findings", []) if k.get("property") == self.prop
        ]
        new: list[dict] = []
        seen_known: dict[str, int] = {}
        seen_new: set[str] = set()
        for v in self.violations:
            sig = v["signature"]
            matched = None
            for k in known:
                if k.get("signature") == sig:
                    matched = k
                    break
            if matched is not None:
                if matched["id"] not in seen_known:
                    # one replayable execution per recorded finding (committed: replays/known/)
                    kd = os.path.join(REPLAY_DIR, "known")
                    os.makedirs(kd, exist_ok=True)
                    with open(os.path.join(kd, f"{matched['id']}.json"), "w") as f:
                        json.dump({"property": self.prop, "finding": matched["id"], **v}, f, indent=1, sort_keys=True, default=repr)
                seen_known[matched["id"]] = seen_known.get(matched["id"], 0) + 1
                continue
            d = digest(sig)
            if d in seen_new:
                continue
            seen_new.add(d)
            new.append(v)
        for k in known:
            if k["id"] in seen_known:
                print(
                    f"KNOWN-FINDING: property={self.prop} {k['what']} "
                    f"[{k['id']}; seen in {seen_known[k['id']]} executions; replay={os.path.join(REPLAY_DIR, 'known', k['id'] + '.json')}]"
                )
        os.makedirs(REPLAY_DIR, exist_ok=True)
        for v in new[:MAX_REPORT]:
            d = digest(v["signature"])
            path = os.path.join(REPLAY_DIR, f"{self.prop}-{d}.json")
            with open(path, "w") as f:
                json.dump(
                    {"property": self.prop, **v}, f, indent=1, sort_keys=True, default=repr
                )
            print(f"VIOLATION property={self.prop} replay={path}")
            print("  signature:", canon(v["signature"]))
            print("  detail:", canon(v["detail"])[:1500])
        self._write_evidence(len(new), seen_known)
        return 1 if new else 0

    def _write_evidence(self, n_new: int, seen_known: dict[str, int]) -> None:
        os.makedirs(EVIDENCE_DIR, exist_ok=True)
        cov: dict[str, Any] = {}
        cov.update(self.counters)
        for k, s in self.sets.items():
            cov[k] = len(s)
        for k, v in self.maxes.items():
            cov[k] = v
        # states = distinct end observations of schedule explorations + distinct BFS states
        cov["states"] = max(1, cov.get("states", 0) + cov.get("bfs_states", 0))
        cov.setdefault("transitions", max(1, cov.get("transitions", 0)))
        cov.setdefault("traces_validated_against_impl", 0)
        cov["samples"] = self.samples[:8] or ["(none recorded)"]
        cov["rule"] = self.rule
        cov["exhaustive"] = bool(self.exhaustive and not self.caps)
        cov["caps_hit"] = self.caps
        cov["known_findings_seen"] = seen_known
        cov["notes"] = self.notes
        cov.update(self.extra)
        ev = {
            "property_id": self.prop,
            "tier": self.tier,
            "seed": self.seed,
            "level": "model_checking",
            "coverage": cov,
            "assumptions": self.assumptions,
            "wall_s": round(time.time() - self.t0, 3),
            "violations": n_new,
        }
        path = os.path.join(EVIDENCE_DIR, f"{self.prop}.json")
        tmp = path + ".tmp"
        with open(tmp, "w") as f:
            json.dump(ev, f, indent=1, sort_keys=True, default=repr)
        os.replace(tmp, path)
        summary = {k: v for k, v in cov.items() if isinstance(v, (int, bool))}
        print(f"[{self.prop}] tier={self.tier} seed={self.seed} wall={ev['wall_s']}s {summary}")
        sys.stdout.flush()
