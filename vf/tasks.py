"""Module-level functions used as task bodies by the harnesses.

They are bound to a fresh app per execution with `bind(app, func, **options)`;
the worker side resolves them through `app._tasks` (Task.from_id checks it first).
Bodies communicate with the harness through the HOOKS dict (reset per execution).
"""

from __future__ import annotations

from typing import Any

HOOKS: dict[str, Any] = {}


def bind(app, func, **options):
    """Register `func` as a task of `app` with the given options (public decorator path)."""
    return app.task(func, **options)


def _hook(name: str, *args: Any) -> Any:
    h = HOOKS.get(name)
    if h is not None:
        return h(*args)
    return None


def add(x: int, y: int) -> int:
    _hook("body", "add", (x, y))
    return x + y


def ident(x: Any) -> Any:
    _hook("body", "ident", (x,))
    return x


def noop() -> None:
    _hook("body", "noop", ())
    return None


def keyed(a: int, b: int = 0) -> int:
    """Body that reports enter/exit so overlap of executions can be observed."""
    _hook("enter", "keyed", (a, b))
    _hook("point", "keyed", (a, b))
    _hook("exit", "keyed", (a, b))
    return a * 10 + b


def scripted(name: str, x: int = 0) -> Any:
    """Body fully controlled by the harness: HOOKS['script'](name, x) returns or raises."""
    return _hook("script", name, x)


# ---------------------------------------------------------------------------
# C05: bodies that return / raise catalogue values (the value never travels as an argument)
# ---------------------------------------------------------------------------
import enum as _enum


class Color(_enum.Enum):
    RED = "red"
    BLUE = 2


class Level(_enum.IntEnum):
    LOW = 1
    HIGH = 7


class UserError(Exception):
    """A user-defined (non-builtin, non-pynenc) exception with two arguments."""


CATALOGUE: dict[str, list] = {"result": [], "exception": []}


def produce(kind: str, idx: int, attempt_ok: int = 1) -> Any:
    """Returns CATALOGUE['result'][idx] or raises CATALOGUE['exception'][idx].
    attempt_ok > 1: raise RetryError on earlier attempts (counted through HOOKS['attempts'])."""
    n = HOOKS.setdefault("attempts", {}).get((kind, idx), 0) + 1
    HOOKS["attempts"][(kind, idx)] = n
    _hook("body", "produce", (kind, idx, n))
    _hook("point", "produce", (kind, idx))
    if n < attempt_ok:
        from pynenc.exceptions import RetryError

        raise RetryError(f"attempt {n}")
    if kind == "result":
        return CATALOGUE["result"][idx]
    raise CATALOGUE["exception"][idx]
