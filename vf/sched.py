"""E1 — controlled scheduler + stateless schedule explorer (deviation-bounded DFS).

Actors are real threading.Thread objects; exactly one runs at a time (a per-thread
semaphore is the baton).  A thread reaches the scheduler at a *scheduling point*:
  - a source line of a monitored code object (sys.monitoring LINE events),
  - a shim lock / event / thread operation, a virtual sleep,
  - an SQL statement / commit of the SQLite proxy (vf.sqlproxy),
  - an explicit vf.sched.point() in a harness task body.
The default scheduler continues the running thread; when it blocks, sleeps or ends,
the lowest-numbered ready thread runs, else the earliest sleeper (the virtual clock
jumps to its wake time).  Every other pick is a *deviation* (a preemption, or waking a
sleeper early with the clock advanced to its wake time).  explore() enumerates every
schedule with at most `bound` deviations; executions always run to completion.
"""

from __future__ import annotations

import sys
import threading as _threading
import types
from dataclasses import dataclass, field
from typing import Any, Callable

from vf import env

_real_Thread = _threading.Thread
_real_Semaphore = _threading.Semaphore
_get_ident = _threading.get_ident


class Abort(BaseException):
    """Raised inside controlled threads to unwind them when an execution is torn down."""


class HarnessError(RuntimeError):
    """Replay divergence or scheduler misuse: never a verdict."""


ACTIVE: "Scheduler | None" = None

READY, BLOCKED, SLEEPING, DONE = "ready", "blocked", "sleeping", "done"


class TS:
    __slots__ = ("tid", "name", "fn", "thread", "sem", "status", "reason", "wake", "exc",
                 "ident", "result", "points", "last_op")

    def __init__(self, tid: int, name: str, fn: Callable[[], Any]) -> None:
        self.tid = tid
        self.name = name
        self.fn = fn
        self.thread: Any = None
        self.sem = _real_Semaphore(0)
        self.status = READY
        self.reason: Any = None
        self.wake = 0.0
        self.exc: BaseException | None = None
        self.ident = 0
        self.result: Any = None
        self.points = 0
        self.last_op: str = "start"


@dataclass
class Point:
    tid: int  # thread that reached the point
    kind: str
    info: Any
    cands: tuple  # candidate tids in canonical order
    chosen: int  # index into cands


@dataclass
class Execution:
    choices: list[int]
    trace: list[Point]
    outcome: str  # 'done' | 'deadlock' | 'horizon:points' | 'horizon:time'
    threads: dict[int, TS]
    log: list = field(default_factory=list)  # monitor events appended by the scenario
    deviations: int = 0


class Scheduler:
    def __init__(self, choices: list[int] | None = None, expect: Any = None,
                 max_points: int = 20000, max_vtime: float = 3600.0,
                 lazy: tuple[str, ...] = (), strategy: str = "default", exit_points: bool = False) -> None:
        # strategy "rr": beyond the given prefix, pick the next thread in round-robin order at every
        # point (a second deterministic schedule besides the default "keep running" one)
        self.strategy = strategy
        self._rr_last = -1
        # lazy: names of spawned threads that only run when nothing else can (a partial-order
        # reduction for scenarios whose oracle never reads what those threads write)
        self.lazy = set(lazy)
        # exit_points: one more scheduling point per thread between its last operation and its end (matters where
        # somebody looks at is_alive(): the runner simulations)
        self.exit_points = exit_points
        self.prefix = list(choices or [])
        self.expect = expect
        self.max_points = max_points
        self.t_limit = env.CLOCK.now + max_vtime
        self.threads: dict[int, TS] = {}
        self.by_ident: dict[int, TS] = {}
        self.trace: list[Point] = []
        self.choices: list[int] = []
        self.current: TS | None = None
        self.aborting = False
        self.outcome = "done"
        self.log: list = []
        self._done_evt = _threading.Event()
        self._abort_evt = _threading.Event()
        self._next_tid = 0
        self._h = 0  # running hash of the trace (replay-divergence detection)
        self.on_point: Any = None  # optional callable() evaluated at every scheduling point (state invariants)
        self.in_sched = False

    # ------------------------------------------------------------------ threads
    def me(self) -> TS | None:
        return self.by_ident.get(_get_ident())

    def spawn(self, name: str, fn: Callable[[], Any]) -> TS:
        ts = TS(self._next_tid, name, fn)
        self._next_tid += 1
        self.threads[ts.tid] = ts
        th = _real_Thread(target=self._thread_main, args=(ts,), name=f"vf-{ts.tid}-{name}", daemon=True)
        ts.thread = th
        th.start()
        return ts

    def _thread_main(self, ts: TS) -> None:
        ts.ident = _get_ident()
        self.by_ident[ts.ident] = ts
        ts.sem.acquire()
        try:
            if not self.aborting:
                ts.result = ts.fn()
                if self.exit_points and not self.aborting:
                    # the thread has done its last operation but still exists (is_alive() is true): others may run now
                    self._switch(ts, "exit", None)
        except Abort:
            pass
        except BaseException as e:  # noqa: BLE001 - recorded as an observation
            ts.exc = e
        finally:
            ts.status = DONE
            if not self.aborting:
                try:
                    self.wake_sleepers(("join", ts.tid))
                    self._switch(ts, "end", None)
                except Abort:
                    pass
            self.by_ident.pop(ts.ident, None)

    # ------------------------------------------------------------------ run
    def run(self, actors: list[tuple[str, Callable[[], Any]]]) -> Execution:
        global ACTIVE
        if ACTIVE is not None:
            raise HarnessError("nested scheduler")
        ACTIVE = self
        env.CLOCK.sleeper = self.sleep
        try:
            for name, fn in actors:
                self.spawn(name, fn)
            first = self._pick(None, "begin", None)
            if first is not None:
                self.current = first
                first.sem.release()
                self._done_evt.wait()
            self._teardown()
        finally:
            ACTIVE = None
            env.CLOCK.sleeper = None
        ex = Execution(self.choices, self.trace, self.outcome, self.threads, self.log)
        ex.deviations = sum(1 for c in self.choices if c)
        return ex

    def _teardown(self) -> None:
        self.aborting = True
        order = list(self.threads.values())
        if self.current is not None:
            order.remove(self.current)
            order.insert(0, self.current)
        for ts in order:
            if ts.thread.is_alive():
                ts.sem.release()
                ts.thread.join(20.0)
                if ts.thread.is_alive():
                    raise HarnessError(f"thread {ts.name} did not unwind")

    # ------------------------------------------------------------------ scheduling core
    def _candidates(self, me: TS | None) -> list[TS]:
        now = env.CLOCK.now
        ready, sleepers = [], []
        for ts in self.threads.values():
            if ts is me:
                continue
            if ts.status == SLEEPING and ts.wake <= now:
                ts.status = READY
            if ts.status == READY:
                ready.append(ts)
            elif ts.status == SLEEPING:
                sleepers.append(ts)
        ready.sort(key=lambda t: t.tid)
        sleepers.sort(key=lambda t: (t.wake, t.tid))
        if self.lazy:
            eager = [t for t in ready if t.name not in self.lazy]
            if eager or sleepers or (me is not None and me.status in (READY, SLEEPING)):
                ready = eager
        out: list[TS] = []
        if me is not None and me.status == READY:
            out.append(me)
        out.extend(ready)
        out.extend(sleepers)
        if me is not None and me.status == SLEEPING:
            # the sleeping thread itself competes with the other sleepers by wake time
            out.append(me)
            head = [t for t in out if t.status == READY]
            tail = sorted((t for t in out if t.status == SLEEPING), key=lambda t: (t.wake, t.tid))
            out = head + tail
        return out

    def _pick(self, me: TS | None, kind: str, info: Any) -> TS | None:
        cands = self._candidates(me)
        if not cands:
            return None
        i = len(self.choices)
        if i < len(self.prefix):
            idx = self.prefix[i]
            if idx >= len(cands):
                raise HarnessError(f"replay divergence at point {i}: choice {idx} of {len(cands)}")
        elif self.strategy == "rr" and len(cands) > 1:
            ready_idx = [k for k, t in enumerate(cands) if t.status == READY]
            pool = ready_idx or list(range(len(cands)))
            after = [k for k in pool if cands[k].tid > self._rr_last]
            idx = (after or pool)[0]
        else:
            idx = 0
        fp = (me.tid if me else -1, kind, info if isinstance(info, (str, int, tuple, type(None))) else str(info),
              tuple(t.tid for t in cands))
        if self.expect is not None and i == self.expect[0] and self._h != self.expect[1]:
            raise HarnessError(f"replay divergence before point {i}: trace hash differs from the parent execution")
        self._h = hash((self._h, fp))
        self.choices.append(idx)
        self.trace.append(Point(fp[0], kind, fp[2], fp[3], idx))
        nxt = cands[idx]
        self._rr_last = nxt.tid
        if nxt.status == SLEEPING:
            if nxt.wake > env.CLOCK.now:
                env.CLOCK.now = nxt.wake
            nxt.status = READY
        return nxt

    def _switch(self, me: TS, kind: str, info: Any) -> None:
        """Scheduling decision taken by thread `me` (whose status is already updated)."""
        if self.aborting:
            raise Abort()
        me.points += 1
        if len(self.trace) >= self.max_points:
            self._stop("horizon:points")
        if env.CLOCK.now > self.t_limit:
            self._stop("horizon:time")
        if self.on_point is not None:
            self.in_sched = True
            try:
                self.on_point()
            finally:
                self.in_sched = False
        try:
            nxt = self._pick(me, kind, info)
        except HarnessError as e:
            self.outcome = f"harness:{e}"
            self._stop(self.outcome)
            return
        if nxt is None:
            if me.status == DONE and all(t.status == DONE for t in self.threads.values()):
                self._done_evt.set()
                return
            self._stop("deadlock")
            return
        if nxt is me:
            return
        self.current = nxt
        nxt.sem.release()
        if me.status != DONE:
            me.sem.acquire()
            if self.aborting:
                raise Abort()

    def _stop(self, outcome: str) -> None:
        self.outcome = outcome
        self.aborting = True
        self._done_evt.set()
        raise Abort()

    # ------------------------------------------------------------------ API used by shims
    def point(self, kind: str, info: Any = None) -> None:
        me = self.me()
        if me is None or self.aborting or self.in_sched:
            if self.aborting and me is not None:
                raise Abort()
            return
        self._switch(me, kind, info)

    def block(self, reason: Any, kind: str = "block") -> None:
        me = self.me()
        if me is None:
            raise HarnessError(f"uncontrolled thread would block on {reason}")
        if self.aborting:
            raise Abort()
        me.status = BLOCKED
        me.reason = reason
        self._switch(me, kind, reason if isinstance(reason, (str, tuple)) else str(reason))

    def wake(self, reason: Any) -> None:
        for ts in self.threads.values():
            if ts.status == BLOCKED and ts.reason == reason:
                ts.status = READY
                ts.reason = None

    def sleep(self, seconds: float) -> None:
        me = self.me()
        if me is None:
            env.CLOCK.advance(max(0.0, seconds))
            return
        if self.aborting:
            raise Abort()
        if seconds <= 0:
            self._switch(me, "yield", None)
            return
        me.status = SLEEPING
        me.wake = round(env.CLOCK.now + seconds, 6)
        self._switch(me, "sleep", round(seconds, 6))

    def wait_until(self, reason: Any, timeout: float | None) -> None:
        """Block on `reason`; with a timeout the thread is a sleeper that wake(reason) also readies."""
        me = self.me()
        if me is None:
            raise HarnessError(f"uncontrolled thread would wait on {reason}")
        if timeout is None:
            self.block(reason, "wait")
            return
        if self.aborting:
            raise Abort()
        me.status = SLEEPING
        me.reason = reason
        me.wake = round(env.CLOCK.now + max(0.0, timeout), 6)
        self._switch(me, "wait", str(reason))
        me.reason = None

    def wake_sleepers(self, reason: Any) -> None:
        for ts in self.threads.values():
            if ts.status == SLEEPING and ts.reason == reason:
                ts.status = READY
                ts.reason = None
        self.wake(reason)


def point(kind: str = "body", info: Any = None) -> None:
    s = ACTIVE
    if s is not None:
        s.point(kind, info)


# ---------------------------------------------------------------------------
# threading shim
# ---------------------------------------------------------------------------
class SLock:
    _reentrant = False

    def __init__(self) -> None:
        self.owner: Any = None
        self.count = 0
        self.serial = env.IDS.next_serial()

    def _who(self) -> Any:
        s = ACTIVE
        me = s.me() if s is not None else None
        return me if me is not None else ("ext", _get_ident())

    def acquire(self, blocking: bool = True, timeout: float = -1) -> bool:
        s = ACTIVE
        who = self._who()
        controlled = isinstance(who, TS)
        if controlled and not s.aborting:
            s.point("lock.acquire", type(self).__name__)
        while True:
            if self.owner is None:
                self.owner = who
                self.count = 1
                return True
            if self._reentrant and self.owner == who:
                self.count += 1
                return True
            if s is not None and s.aborting:
                return True
            if not blocking:
                return False
            if not controlled:
                raise HarnessError("uncontrolled thread blocked on a shim lock")
            s.block(("lock", self.serial), "lock.wait")

    def release(self) -> None:
        self.count -= 1
        if self.count <= 0:
            self.owner = None
            self.count = 0
            s = ACTIVE
            if s is not None:
                s.wake(("lock", self.serial))

    def locked(self) -> bool:
        return self.owner is not None

    def __enter__(self) -> bool:
        return self.acquire()

    def __exit__(self, *a: Any) -> None:
        self.release()


class SRLock(SLock):
    _reentrant = True


class SEvent:
    def __init__(self) -> None:
        self._flag = False
        self.serial = env.IDS.next_serial()

    def is_set(self) -> bool:
        return self._flag

    def set(self) -> None:
        self._flag = True
        s = ACTIVE
        if s is not None:
            s.wake_sleepers(("event", self.serial))

    def clear(self) -> None:
        self._flag = False

    def wait(self, timeout: float | None = None) -> bool:
        s = ACTIVE
        if self._flag:
            return True
        if s is None or s.me() is None:
            if timeout is not None:
                env.CLOCK.advance(timeout)
            return self._flag
        if s.aborting:
            raise Abort()
        deadline = None if timeout is None else env.CLOCK.now + timeout
        while not self._flag:
            if deadline is not None and env.CLOCK.now >= deadline:
                break
            s.wait_until(("event", self.serial), None if deadline is None else max(0.0, deadline - env.CLOCK.now))
        return self._flag


class SThread:
    """threading.Thread stand-in: a controlled thread under an active scheduler, inline otherwise."""

    _count = 0

    def __init__(self, group: Any = None, target: Any = None, name: str | None = None,
                 args: Any = (), kwargs: Any = None, *, daemon: bool | None = None) -> None:
        SThread._count += 1
        self._target = target
        self._args = tuple(args)
        self._kwargs = dict(kwargs or {})
        self.name = name or f"SThread-{SThread._count}"
        self.daemon = bool(daemon)
        self._ts: TS | None = None
        self._inline_done = False
        self._started = False

    def run(self) -> None:
        if self._target is not None:
            self._target(*self._args, **self._kwargs)

    def start(self) -> None:
        if self._started:
            raise RuntimeError("threads can only be started once")
        self._started = True
        s = ACTIVE
        if s is None or s.aborting or s.me() is None:
            # no scheduler (set-up / read-out phases): run to completion here and now
            try:
                self.run()
            finally:
                self._inline_done = True
            return
        tname = getattr(self._target, "__name__", "thread")
        self._ts = s.spawn(tname, self.run)
        s.point("spawn", tname)

    @property
    def ident(self) -> int | None:
        return self._ts.ident if self._ts else (_get_ident() if self._started else None)

    def is_alive(self) -> bool:
        if not self._started or self._inline_done:
            return False
        s = ACTIVE
        if s is not None and s.me() is not None and not s.aborting:
            s.point("is_alive", self._ts.name if self._ts else None)
        return self._ts is not None and self._ts.status != DONE

    def join(self, timeout: float | None = None) -> None:
        if not self._started:
            raise RuntimeError("cannot join thread before it is started")
        ts = self._ts
        if ts is None or ts.status == DONE:
            return
        s = ACTIVE
        if s is None or s.me() is None or s.aborting:
            return
        s.point("join", ts.name)
        deadline = None if timeout is None else env.CLOCK.now + timeout
        while ts.status != DONE:
            if deadline is not None:
                if env.CLOCK.now >= deadline:
                    return
                s.wait_until(("join", ts.tid), max(0.0, deadline - env.CLOCK.now))
            else:
                s.block(("join", ts.tid), "join.wait")


class _ThreadingShim(types.ModuleType):
    _vf_threading_shim = True

    def __init__(self) -> None:
        super().__init__("threading")
        self.Lock = SLock
        self.RLock = SRLock
        self.Event = SEvent
        self.Thread = SThread

    def __getattr__(self, name: str) -> Any:
        return getattr(_threading, name)


THREADING_SHIM = _ThreadingShim()


def install_threading() -> None:
    """Rebind `threading` in every pynenc module (except pynenc.context, whose
    threading.local must stay real — actors are real threads)."""
    env.install(threading_shim=THREADING_SHIM)
    import pynenc.context as ctxmod

    ctxmod.threading = _threading
    from pynenc.state_backend.mem_state_backend import MemStateBackend

    if not isinstance(MemStateBackend._registry_lock, SLock):
        MemStateBackend._registry_lock = SLock()


# ---------------------------------------------------------------------------
# line-level points (sys.monitoring)
# ---------------------------------------------------------------------------
_TOOL = 3
_mon_installed = False
_mon_codes: list = []


def _iter_codes(obj: Any, seen: set) -> Any:
    if isinstance(obj, types.CodeType):
        if id(obj) in seen:
            return
        seen.add(id(obj))
        yield obj
        for c in obj.co_consts:
            if isinstance(c, types.CodeType):
                yield from _iter_codes(c, seen)
    elif isinstance(obj, (types.FunctionType,)):
        yield from _iter_codes(obj.__code__, seen)
    elif isinstance(obj, (staticmethod, classmethod)):
        yield from _iter_codes(obj.__func__, seen)
    elif isinstance(obj, property):
        for f in (obj.fget, obj.fset, obj.fdel):
            if f is not None:
                yield from _iter_codes(f, seen)
    elif isinstance(obj, type):
        for v in vars(obj).values():
            yield from _iter_codes(v, seen)
    elif hasattr(obj, "func") and isinstance(getattr(obj, "func", None), types.FunctionType):
        yield from _iter_codes(obj.func, seen)  # functools.cached_property
    elif hasattr(obj, "__wrapped__"):
        yield from _iter_codes(obj.__wrapped__, seen)


def module_codes(modname: str, only: Callable[[types.CodeType], bool] | None = None) -> list:
    mod = sys.modules[modname]
    fn = getattr(mod, "__file__", None)
    seen: set = set()
    out = []
    for v in vars(mod).values():
        for code in _iter_codes(v, seen):
            if code.co_filename == fn and (only is None or only(code)):
                out.append(code)
    return out


def _line_cb(code: types.CodeType, line: int) -> Any:
    s = ACTIVE
    if s is None:
        return None
    me = s.by_ident.get(_get_ident())
    if me is None or s.aborting:
        return None
    me.last_op = code.co_name
    s._switch(me, "line", (code.co_filename.rsplit("/", 1)[-1], line, code.co_name))
    return None


def _start_cb(code: types.CodeType, offset: int) -> Any:
    s = ACTIVE
    if s is None:
        return None
    me = s.by_ident.get(_get_ident())
    if me is None or s.aborting:
        return None
    me.last_op = code.co_name
    s._switch(me, "op", (code.co_filename.rsplit("/", 1)[-1], code.co_name))
    return None


def set_points(modnames: list[str], granularity: str = "line",
               only: Callable[[types.CodeType], bool] | None = None) -> int:
    """Enable scheduling points in the given modules: 'line' (every source line) or 'op'
    (entry of every function).  Returns the number of instrumented code objects."""
    global _mon_installed
    mon = sys.monitoring
    E = mon.events
    if not _mon_installed:
        mon.use_tool_id(_TOOL, "vf-sched")
        mon.register_callback(_TOOL, E.LINE, _line_cb)
        mon.register_callback(_TOOL, E.PY_START, _start_cb)
        _mon_installed = True
    clear_points()
    ev = E.LINE if granularity == "line" else E.PY_START
    n = 0
    for m in modnames:
        for code in module_codes(m, only):
            mon.set_local_events(_TOOL, code, ev)
            _mon_codes.append(code)
            n += 1
    if granularity == "line" and modnames:
        # a pure-Python stdlib container is not atomic either: its operations, when library code calls them, get the
        # same line points (no pynenc module uses one on the unchanged tree: no point is added there)
        import weakref

        seen: set = set()
        for code in _iter_codes(weakref.WeakValueDictionary, seen):
            mon.set_local_events(_TOOL, code, ev)
            _mon_codes.append(code)
    return n


def clear_points() -> None:
    mon = sys.monitoring
    for code in _mon_codes:
        try:
            mon.set_local_events(_TOOL, code, 0)
        except Exception:  # noqa: BLE001
            pass
    _mon_codes.clear()


# ---------------------------------------------------------------------------
# explorer
# ---------------------------------------------------------------------------
def prefix_hashes(ex: Execution) -> list[int]:
    """h[i] = hash of the first i trace points (what a child that deviates at i must reproduce)."""
    out = [0]
    h = 0
    for p in ex.trace:
        h = hash((h, (p.tid, p.kind, p.info, p.cands)))
        out.append(h)
    return out


def children(ex: Execution, pre_len: int) -> list[tuple[list[int], tuple[int, int]]]:
    """All one-more-deviation extensions of an execution whose prefix had pre_len choices."""
    hs = prefix_hashes(ex)
    out = []
    for i in range(pre_len, len(ex.trace)):
        for alt in range(1, len(ex.trace[i].cands)):
            out.append((ex.choices[:i] + [alt], (i, hs[i])))
    return out


def explore(run_one: Callable[[list[int], Any], Execution], bound: int,
            on_exec: Callable[[Execution], None], prefix: list[int] | None = None,
            expect: Any = None, max_execs: int | None = None) -> dict:
    """Depth-first enumeration of every schedule with at most `bound` deviations that extends
    `prefix` (each schedule exactly once). run_one(choices, expect) must build a fresh world."""
    stats = {"schedules": 0, "points": 0, "capped": False, "max_points": 0}
    stack: list[tuple[list[int], Any]] = [(list(prefix or []), expect)]
    while stack:
        pre, exp = stack.pop()
        ex = run_one(pre, exp)
        if ex.outcome.startswith("harness:"):
            raise HarnessError(ex.outcome + f" prefix={pre}")
        stats["schedules"] += 1
        stats["points"] += len(ex.trace)
        stats["max_points"] = max(stats["max_points"], len(ex.trace))
        on_exec(ex)
        if max_execs is not None and stats["schedules"] >= max_execs:
            stats["capped"] = True
            break
        if sum(1 for c in pre if c) >= bound:
            continue
        stack.extend(reversed(children(ex, len(pre))))
    return stats


def minimise(run_one: Callable[[list[int], list | None], Execution], choices: list[int],
             still_bad: Callable[[Execution], bool]) -> tuple[list[int], Execution]:
    """Greedy removal of deviations: replace one deviation by the default choice and truncate
    the schedule there (defaults afterwards); keep it if the same violation is still produced."""
    best = list(choices)
    ex_best = run_one(_trim(best), None)
    changed = True
    while changed:
        changed = False
        idxs = [i for i, c in enumerate(best) if c]
        for i in idxs:
            cand = best[:i] + [0]
            # keep later deviations only if they stay valid: simplest sound option is to drop them
            # one at a time, so first try dropping just this one and keeping the rest
            for trial in (best[:i] + [0] + best[i + 1:], cand):
                try:
                    ex = run_one(_trim(trial), None)
                except HarnessError:
                    continue
                if ex.outcome.startswith("harness:"):
                    continue
                if still_bad(ex):
                    best = _trim(ex.choices)
                    ex_best = ex
                    changed = True
                    break
            if changed:
                break
    return best, ex_best


def _trim(choices: list[int]) -> list[int]:
    c = list(choices)
    while c and c[-1] == 0:
        c.pop()
    return c
