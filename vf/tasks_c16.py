"""Task bodies of the C16 check (two tasks with the same argument name, never executed)."""

from __future__ import annotations


def ta(a: int) -> int:
    return a


def tb(a: int) -> int:
    return -a


def fired(x: int = 0) -> int:
    """Target of the trigger definitions registered by the trigger-store histories."""
    return x


def tc(a: int, b: int) -> int:
    """Two-argument task of the key-lookup part (vf/props/c16_keys.py)."""
    return a + b
