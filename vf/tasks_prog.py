"""Interpreter tasks for generated task programs (C09, C11, C19).

A program is a tree of nodes; a node is a dict
  {"fl": "p"|"d"|"c"|"r",  ("r": plain task with retry_for=(ValueError,), max_retries 1)      plain task (returns an invocation) | direct task (returns the value) | plain task with
                           running concurrency control TASK + reroute (n_c0: one execution RUNNING at a time)
   "mr": 0|1|2,            max_retries of the task that runs the node
   "sc": ["ret", v] | ["slow", seconds, v] | ["retry_until", k, v] | ["always_retry"] | ["fail", msg],
   "kids": [nodes], "call": "single"|"group"|"group_first"|"group_common" (identical members, common_args)
                          |"single_twice"|"group_twice" (the result / the results are read twice from one object)}
   script ["none"]: a side-effect-only body, returns None
Every node body counts its executions in STATE["exec"][path] (the harness reads it),
calls its children (singly through .result / the direct wrapper, or as one parallelize
group whose results are combined with an order-insensitive sum), then follows its script.
The six module-level functions differ only in name (a task's identity and options are
per function): n_p0..n_p2 plain with max_retries 0..2, n_d0..n_d2 direct.
"""

from __future__ import annotations

from typing import Any

STATE: dict[str, Any] = {"exec": {}, "tasks": {}, "point": None}


class ProgError(Exception):
    """non-retriable failure raised by a scripted node"""


def reset() -> None:
    STATE["exec"] = {}
    STATE["tasks"] = {}
    STATE["point"] = None


def _call_child(kid: dict, path: str) -> Any:
    t = STATE["tasks"][(kid["fl"], kid["mr"])]  # "c": a plain task under running concurrency control
    if kid["fl"] == "d":
        return t(kid, path)
    return t(kid, path).result


def _body(spec: dict, path: str) -> Any:
    ex = STATE["exec"]
    ex[path] = ex.get(path, 0) + 1
    attempt = ex[path]
    if STATE["point"] is not None:
        STATE["point"](path)
    total = 0
    kids = spec.get("kids") or []
    if spec.get("pre_sleep"):
        # the body works for a while (virtual time) before it calls its sub-tasks
        from vf import env

        env.CLOCK.sleep(spec["pre_sleep"])
    if kids:
        if spec.get("call", "single") == "single":
            for i, kid in enumerate(kids):
                total += _call_child(kid, f"{path}.{i}") or 0
        elif spec.get("call") == "single_twice":
            # waits for the sub-task, later reads the result again from the same invocation object
            for i, kid in enumerate(kids):
                inv = STATE["tasks"][(kid["fl"], kid["mr"])](kid, f"{path}.{i}")
                first = inv.result
                again = inv.result
                if first != again:
                    raise ProgError("second read differs", path)
                total += first or 0
        else:
            k0 = kids[0]
            t = STATE["tasks"][(k0["fl"] if k0["fl"] in ("c", "r") else "p", k0["mr"])]
            if spec.get("call") == "group_common":
                # the members differ only in their position; what they share travels once as common_args
                grp = t.parallelize([{"path": f"{path}.{i}"} for i in range(len(kids))], {"spec": k0})
            else:
                grp = t.parallelize([(kid, f"{path}.{i}") for i, kid in enumerate(kids)])
            if spec.get("call") == "group_first":
                # a consumer that stops after the first result it gets (which member that is may differ between
                # modes: the value is not used); the other members were submitted all the same
                for _ in grp.results:
                    break
            elif spec.get("call") == "group_twice":
                first = list(grp.results)
                again = list(grp.results)
                if sorted(map(repr, first)) != sorted(map(repr, again)):
                    raise ProgError("second pass differs", path)
                total += sum(x or 0 for x in first)
            else:
                total += sum(x or 0 for x in grp.results)
    sc = spec["sc"]
    if sc[0] == "none":
        return None
    if sc[0] == "ret":
        return sc[1] + total
    if sc[0] == "slow":
        # a body that takes (virtual) time: the thread sleeps, the runner loop keeps iterating
        from vf import env

        env.CLOCK.sleep(sc[1])
        return sc[2] + total
    if sc[0] == "retry_until":
        if attempt < sc[1]:
            from pynenc.exceptions import RetryError

            raise RetryError(f"{path}#{attempt}")
        return sc[2] + total
    if sc[0] == "vretry_until":
        # retriable only because the task lists ValueError in retry_for
        if attempt < sc[1]:
            raise ValueError(f"{path}#{attempt}")
        return sc[2] + total
    if sc[0] == "always_retry":
        from pynenc.exceptions import RetryError

        raise RetryError(f"{path}#always")
    if sc[0] == "fail":
        raise ProgError(sc[1], path)
    raise ValueError(sc)


def n_p0(spec: dict, path: str) -> Any:
    return _body(spec, path)


def n_p1(spec: dict, path: str) -> Any:
    return _body(spec, path)


def n_p2(spec: dict, path: str) -> Any:
    return _body(spec, path)


def n_d0(spec: dict, path: str) -> Any:
    return _body(spec, path)


def n_d1(spec: dict, path: str) -> Any:
    return _body(spec, path)


def n_d2(spec: dict, path: str) -> Any:
    return _body(spec, path)


def n_c0(spec: dict, path: str) -> Any:
    return _body(spec, path)


def n_r1(spec: dict, path: str) -> Any:
    return _body(spec, path)


FUNCS = {("c", 0): n_c0, ("r", 1): n_r1, ("p", 0): n_p0, ("p", 1): n_p1, ("p", 2): n_p2, ("d", 0): n_d0, ("d", 1): n_d1, ("d", 2): n_d2}


def bind_all(app: Any) -> dict:
    """Register the six node tasks on `app`; returns {(flavour, max_retries): callable}."""
    out = {}
    for (fl, mr), fn in FUNCS.items():
        if fl == "c":
            # at most one execution of this task RUNNING at a time; a blocked one is re-queued
            from pynenc.conf.config_task import ConcurrencyControlType as CC

            out[(fl, mr)] = app.task(fn, max_retries=mr, running_concurrency=CC.TASK, reroute_on_concurrency_control=True)
        elif fl == "r":
            # a custom retry_for: ValueError is retriable, and so is pynenc's own RetryError (always)
            out[(fl, mr)] = app.task(fn, max_retries=mr, retry_for=(ValueError,))
        elif fl == "p":
            out[(fl, mr)] = app.task(fn, max_retries=mr)
        else:
            out[(fl, mr)] = app.direct_task(fn, max_retries=mr)
    return out
