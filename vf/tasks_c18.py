"""Task bodies of the C18 check (deterministic workflow operations).

`wf_prog` is an interpreter: it performs a list of workflow operations through the real access path
`task.wf.<operation>()`, where `task` is the Task object of the running invocation (the object a user
reaches through the decorated module-level name: `inv.task` is `app._tasks[task_id]`).  Every value
obtained is appended to LOG (harness-visible), keyed by the running invocation id and attempt number.
"""

from __future__ import annotations

from typing import Any

OPS = ("random", "utc_now", "uuid", "exec0", "exec1")

LOG: list[dict] = []  # one record per body execution, in start order
ATTEMPTS: dict[str, int] = {}  # invocation id -> number of body executions started so far
HOOKS: dict[str, Any] = {}


class Die(BaseException):
    """The runner process / thread dies in the middle of the body (not an Exception: run() records nothing)."""


def reset() -> None:
    LOG.clear()
    ATTEMPTS.clear()
    SUB_LOG.clear()
    SUB_ATTEMPTS.clear()
    HOOKS.clear()


SUB_LOG: list = []
SUB_ATTEMPTS: dict = {}


def wf_sub(x: int) -> int:
    """The sub-task runs inside its parent's workflow, draws deterministic values itself and asks for one retry:
    its second execution must see what its first one saw."""
    from pynenc import context
    from pynenc.exceptions import RetryError

    app = context.get_current_app()
    inv = context.get_dist_invocation_context(app.app_id)
    inv_id = str(inv.invocation_id)
    attempt = SUB_ATTEMPTS.get(inv_id, 0) + 1
    SUB_ATTEMPTS[inv_id] = attempt
    wf = inv.task.wf
    SUB_LOG.append({"inv": inv_id, "attempt": attempt, "values": (("random", wf.random()), ("uuid", wf.uuid()))})
    if x == 2:
        raise ValueError("sub-task: fails for good")  # (not retriable: the sub-invocation ends FAILED)
    if attempt == 1:
        raise RetryError("sub-task: once more")
    return x + 100


def wf_prog(prog: list, fail_until: int = 0, die_at: int = -1, tag: int = 0, retry_at: int = -1) -> int:
    """Perform `prog`; raise RetryError on the first `fail_until` attempts (after the operations);
    on the first attempt die (BaseException) before operation number `die_at` if die_at >= 0, or ask for a retry
    (RetryError) before operation number `retry_at` if retry_at >= 0."""
    from pynenc import context
    from pynenc.identifiers.task_id import TaskId

    app = context.get_current_app()
    inv = context.get_dist_invocation_context(app.app_id)
    task = inv.task
    sub = app._tasks[TaskId(__name__, "wf_sub")]
    inv_id = str(inv.invocation_id)
    attempt = ATTEMPTS.get(inv_id, 0) + 1
    ATTEMPTS[inv_id] = attempt
    rec: dict = {"inv": inv_id, "attempt": attempt, "tag": tag, "values": [], "retries_seen": inv.num_retries,
                 "task_obj": id(task), "thread": HOOKS["tid"]() if "tid" in HOOKS else -1}
    LOG.append(rec)
    values = rec["values"]
    for i, op in enumerate(prog):
        if attempt == 1 and die_at == i:
            rec["died"] = i
            raise Die()
        if attempt == 1 and retry_at == i:
            from pynenc.exceptions import RetryError

            rec["retried_at"] = i
            raise RetryError(f"early retry before operation {i}")
        if "point" in HOOKS:
            HOOKS["point"](op)
        if op == "random":
            values.append(("random", task.wf.random()))
        elif op == "utc_now":
            values.append(("utc_now", task.wf.utc_now().isoformat()))
        elif op == "uuid":
            values.append(("uuid", task.wf.uuid()))
        elif op in ("exec0", "exec1", "exec2"):
            r = task.wf.execute_task(sub, int(op[-1]))
            values.append((op, str(r.invocation_id)))
        else:
            raise ValueError(op)
    if attempt == 1 and die_at == len(prog):
        rec["died"] = len(prog)
        raise Die()
    rec["complete"] = True
    if attempt <= fail_until:
        from pynenc.exceptions import RetryError

        raise RetryError(f"attempt {attempt}")
    return attempt
