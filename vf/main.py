"""Entry point: ./check <id> [--tier quick|thorough] [--replay path]."""

from __future__ import annotations

import argparse
import importlib
import json
import os
import sys
import traceback


def main() -> int:
    ap = argparse.ArgumentParser()
    ap.add_argument("prop")
    ap.add_argument("--tier", default=os.environ.get("VERIF_TIER", "quick"))
    ap.add_argument("--replay", default=None)
    ap.add_argument("--only", default=None, help="restrict to scenario names containing this")
    args = ap.parse_args()
    seed = int(os.environ.get("VERIF_SEED", "0") or 0)
    tier = args.tier if args.tier in ("quick", "thorough") else "quick"
    prop = args.prop.upper()

    import warnings

    warnings.filterwarnings("ignore")
    from vf import env, report

    env.quiet_logging()
    try:
        mod = importlib.import_module(f"vf.props.{prop.lower()}")
    except ModuleNotFoundError:
        print(f"no check for {prop}", file=sys.stderr)
        return 2
    env.install()
    env.scratch_dir()
    from vf import e1

    e1.prepare()  # threading shim (inline threads outside a scheduler) + SQLite proxy/pool
    if args.replay:
        with open(args.replay) as f:
            payload = json.load(f)
        try:
            violated = mod.replay(payload)
        except Exception:
            traceback.print_exc()
            return 2
        if violated:
            print(f"VIOLATION property={prop} replay={args.replay}")
            return 1
        print(f"replay of {args.replay}: property held")
        return 0
    ctx = report.Ctx(prop, tier, seed)
    ctx.only = args.only
    try:
        mod.run(ctx)
    except Exception:
        # harness error: never a verdict
        traceback.print_exc()
        print(f"HARNESS-ERROR property={prop}", file=sys.stderr)
        return 2
    return ctx.finish()


if __name__ == "__main__":
    sys.exit(main())
