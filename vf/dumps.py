"""Canonical dumps of the *concrete* state of the real backends (for BFS dedup and read-outs).

Ids are renamed by a caller-supplied function (first-appearance index); timestamps are
replaced by their rank where they are part of the state.
"""

from __future__ import annotations

from typing import Any, Callable

from vf import env


def _rows(db: str, sql: str, params: tuple = ()) -> list[tuple]:
    from pynenc.util.sqlite_utils import create_sqlite_connection

    with create_sqlite_connection(db) as conn:
        cur = conn.execute(sql, params)
        rows = cur.fetchall()
        cur.close()
    return rows


def queue(app: Any, backend: str, ren: Callable[[str], Any] = str) -> tuple:
    b = app.broker
    if backend == env.MEM:
        return tuple(ren(str(x)) for x in b._queue)
    return tuple(ren(r[0]) for r in _rows(b.sqlite_db_path,
                 f"SELECT invocation_id FROM {b.tables.QUEUE} ORDER BY created_at ASC, id ASC"))


def orchestrator(app: Any, backend: str, ren: Callable[[str], Any] = str, with_time_rank: bool = True) -> tuple:
    """(records, args index, wait edges, retries, heartbeats) — canonical, backend independent."""
    o = app.orchestrator
    if backend == env.MEM:
        recs = [(str(i), r.status.name, r.runner_id, r.timestamp.timestamp()) for i, r in o.invocation_status_record.items()]
        args = sorted((ren(str(i)), ap.key, str(ap.value)) for ap, ids in o.args_index.items() for i in ids)
        bc = o._blocking_control
        edges = sorted((ren(str(w)), ren(str(x))) for w, xs in (bc.waiting_for.items() if bc else []) for x in xs)
        retries = sorted((ren(str(i)), n) for i, n in o.invocation_retries.items())
        hbs = sorted((r, o.runner_atomic_service_eligible.get(r)) for r in o.runner_last_heartbeat)
        purge = sorted(ren(str(i)) for _, i in o.invocations_to_purge)
    else:
        t = o.tables
        db = o.sqlite_db_path
        raw = _rows(db, f"SELECT invocation_id, status, status_runner_id, status_timestamp, retry_count, auto_purge_timestamp FROM {t.INVOCATIONS}")
        recs = [(r[0], r[1].upper(), r[2], r[3]) for r in raw]
        retries = sorted((ren(r[0]), r[4]) for r in raw)
        purge = sorted(ren(r[0]) for r in raw if r[5] is not None)
        args = sorted((ren(r[0]), r[1], str(r[2])) for r in _rows(db, f"SELECT invocation_id, arg_key, arg_value FROM {t.INVOCATION_ARGS}"))
        edges = sorted((ren(r[0]), ren(r[1])) for r in _rows(db, f"SELECT waiter_id, waited_id FROM {t.BLOCKING_EDGES}"))
        hbs = sorted((r[0], bool(r[1])) for r in _rows(db, f"SELECT runner_id, allow_to_run_atomic_service FROM {t.RUNNER_HEARTBEATS}"))
    order = sorted(recs, key=lambda r: r[3])
    rank = {r[0]: k for k, r in enumerate(order)}
    records = sorted((ren(i), s, own, rank[i] if with_time_rank else None) for i, s, own, _ in recs)
    return (tuple(records), tuple(args), tuple(edges), tuple(retries), tuple(hbs), tuple(purge))


class Renamer:
    """id -> first-appearance index (ids never seen stay as '?<id>')."""

    def __init__(self) -> None:
        self.ids: list[str] = []

    def see(self, inv_id: Any) -> int:
        s = str(inv_id)
        if s not in self.ids:
            self.ids.append(s)
        return self.ids.index(s)

    def __call__(self, inv_id: Any) -> Any:
        s = str(inv_id)
        return self.ids.index(s) if s in self.ids else f"?{s}"
