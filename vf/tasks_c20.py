"""Task bodies of the C20 check (monitoring pages only observe).

Bound to a fresh app per system state with `vf.tasks.bind(app, func)`.  The body of `work`
is steered by the harness through SCRIPT (reset per state build): finish, fail, or submit a
child invocation and finish.
"""

from __future__ import annotations

from typing import Any

SCRIPT: dict[str, Any] = {}


def work(x: int, blob: str = "") -> int:
    mode = SCRIPT.get("mode", "ok")
    if mode == "fail":
        raise ValueError(f"c20 scripted failure x={x}")
    if mode == "spawn":
        SCRIPT["spawn"](x + 100)  # routes a child invocation, does not wait for it
    return x * 2 + len(blob)


def child(x: int) -> int:
    return x + 1


def on_evt() -> None:
    """Target of an event trigger (never executed by the harness)."""
    return None
