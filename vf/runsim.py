"""Whole-runner simulation: the unmodified ThreadRunner.run() loop, its task threads and a
client, all as controlled scheduler threads in virtual time.

Scheduling points: shim lock / thread start / join / is_alive / sleep operations and (SQLite)
every SQL statement.  The thread runner's documented wait strategy is a spin (its
_waiting_for_results returns at once): one spin iteration is modelled as sleep(10 ms), which
makes waiting visible to the scheduler without changing what the loop computes.
"""

from __future__ import annotations

from typing import Any, Callable

from vf import env, sched

T0 = env.EPOCH0 + 130.0  # 22:16:10 — a 4-minute horizon stays clear of the */5 and */15 recovery crons
SPIN = 0.01


class Sim:
    def __init__(self, backend: str, max_threads: int = 1, app_id: str = "sim", **conf: Any) -> None:
        from pynenc.runner.thread_runner import ThreadRunner

        env.reset_world(T0)
        cfg = dict(runner_cls="ThreadRunner", max_threads=max_threads, min_threads=1, min_parallel_slots=1,
                   cached_status_time=0.0, runner_loop_sleep_time_sec=0.05,
                   invocation_wait_results_sleep_time_sec=0.05)
        cfg.update(conf)
        db = env.reuse_db(app_id) if backend == env.SQLITE else None
        self.backend = backend
        self.app = env.make_app(backend, app_id=app_id, db=db, **cfg)
        # components are built lazily: build them (and their tables) now, outside the scheduler - table creation under
        # the scheduler happens only the first time a process sees the file, which would make executions differ
        for comp in ("orchestrator", "broker", "state_backend", "trigger", "client_data_store"):
            getattr(self.app, comp)
        self.runner = ThreadRunner(self.app)
        self.claimed: list[str] = []
        self.events: list[tuple] = []
        self._watch_claims()

    def _watch_claims(self) -> None:
        orch = self.app.orchestrator
        orig = orch._atomic_status_transition
        rid = self.runner.runner_id

        def wrapped(invocation_id: Any, status: Any, runner_id: Any = None) -> Any:
            rec = orig(invocation_id, status, runner_id)
            if status.name == "PENDING" and runner_id == rid:
                self.claimed.append(str(invocation_id))
            return rec

        orch._atomic_status_transition = wrapped

    def run(self, client: Callable[[], Any], choices: list[int] | None = None, expect: Any = None,
            strategy: str = "default", horizon: float = 240.0, max_points: int = 60000,
            on_point: Callable[[], None] | None = None, extra: list | None = None) -> sched.Execution:
        """client runs in its own controlled thread; it must stop the runner when it is done
        (self.runner.stop_runner_loop()) unless a stop is injected from outside."""
        import pynenc.runner.thread_runner as trmod
        from pynenc.runner.thread_runner import ThreadRunner

        orig_wait = ThreadRunner._waiting_for_results

        def spin_wait(this: Any, *a: Any, **k: Any) -> None:
            orig_wait(this, *a, **k)
            trmod.time.sleep(SPIN)

        ThreadRunner._waiting_for_results = spin_wait  # type: ignore[method-assign]
        s = sched.Scheduler(choices, expect, max_points=max_points, max_vtime=horizon,
                            lazy=("_add_histories",), strategy=strategy, exit_points=True)
        s.on_point = on_point
        self.sched = s

        self.at_return = None

        def loop() -> None:
            def snapshot() -> None:
                # the state at the instant run() returns or raises (task threads that were not joined may still be
                # executing: in a real process they die with it)
                self.at_return = {"records": {i: self.record(i) for i in self.all_ids()}, "queue": self.queue()}

            try:
                self.runner.run()
            except Exception:  # (not the scheduler's Abort, a BaseException: an aborted run() never returned)
                snapshot()
                raise
            snapshot()

        try:
            ex = s.run([("loop", loop), ("client", client), *(extra or [])])
        finally:
            ThreadRunner._waiting_for_results = orig_wait  # type: ignore[method-assign]
        ex.sim = self
        return ex

    def drain(self, limit: float = 60.0) -> bool:
        """Called by a client thread: wait (virtual time) until every invocation the orchestrator knows is final."""
        import pynenc.runner.thread_runner as trmod

        final = {"SUCCESS", "FAILED", "CONCURRENCY_CONTROLLED_FINAL"}
        t_end = env.CLOCK.now + limit
        while env.CLOCK.now < t_end:
            recs = [self.record(i) for i in self.all_ids()]
            if all(r is not None and r[0] in final for r in recs):
                return True
            trmod.time.sleep(0.05)
        return False

    # -- read-outs ---------------------------------------------------------
    def record(self, inv_id: str) -> tuple | None:
        try:
            r = self.app.orchestrator.get_invocation_status_record(inv_id)
        except KeyError:
            return None
        return (r.status.name, r.runner_id)

    def queue(self) -> list[str]:
        from vf import dumps

        return list(dumps.queue(self.app, self.backend))

    def all_ids(self) -> list[str]:
        n = self.app.orchestrator.count_invocations()
        return [str(i) for i in self.app.orchestrator.get_invocation_ids_paginated(limit=max(n, 1), offset=0)]
