"""SQLite seam: statement-level scheduling points + lock-blocking emulation.

pynenc opens connections with a 30 s busy timeout.  Under the controlled scheduler
connections are opened with timeout 0; when SQLite answers "database is locked" the
proxy rolls back an implicit BEGIN that the sqlite3 module just opened for this very
statement, marks the thread *blocked on the database* and retries once another thread
has committed / rolled back / closed — the behaviour of the busy handler without wall
time.  pynenc's own retry loop in SQLiteConnection.execute never sees a lock error.
"""

from __future__ import annotations

import re
import sqlite3 as _sqlite3
import types
from typing import Any

from vf import sched

_WORD = re.compile(r"\s*([A-Za-z]+)(?:\s+([A-Za-z]+))?")
STATS = {"statements": 0, "lock_waits": 0}
_LABELS: dict[str, str] = {}
POOL: dict[str, list] = {}  # path -> idle real connections (PRAGMAs already applied)
DDL_DONE: dict[str, set] = {}  # path -> CREATE ... IF NOT EXISTS texts already executed there
USE_POOL = True


def _label(sql: str) -> str:
    lab = _LABELS.get(sql)
    if lab is None:
        lab = _LABELS[sql] = _label_uncached(sql)
    return lab


def _label_uncached(sql: str) -> str:
    m = _WORD.match(sql)
    if not m:
        return "sql"
    a = m.group(1).upper()
    b = (m.group(2) or "").upper()
    if a in ("BEGIN", "INSERT", "CREATE", "DELETE", "SELECT", "UPDATE", "REPLACE", "PRAGMA"):
        if a == "BEGIN":
            return f"BEGIN {b}".strip()
        tbl = re.search(r"(?:FROM|INTO|UPDATE|TABLE(?: IF NOT EXISTS)?|INDEX(?: IF NOT EXISTS)?)\s+([A-Za-z0-9_]+)", sql, re.I)
        t = tbl.group(1) if tbl else ""
        t = re.sub(r"^.*?__", "", t)  # drop the per-app prefix
        return f"{a} {t}".strip()
    return a


class ConnProxy:
    def __init__(self, conn: _sqlite3.Connection, path: str, pooled: bool = False) -> None:
        object.__setattr__(self, "_c", conn)
        object.__setattr__(self, "_path", path)
        object.__setattr__(self, "_pooled", pooled)  # PRAGMAs were applied when it was first opened
        object.__setattr__(self, "_closed", False)

    # -- helpers ---------------------------------------------------------
    def _released(self) -> None:
        s = sched.ACTIVE
        if s is not None and not s.in_sched:
            # (read-outs made by an on_point hook run inside the scheduling decision of the waiting thread itself:
            # their commits release nothing a waiter could be waiting for, and waking it would make it spin)
            s.wake(("db", self._path))

    def _run(self, fn: Any, label: str) -> Any:
        s = sched.ACTIVE
        controlled = s is not None and s.me() is not None and not s.aborting
        if controlled:
            STATS["statements"] += 1
            s.me().last_op = label
            s.point("sql", label)
        while True:
            was_in_tx = self._c.in_transaction
            try:
                return fn()
            except _sqlite3.OperationalError as e:
                if "locked" not in str(e) or not controlled or s.aborting:
                    raise
                if not was_in_tx and self._c.in_transaction:
                    self._c.rollback()  # the implicit BEGIN opened for this statement
                STATS["lock_waits"] += 1
                s.block(("db", self._path), "db.wait")

    # -- connection API used by pynenc ---------------------------------------
    def execute(self, sql: str, parameters: Any = (), /) -> Any:
        head = sql.lstrip()[:24].upper()
        if head.startswith("PRAGMA"):
            if self._pooled:
                return None
            if "BUSY_TIMEOUT" in head and USE_POOL:
                return self._c.execute("PRAGMA busy_timeout=0")
            try:
                return self._c.execute(sql, parameters)
            except _sqlite3.OperationalError:
                if sched.ACTIVE is not None:
                    return self._c.execute("PRAGMA busy_timeout=0")
                raise
        if head.startswith("CREATE") and "IF NOT EXISTS" in sql:
            done = DDL_DONE.setdefault(self._path, set())
            if sql in done:
                return None  # same DDL already executed on this file: a no-op by definition
            cur = self._c.execute(sql, parameters)
            done.add(sql)
            return cur
        label = _label(sql)
        cur = self._run(lambda: self._c.execute(sql, parameters), label)
        if head.startswith(("COMMIT", "END", "ROLLBACK")):
            self._released()
        return cur

    def executemany(self, sql: str, seq: Any, /) -> Any:
        return self._run(lambda: self._c.executemany(sql, seq), _label(sql) + "*")

    def commit(self) -> None:
        if self._c.in_transaction:
            self._run(self._c.commit, "COMMIT")
            self._released()
        else:
            self._c.commit()

    def rollback(self) -> None:
        self._c.rollback()
        self._released()

    def close(self) -> None:
        if self._closed:
            return
        object.__setattr__(self, "_closed", True)
        try:
            had_tx = self._c.in_transaction
            if had_tx:
                self._c.rollback()
            if USE_POOL:
                POOL.setdefault(self._path, []).append(self._c)
            else:
                self._c.close()
        finally:
            self._released()

    def __enter__(self) -> "ConnProxy":
        self._c.__enter__()
        return self

    def __exit__(self, et: Any, ev: Any, tb: Any) -> Any:
        if self._c.in_transaction:
            if et is None:
                self._run(self._c.commit, "COMMIT(exit)")
            else:
                self._c.rollback()
            self._released()
            return False
        return self._c.__exit__(et, ev, tb)

    def __del__(self) -> None:
        try:
            self.close()
        except Exception:  # noqa: BLE001
            pass

    def __getattr__(self, name: str) -> Any:
        return getattr(self._c, name)

    def __setattr__(self, name: str, value: Any) -> None:
        setattr(self._c, name, value)


class _SqliteShim(types.ModuleType):
    _vf_sqlite_shim = True

    def __init__(self) -> None:
        super().__init__("sqlite3")

    def connect(self, database: Any, timeout: float = 5.0, **kw: Any) -> Any:
        path = str(database)
        if USE_POOL:
            idle = POOL.get(path)
            while idle:
                raw = idle.pop()
                try:
                    raw.in_transaction  # a connection finalised by the cyclic GC is closed: skip it
                except _sqlite3.ProgrammingError:
                    continue
                return ConnProxy(raw, path, pooled=True)
            timeout = 0.0  # blocking is emulated (see module docstring)
        if USE_POOL:
            kw["check_same_thread"] = False  # pooled connections move between (serialised) threads
        conn = _sqlite3.connect(database, timeout=timeout, **kw)
        return ConnProxy(conn, path)

    def __getattr__(self, name: str) -> Any:
        return getattr(_sqlite3, name)


SQLITE_SHIM = _SqliteShim()


def install_sqlite() -> None:
    from vf import env

    env.install(sqlite_shim=SQLITE_SHIM)


def forget(path: str) -> None:
    """The file is about to be replaced: drop idle connections and remembered DDL."""
    for c in POOL.pop(path, []):
        try:
            c.close()
        except Exception:  # noqa: BLE001
            pass
    DDL_DONE.pop(path, None)


def reset_db(path: str) -> bool:
    """Empty every table of an existing database file (schema and idle connections are kept).
    Returns False if the file does not exist yet."""
    import os

    if not os.path.exists(path):
        forget(path)
        return False
    idle = POOL.get(path)
    conn = None
    while idle and conn is None:
        conn = idle.pop()
        try:
            conn.in_transaction
        except _sqlite3.ProgrammingError:
            conn = None
    if conn is None:
        conn = _sqlite3.connect(path, timeout=30.0, check_same_thread=False)
    try:
        names = [r[0] for r in conn.execute("SELECT name FROM sqlite_master WHERE type='table'").fetchall()]
        for n in names:
            conn.execute(f'DELETE FROM "{n}"')
        conn.commit()
    finally:
        POOL.setdefault(path, []).append(conn)
    return True
