"""Deterministic fork-pool map: results are merged in item order, whatever the completion order."""

from __future__ import annotations

import multiprocessing as mp
import os
import traceback
from typing import Any, Callable, Iterable

WORKERS = int(os.environ.get("VF_WORKERS", "0")) or min(16, os.cpu_count() or 1)


class WorkerError(RuntimeError):
    pass


def _call(args: tuple) -> tuple:
    fn, idx, item = args
    try:
        return idx, fn(item), None
    except BaseException as e:  # noqa: BLE001 - report harness errors to the parent
        return idx, None, f"{type(e).__name__}: {e}\n{traceback.format_exc()}"


def pmap(fn: Callable[[Any], Any], items: Iterable[Any], workers: int | None = None) -> list:
    items = list(items)
    n = min(workers or WORKERS, len(items))
    if n <= 1:
        out = []
        for i, it in enumerate(items):
            _, r, err = _call((fn, i, it))
            if err:
                raise WorkerError(err)
            out.append(r)
        return out
    ctx = mp.get_context("fork")
    results: list[Any] = [None] * len(items)
    with ctx.Pool(n, maxtasksperchild=None) as pool:
        for idx, r, err in pool.imap_unordered(
            _call, [(fn, i, it) for i, it in enumerate(items)], chunksize=1
        ):
            if err:
                pool.terminate()
                raise WorkerError(err)
            results[idx] = r
    return results
