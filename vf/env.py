"""Owned environment: virtual clock, deterministic ids, seams, app factories.

Everything here reaches pynenc from outside (module attributes are rebound after
all pynenc modules have been imported); nothing in /repo is edited.
"""

from __future__ import annotations

import datetime as _dt
import importlib
import os
import pkgutil
import shutil
import sys
import tempfile
import time as _real_time
import types
import uuid as _uuid

_real_datetime = _dt.datetime
_real_time_time = _real_time.time
_real_sleep = _real_time.sleep
_real_uuid4 = _uuid.uuid4

EPOCH0 = 1_700_000_040.0  # 2023-11-14T22:14:00Z ; minute boundary, not on */5


class VClock:
    """Virtual clock. Every read advances it by 1 microsecond (strictly increasing stamps)."""

    TICK = 1e-6

    def __init__(self) -> None:
        self.now = EPOCH0
        self.reads = 0
        self.sleeper = None  # optional callable(seconds) installed by the scheduler
        self.frozen = False  # frozen: reads return `now` unchanged (pure-function scenarios)

    def reset(self, t: float = EPOCH0) -> None:
        self.now = t
        self.reads = 0
        self.frozen = False

    def read(self) -> float:
        self.reads += 1
        if self.frozen:
            return self.now
        self.now = round(self.now + self.TICK, 6)
        return self.now

    def advance(self, seconds: float) -> None:
        self.now = round(self.now + seconds, 6)

    def sleep(self, seconds: float) -> None:
        if self.sleeper is not None:
            self.sleeper(seconds)
        else:
            self.advance(max(0.0, seconds))


CLOCK = VClock()


class _DTMeta(type):
    def __instancecheck__(cls, obj: object) -> bool:  # noqa: D401
        return isinstance(obj, _real_datetime)

    def __subclasscheck__(cls, sub: type) -> bool:
        return issubclass(sub, _real_datetime)


class VDatetime(_real_datetime, metaclass=_DTMeta):
    """datetime whose now()/utcnow() read the virtual clock; returns plain datetimes."""

    @classmethod
    def now(cls, tz=None):  # type: ignore[override]
        return _real_datetime.fromtimestamp(CLOCK.read(), tz)

    @classmethod
    def utcnow(cls):  # type: ignore[override]
        return _real_datetime.fromtimestamp(CLOCK.read(), _dt.UTC).replace(tzinfo=None)

    @classmethod
    def today(cls):  # type: ignore[override]
        return cls.now()

    @classmethod
    def fromtimestamp(cls, *a, **k):  # type: ignore[override]
        return _real_datetime.fromtimestamp(*a, **k)

    @classmethod
    def fromisoformat(cls, *a, **k):  # type: ignore[override]
        return _real_datetime.fromisoformat(*a, **k)

    @classmethod
    def strptime(cls, *a, **k):  # type: ignore[override]
        return _real_datetime.strptime(*a, **k)

    @classmethod
    def combine(cls, *a, **k):  # type: ignore[override]
        return _real_datetime.combine(*a, **k)


def _vtime() -> float:
    return CLOCK.read()


def _vsleep(seconds: float) -> None:
    CLOCK.sleep(seconds)


class _TimeShim(types.ModuleType):
    """Stand-in for the `time` module inside pynenc modules."""

    def __init__(self) -> None:
        super().__init__("time")
        self.time = _vtime
        self.sleep = _vsleep
        self.monotonic = _vtime
        self.perf_counter = _vtime

    def __getattr__(self, name: str):
        return getattr(_real_time, name)


TIME_SHIM = _TimeShim()


class _IdGen:
    def __init__(self) -> None:
        self.n = 0

    def reset(self) -> None:
        self.n = 0
        self.serial = 0

    def next_serial(self) -> int:
        self.serial = getattr(self, "serial", 0) + 1
        return self.serial

    def uuid4(self) -> _uuid.UUID:
        self.n += 1
        return _uuid.UUID(int=self.n)


IDS = _IdGen()

_installed = False
_patched: list[tuple[object, str, object]] = []
PYNENC_MODULES: list[str] = []


def import_all_pynenc() -> None:
    import pynenc

    for pkgname in ("pynenc", "pynmon"):
        try:
            pkg = importlib.import_module(pkgname)
        except Exception:
            continue
        for m in pkgutil.walk_packages(pkg.__path__, pkgname + "."):
            if ".cli" in m.name or m.name.endswith("__main__"):
                continue
            try:
                importlib.import_module(m.name)
            except Exception:
                pass


def install(threading_shim: object | None = None, sqlite_shim: object | None = None) -> None:
    """Rebind clock / uuid (and optionally threading, sqlite3) in every pynenc module.

    Idempotent for clock+uuid; threading/sqlite shims can be (re)installed later.
    """
    global _installed
    import sqlite3 as _sqlite3
    import threading as _threading

    if not _installed:
        import_all_pynenc()
    for name, mod in list(sys.modules.items()):
        if mod is None or not (
            name == "pynenc"
            or name.startswith("pynenc.")
            or name == "pynmon"
            or name.startswith("pynmon.")
        ):
            continue
        if name.startswith("pynenc_tests"):
            continue
        if name not in PYNENC_MODULES:
            PYNENC_MODULES.append(name)
        for attr, val in list(vars(mod).items()):
            new = None
            if val is _real_time or isinstance(val, _TimeShim):
                new = TIME_SHIM
            elif val is _real_time_time:
                new = _vtime
            elif val is _real_sleep:
                new = _vsleep
            elif val is _real_datetime:
                new = VDatetime
            elif threading_shim is not None and (
                val is _threading or getattr(val, "_vf_threading_shim", False)
            ):
                new = threading_shim
            elif sqlite_shim is not None and (
                val is _sqlite3 or getattr(val, "_vf_sqlite_shim", False)
            ):
                new = sqlite_shim
            if new is not None and new is not val:
                _patched.append((mod, attr, val))
                setattr(mod, attr, new)
    _uuid.uuid4 = IDS.uuid4
    if not _installed:
        _install_speed_seams()
    _installed = True


def _install_speed_seams() -> None:
    """Environment scans that cost ~35 ms per app object and carry no behaviour of interest:
    plugin entry-point discovery (done once here) and the search of sys.modules for the
    variable that holds the app (only used to re-import the app in another process)."""
    import pynenc.app as appmod
    import pynenc.plugin_loader as pl
    import pynenc.util.import_app as ia

    pl.load_all_plugins()
    _patched.append((appmod, "load_all_plugins", appmod.load_all_plugins))
    appmod.load_all_plugins = lambda: None
    _patched.append((ia, "extract_module_info", ia.extract_module_info))
    ia.extract_module_info = lambda app: (None, None, None)
    # configuration objects are pure functions of (class, config_values, file, task options,
    # process environment): memoise their resolution (0.4 ms each, ~20 per app object)
    import cistell.root as cr
    from collections import defaultdict

    orig_init = cr.ConfigRoot.__init__
    cache: dict = {}

    def fast_init(self, config_values=None, config_filepath=None):  # type: ignore[no-untyped-def]
        try:
            key = (type(self), repr(config_values), config_filepath, repr(self.__dict__))
        except Exception:  # noqa: BLE001
            return orig_init(self, config_values, config_filepath)
        hit = cache.get(key)
        if hit is None:
            orig_init(self, config_values, config_filepath)
            cache[key] = (
                {k: set(v) for k, v in self.config_cls_to_fields.items()},
                dict(self._config_values),
                dict(self._provenance),
                set(self._mapped_keys),
            )
            return None
        self.config_cls_to_fields = defaultdict(set, {k: set(v) for k, v in hit[0].items()})
        self._config_values = dict(hit[1])
        self._provenance = dict(hit[2])
        self._mapped_keys = set(hit[3])
        return None

    _patched.append((cr.ConfigRoot, "__init__", orig_init))
    cr.ConfigRoot.__init__ = fast_init  # type: ignore[method-assign]


def uninstall() -> None:
    global _installed
    while _patched:
        mod, attr, val = _patched.pop()
        setattr(mod, attr, val)
    _uuid.uuid4 = _real_uuid4
    _installed = False


def reset_world(t0: float = EPOCH0) -> None:
    """Reset clock, id counter and pynenc process-level registries between executions."""
    CLOCK.reset(t0)
    IDS.reset()
    from pynenc import context
    from pynenc.app import Pynenc
    from pynenc.state_backend.mem_state_backend import MemStateBackend

    Pynenc._instances.clear()
    MemStateBackend._app_info_registry.clear()
    # thread-local context of the *calling* thread
    for attr in (
        "runner_context",
        "dist_inv_context",
        "sync_inv_context",
        "current_app",
        "runner_args",
        "current_runner",
    ):
        if hasattr(context.thread_local, attr):
            try:
                delattr(context.thread_local, attr)
            except AttributeError:
                pass


# --------------------------------------------------------------------------
# scratch directory (SQLite files) — on /dev/shm, removed at exit
# --------------------------------------------------------------------------
_scratch: str | None = None
_scratch_pid: int = 0
_scratch_root: str | None = None


def scratch_dir() -> str:
    """Per-process scratch directory on /dev/shm. Forked workers get a sub-directory of the
    parent's directory, so the parent's atexit removes everything."""
    global _scratch, _scratch_pid, _scratch_root
    pid = os.getpid()
    if _scratch is not None and _scratch_pid == pid and os.path.isdir(_scratch):
        return _scratch
    if _scratch_root is None or not os.path.isdir(_scratch_root):
        base = "/dev/shm" if os.path.isdir("/dev/shm") else tempfile.gettempdir()
        _scratch_root = tempfile.mkdtemp(prefix=f"vf-{pid}-", dir=base)
        import atexit

        def _cleanup(path: str = _scratch_root, owner: int = pid) -> None:
            if os.getpid() == owner:
                shutil.rmtree(path, ignore_errors=True)

        atexit.register(_cleanup)
        _scratch = _scratch_root
    else:
        _scratch = os.path.join(_scratch_root, f"w{pid}")
        os.makedirs(_scratch, exist_ok=True)
    _scratch_pid = pid
    return _scratch


def reuse_db(name: str = "db") -> str:
    """Path of this process's database `name`, emptied (rows deleted, schema kept)."""
    from vf import sqlproxy

    path = os.path.join(scratch_dir(), f"{name}.sqlite")
    sqlproxy.reset_db(path)
    return path


def fresh_db(name: str = "db") -> str:
    from vf import sqlproxy

    d = scratch_dir()
    path = os.path.join(d, f"{name}.sqlite")
    sqlproxy.forget(path)
    for suffix in ("", "-wal", "-shm", "-journal"):
        try:
            os.unlink(path + suffix)
        except FileNotFoundError:
            pass
    return path


MEM = "mem"
SQLITE = "sqlite"
BACKENDS = (MEM, SQLITE)

_CLS = {
    MEM: dict(
        orchestrator_cls="MemOrchestrator",
        broker_cls="MemBroker",
        state_backend_cls="MemStateBackend",
        trigger_cls="MemTrigger",
        client_data_store_cls="MemClientDataStore",
    ),
    SQLITE: dict(
        orchestrator_cls="SQLiteOrchestrator",
        broker_cls="SQLiteBroker",
        state_backend_cls="SQLiteStateBackend",
        trigger_cls="SQLiteTrigger",
        client_data_store_cls="SQLiteClientDataStore",
    ),
}


def make_app(backend: str, app_id: str = "vf", db: str | None = None, **conf):
    """New Pynenc app object on the chosen backend family (no multiton reuse)."""
    from pynenc.app import Pynenc

    cv = {"app_id": app_id, "logging_level": "critical", "log_use_colors": False}
    cv.update(_CLS[backend])
    if backend == SQLITE:
        cv["sqlite_db_path"] = db or fresh_db(app_id)
    cv.update(conf)
    Pynenc._instances.clear()
    app = Pynenc(config_values=cv)
    app.logger.setLevel(100)
    return app


def quiet_logging() -> None:
    import logging

    logging.disable(logging.CRITICAL)
