"""Owned environment: virtual clock, deterministic ids, seams, app factories.

Everything here reaches pynenc from outside (module attributes are rebound after
all pynenc modules have been imported); nothing in /repo is edited.
"""

from __future__ import annotations

import datetime as _dt
import importlib
import os
import pkgutil
import shutil
import sys
import tempfile
import time as _real_time
import types
import uuid as _uuid

_real_datetime = _dt.datetime
_real_time_time = _real_time.time
_real_sleep = _real_time.sleep
_real_uuid4 = _uuid.uuid4

EPOCH0 = 1_700_000_040.0  # 2023-11-14T22:14:00Z ; minute boundary, not on */5


class VClock:
    """Virtual clock. Every read advances it by 1 microsecond (strictly increasing stamps)."""

    TICK = 1e-6

    def __init__(self) -> None:
        self.now = EPOCH0
        self.reads = 0
        self.sleeper = None  # optional callable(seconds) installed by the scheduler
        self.frozen = False  # frozen: reads return `now` unchanged (pure-function scenarios)

    def reset(self, t: float = EPOCH0) -> None:
        self.now = t
        self.reads = 0
        self.frozen = False

    def read(self) -> float:
        self.reads += 1
        if self.frozen:
            return self.now
        self.now = round(self.now + self.TICK, 6)
        return self.now

    def advance(self, seconds: float) -> None:
        self.now = round(self.now + seconds, 6)

    def sleep(self, seconds: float) -> None:
        if self.sleeper is not None:
            self.sleeper(seconds)
        else:
            self.advance(max(0.0, seconds))


CLOCK = VClock()


class _DTMeta(type):
    def __instancecheck__(cls, obj: object) -> bool:  # noqa: D401
        return isinstance(obj, _real_datetime)

    def __subclasscheck__(cls, sub: type) -> bool:
        return issubclass(sub, _real_datetime)


class VDatetime(_real_datetime, metaclass=_DTMeta):
    """datetime whose now()/utcnow() read the virtual clock; returns plain datetimes."""

    @classmethod
    def now(cls, tz=None):  # type: ignore[override]
        return _real_datetime.fromtimestamp(CLOCK.read(), tz)

    @classmethod
    def utcnow(cls):  # type: ignore[override]
        return _real_datetime.fromtimestamp(CLOCK.read(), _dt.UTC).replace(tzinfo=None)

    @classmethod
    def today(cls):  # type: ignore[override]
        return cls.now()

    @classmethod
    def fromtimestamp(cls, *a, **k):  # type: ignore[override]
        return _real_datetime.fromtimestamp(*a, **k)

    @classmethod
    def fromisoformat(cls, *a, **k):  # type: ignore[override]
        return _real_datetime.fromisoformat(*a, **k)

    @classmethod
    def strptime(cls, *a, **k):  # type: ignore[override]
        return _real_datetime.strptime(*a, **k)

    @classmethod
    def combine(cls, *a, **k):  # type: ignore[override]
        return _real_datetime.combine(*a, **k)


def _vtime() -> float:
    return CLOCK.read()


def _vsleep(seconds: float) -> None:
    CLOCK.sleep(seconds)


class _TimeShim(types.ModuleType):
    """Stand-in for the `time` module inside pynenc modules."""

    def __init__(self) -> None:
        super().__init__("time")
        self.time = _vtime
        self.sleep = _vsleep
        self.monotonic = _vtime
        self.perf_counter = _vtime

    def __getattr__(self, name: str):
        return getattr(_real_time, name)


TIME_SHIM = _TimeShim()


class _IdGen:
    def __init__(self) -> None:
        self.n = 0

    def reset(self) -> None:
        self.n = 0
        self.serial = 0

    def next_serial(self) -> int:
        self.serial = getattr(self, "serial", 0) + 1
        return self.serial

    def uuid4(self) -> _uuid.UUID:
        self.n += 1
        return _uuid.UUID(int=self.n)


IDS = _IdGen()

_installed = False
_patched: list[tuple[object, str, object]] = []
PYNENC_MODULES: list[str] = []


def import_all_pynenc() -> None:
    import pynenc

    for pkgname in ("pynenc", "pynmon"):
        try:
            pkg = importlib.import_module(pkgname)
        except Exception:
            continue
        for m in pkgutil.walk_packages(pkg.__path__, pkgname + "."):
            if ".cli" in m.name or m.name.endswith("__main__"):
                continue
            try:
                importlib.import_module(m.name)
            except Exception:
                pass


def install(threading_shim: object | None = None, sqlite_shim: object | None = None) -> None:
    """Rebind clock / uuid (and optionally threading, sqlite3) in every pynenc module.

    Idempotent for clock+uuid; threading/sqlite shims can be (re)installed later.
    """
    global _installed
    import sqlite3 as _sqlite3
    import threading as _threading

    if not _installed:
        import_all_pynenc()
    for name, mod in list(sys.modules.items()):
        if mod is None or not (
            name == "pynenc"
            or name.startswith("pynenc.")
            or name == "pynmon"
            or name.startswith("pynmon.")
        ):
            continue
        if name.startswith("pynenc_tests"):
            continue
        if name not in PYNENC_MODULES:
            PYNENC_MODULES.append(name)
        for attr, val in list(vars(mod).items()):
            new = None
            if val is _real_time or isinstance(val, _TimeShim):
                new = TIME_SHIM
            elif val is _real_time_time:
                new = _vtime
            elif val is _real_sleep:
                new = _vsleep
            elif val is _real_datetime:
                new = VDatetime
            elif threading_shim is not None and (
                val is _threading or getattr(val, "_vf_threading_shim", False)
            ):
                new = threading_shim
            elif sqlite_shim is not None and (
                val is _sqlite3 or getattr(val, "_vf_sqlite_shim", False)
            ):
                new = sqlite_shim
            if new is not None and new is not val:
                _patched.append((mod, attr, val))
                setattr(mod, attr, new)
    _uuid.uuid4 = IDS.uuid4
    if not _installed:
        _install_speed_seams()
    _installed = True


def _install_speed_seams() -> None:
    """Environment scans that cost ~35 ms per app object and carry no behaviour of interest:
    plugin entry-point discovery (done once here) and the search of sys.modules for the
    variable that holds the app (only used to re-import the app in another process)."""
    import pynenc.app as appmod
    import pynenc.plugin_loader as pl
    import pynenc.util.import_app as ia

    pl.load_all_plugins()
    _patched.append((appmod, "load_all_plugins", appmod.load_all_plugins))
    appmod.load_all_plugins = lambda: None
    _patched.append((ia, "extract_module_info", ia.extract_module_info))
    ia.extract_module_info = lambda app: (None, None, None)


def uninstall() -> None:
    global _installed
    while _patched:
        mod, attr, val = _patched.pop()
        setattr(mod, attr, val)
    _uuid.uuid4 = _real_uuid4
    _installed = False


def reset_world(t0: float = EPOCH0) -> None:
    """Reset clock, id counter and pynenc process-level registries between executions."""
    CLOCK.reset(t0)
    IDS.reset()
    from pynenc import context
    from pynenc.app import Pynenc
    from pynenc.state_backend.mem_state_backend import MemStateBackend

    Pynenc._instances.clear()
    MemStateBackend._app_info_registry.clear()
    # thread-local context of the *calling* thread
    for attr in (
        "runner_context",
        "dist_inv_context",
        "sync_inv_context",
        "current_app",
        "runner_args",
        "current_runner",
    ):
        if hasattr(context.thread_local, attr):
            try:
                delattr(context.thread_local, attr)
            except AttributeError:
                pass


# --------------------------------------------------------------------------
# scratch directory (SQLite files) — on /dev/shm, removed at exit
# --------------------------------------------------------------------------
_scratch: str | None = None


def scratch_dir() -> str:
    global _scratch
    if _scratch is None or not os.path.isdir(_scratch):
        base = "/dev/shm" if os.path.isdir("/dev/shm") else tempfile.gettempdir()
        _scratch = tempfile.mkdtemp(prefix=f"vf-{os.getpid()}-", dir=base)
        import atexit

        pid = os.getpid()

        def _cleanup(path: str = _scratch, pid: int = pid) -> None:
            if os.getpid() == pid:
                shutil.rmtree(path, ignore_errors=True)

        atexit.register(_cleanup)
    return _scratch


def fresh_db(name: str = "db") -> str:
    d = scratch_dir()
    path = os.path.join(d, f"{name}.sqlite")
    for suffix in ("", "-wal", "-shm", "-journal"):
        try:
            os.unlink(path + suffix)
        except FileNotFoundError:
            pass
    return path


MEM = "mem"
SQLITE = "sqlite"
BACKENDS = (MEM, SQLITE)

_CLS = {
    MEM: dict(
        orchestrator_cls="MemOrchestrator",
        broker_cls="MemBroker",
        state_backend_cls="MemStateBackend",
        trigger_cls="MemTrigger",
        client_data_store_cls="MemClientDataStore",
    ),
    SQLITE: dict(
        orchestrator_cls="SQLiteOrchestrator",
        broker_cls="SQLiteBroker",
        state_backend_cls="SQLiteStateBackend",
        trigger_cls="SQLiteTrigger",
        client_data_store_cls="SQLiteClientDataStore",
    ),
}


def make_app(backend: str, app_id: str = "vf", db: str | None = None, **conf):
    """New Pynenc app object on the chosen backend family (no multiton reuse)."""
    from pynenc.app import Pynenc

    cv = {"app_id": app_id, "logging_level": "critical", "log_use_colors": False}
    cv.update(_CLS[backend])
    if backend == SQLITE:
        cv["sqlite_db_path"] = db or fresh_db(app_id)
    cv.update(conf)
    Pynenc._instances.clear()
    app = Pynenc(config_values=cv)
    app.logger.setLevel(100)
    return app


def quiet_logging() -> None:
    import logging

    logging.disable(logging.CRITICAL)
