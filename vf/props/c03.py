"""C03 — no accepted invocation is lost when a process dies at any step.

E4: crash-point enumeration.  For every scenario (client routing single / batch calls, runner
claiming through the queue and through the blocking path, worker executing to success / failure /
retry, reroute on concurrency control, kill-and-reroute on stop, pending recovery, running
recovery) the victim's operation is first run fault-free while every backend effect it performs
is recorded; then it is re-run once per (effect index, before | after) with a hard crash injected
there (Crash(BaseException): the victim's stack unwinds, its app object is dropped).  Afterwards
the clock passes every recovery timeout, the real recovery task bodies run under a surviving
runner, which then drains the queue; this is repeated three times.
Oracle: every accepted invocation is final and its body completed at least once; additionally the
position of each accepted non-final invocation at the crash instant is classified (queued and
available / PENDING / RUNNING under an owner / transient status whose writer is dead).
"""

from __future__ import annotations

from typing import Any, Callable

from vf import dumps, env, par, tasks
from vf.report import Ctx, Partial
from vf.worlds import runner_ctx

FINAL = {"SUCCESS", "FAILED", "CONCURRENCY_CONTROLLED_FINAL"}
AVAILABLE = {"REGISTERED", "REROUTED", "RETRY"}


class Crash(BaseException):
    pass


# storage fault: while FAULT["on"], every statement / commit of every SQLite connection opened by pynenc fails with
# "database is locked" (a lock that outlives the busy timeout and pynenc's own retries)
FAULT = {"on": False, "hits": 0}


class _FaultConn:
    def __init__(self, c: Any) -> None:
        object.__setattr__(self, "_c", c)

    def _chk(self) -> None:
        if FAULT["on"]:
            import sqlite3

            FAULT["hits"] += 1
            raise sqlite3.OperationalError("database is locked")

    def execute(self, *a: Any) -> Any:
        self._chk()
        return self._c.execute(*a)

    def executemany(self, *a: Any) -> Any:
        self._chk()
        return self._c.executemany(*a)

    def commit(self) -> Any:
        self._chk()
        return self._c.commit()

    def __getattr__(self, n: str) -> Any:
        return getattr(self._c, n)

    def __setattr__(self, n: str, v: Any) -> None:
        setattr(self._c, n, v)

    def __enter__(self) -> Any:
        self._c.__enter__()
        return self

    def __exit__(self, *a: Any) -> Any:
        return self._c.__exit__(*a)


class _fault_seam:
    """wraps the raw connection inside pynenc's SQLiteConnection for the duration of one run."""

    def __enter__(self) -> None:
        from pynenc.util import sqlite_utils as su

        self.su = su
        self.orig = su.SQLiteConnection.__init__

        def init(obj: Any, conn: Any) -> None:
            self.orig(obj, _FaultConn(conn))

        su.SQLiteConnection.__init__ = init  # type: ignore[method-assign]
        FAULT["on"] = False
        FAULT["hits"] = 0

    def __exit__(self, *a: Any) -> None:
        self.su.SQLiteConnection.__init__ = self.orig  # type: ignore[method-assign]
        FAULT["on"] = False


class Effects:
    """Wraps the backend effects of one app object (= one process); counts them and can crash."""

    def __init__(self) -> None:
        self.trace: list[str] = []
        self.crash_at: tuple[int, str] | None = None
        self.active = False
        self.on_effect: Callable[[], None] | None = None
        self.raised: set[int] = set()

    def wrap(self, obj: Any, attr: str, name: Callable[..., str]) -> None:
        orig = getattr(obj, attr)
        fx = self

        def w(*a: Any, **k: Any) -> Any:
            if not fx.active:
                return orig(*a, **k)
            idx = len(fx.trace)
            nm = name(*a, **k)
            fx.trace.append(nm)
            if fx.crash_at == (idx, "before"):
                fx.active = False
                raise Crash(f"before #{idx} {nm}")
            if fx.crash_at == (idx, "locked"):
                FAULT["on"] = True
            try:
                r = orig(*a, **k)
            except Exception:
                FAULT["on"] = False
                fx.raised.add(idx)  # the effect was refused (e.g. a status change that is not allowed): nothing happened
                raise
            FAULT["on"] = False
            if fx.on_effect is not None:
                fx.on_effect()
            if fx.crash_at == (idx, "after"):
                fx.active = False
                raise Crash(f"after #{idx} {nm}")
            return r

        setattr(obj, attr, w)

    def attach(self, app: Any) -> None:
        o, b, s = app.orchestrator, app.broker, app.state_backend
        self.wrap(b, "route_invocation", lambda *a, **k: "queue-push")
        self.wrap(b, "retrieve_invocation", lambda *a, **k: "queue-pop")
        self.wrap(o, "_atomic_status_transition", lambda inv=None, status=None, rid=None, **k: f"status:{status.name}")
        self.wrap(o, "_register_new_invocations", lambda *a, **k: "register")
        self.wrap(o, "index_arguments_for_concurrency_control", lambda *a, **k: "args-index")
        self.wrap(o, "increment_invocation_retries", lambda *a, **k: "retries+1")
        self.wrap(o, "set_up_invocation_auto_purge", lambda *a, **k: "auto-purge-mark")
        self.wrap(o.blocking_control, "waiting_for_results", lambda *a, **k: "wait-graph-write")
        self.wrap(o.blocking_control, "release_waiters", lambda *a, **k: "wait-graph-release")
        self.wrap(s, "_upsert_invocations", lambda *a, **k: "upsert")
        self.wrap(s, "_set_result", lambda *a, **k: "result-write")
        self.wrap(s, "_set_exception", lambda *a, **k: "exception-write")
        self.wrap(s, "_add_histories", lambda *a, **k: "history")


class W:
    """client / victim / survivor processes on one backend."""

    def __init__(self, backend: str, mode: str = "DISABLED", reroute: bool = True, max_retries: int = 2,
                 runner_cls: str | None = None) -> None:
        from pynenc.conf.config_task import ConcurrencyControlType as CC

        env.reset_world()
        tasks.HOOKS.clear()
        self.backend = backend
        conf = dict(max_pending_seconds=5.0, runner_considered_dead_after_minutes=10.0, cached_status_time=0.0)
        if runner_cls:
            conf["runner_cls"] = runner_cls
        if backend == env.MEM:
            app = env.make_app(env.MEM, app_id="c03", **conf)
            self.client = self.victim = self.survivor = app
        else:
            db = env.reuse_db("c03")
            self.client = env.make_app(env.SQLITE, app_id="c03", db=db, **conf)
            self.victim = env.make_app(env.SQLITE, app_id="c03", db=db, **conf)
            self.survivor = env.make_app(env.SQLITE, app_id="c03", db=db, **conf)
        opts: dict = dict(max_retries=max_retries)
        if mode != "DISABLED":
            opts.update(running_concurrency=CC[mode], reroute_on_concurrency_control=reroute)
        self.t = {}
        self.t2 = {}
        for a in {id(x): x for x in (self.client, self.victim, self.survivor)}.values():
            self.t[id(a)] = (tasks.bind(a, tasks.scripted, **opts))
            self.t2[id(a)] = tasks.bind(a, tasks.add)  # a second, unrestricted task
        self.done: dict[str, int] = {}
        self.script: dict[str, list] = {}
        tasks.HOOKS["script"] = self._script
        self.fx = Effects()
        self.accepted: list[str] = []

    def task(self, app: Any) -> Any:
        return self.t[id(app)]

    def _script(self, name: str, x: int) -> Any:
        from pynenc import context

        plan = self.script.setdefault(name, [])
        step = plan.pop(0) if plan else "ok"
        if step == "retry":
            from pynenc.exceptions import RetryError

            raise RetryError(name)
        if step == "fail":
            raise ValueError(name)
        self.done[name] = self.done.get(name, 0) + 1
        return x

    # -- survivor -----------------------------------------------------------
    def recover_and_drain(self) -> None:
        from pynenc import context, core_tasks

        app = self.survivor
        ctx = runner_ctx("r2")
        for _ in range(3):
            env.CLOCK.advance(11 * 60.0)
            app.orchestrator.register_runner_heartbeats([ctx.runner_id])
            context.set_current_app(app)
            context.set_runner_context(app.app_id, ctx)
            for fn in (core_tasks.recover_pending_invocations, core_tasks.recover_running_invocations):
                try:
                    fn.func()
                except Exception:  # noqa: BLE001 - a failing recovery run is judged by the end state
                    pass
            for _i in range(12):
                try:
                    got = list(app.orchestrator.get_invocations_to_run(2, ctx))
                except Exception:  # noqa: BLE001
                    got = []
                if not got:
                    break
                for inv in got:
                    try:
                        inv.run(ctx)
                    except Exception:  # noqa: BLE001
                        pass

    def record(self, inv: str) -> tuple:
        r = self.survivor.orchestrator.get_invocation_status_record(inv)
        return (r.status.name, r.runner_id)

    def queue(self) -> list[str]:
        return list(dumps.queue(self.survivor, self.backend))


# ---------------------------------------------------------------------------
# scenarios: setup(w) -> victim operation (callable); names of the bodies that must complete
# ---------------------------------------------------------------------------
def _claim(w: W, app: Any, rid: str, n: int = 1) -> list:
    return list(app.orchestrator.get_invocations_to_run(n, runner_ctx(rid)))


def sc_client_single(w: W) -> Callable[[], None]:
    a = w.task(w.client)("a", 1)  # accepted before the victim acts
    w.accepted.append(str(a.invocation_id))

    def op() -> None:
        b = w.task(w.victim)("b", 2)  # the dying client's second call
        w.accepted.append(str(b.invocation_id))
    return op


def sc_client_batch(w: W) -> Callable[[], None]:
    a = w.task(w.client)("a", 1)
    w.accepted.append(str(a.invocation_id))

    def op() -> None:
        grp = w.task(w.victim).parallelize([("b", 2), ("c", 3)])
        w.accepted.extend(str(i.invocation_id) for i in grp.invocations)
    return op


def sc_claim_queue(w: W) -> Callable[[], None]:
    w.accepted.append(str(w.task(w.client)("a", 1).invocation_id))
    w.accepted.append(str(w.task(w.client)("b", 2).invocation_id))
    w.victim.orchestrator.register_runner_heartbeats(["r1"])
    return lambda: _claim(w, w.victim, "r1", 2)


def sc_claim_blocking(w: W) -> Callable[[], None]:
    from pynenc.invocation.status import InvocationStatus as S

    a = str(w.task(w.client)("a", 1).invocation_id)
    p = str(w.task(w.client)("p", 0).invocation_id)
    w.accepted += [a, p]
    o = w.client.orchestrator
    # p is running under r9 (alive elsewhere) and waits for a: a is a blocking invocation
    got = [i for i in _claim(w, w.client, "r9", 2)]
    for i in got:
        if str(i.invocation_id) == a:
            o.set_invocation_status(a, S.REROUTED, runner_ctx("r9"))
            w.client.broker.route_invocation(a)
    o.set_invocation_status(p, S.RUNNING, runner_ctx("r9"))
    o.waiting_for_results(p, [a])
    w.script["p"] = ["ok"]
    w.victim.orchestrator.register_runner_heartbeats(["r1"])
    return lambda: _claim(w, w.victim, "r1", 1)


def _held_by_victim(w: W, name: str, plan: list) -> Any:
    inv_id = str(w.task(w.client)(name, 1).invocation_id)
    w.accepted.append(inv_id)
    w.script[name] = list(plan)
    w.victim.orchestrator.register_runner_heartbeats(["r1"])
    got = _claim(w, w.victim, "r1", 1)
    assert [str(g.invocation_id) for g in got] == [inv_id]
    return got[0]


def sc_run_success(w: W) -> Callable[[], None]:
    inv = _held_by_victim(w, "a", ["ok"])
    return lambda: inv.run(runner_ctx("r1"))


def sc_run_success_no_heartbeat(w: W) -> Callable[[], None]:
    """the victim worker never sent a heartbeat (it died right after start-up)"""
    inv_id = str(w.task(w.client)("a", 1).invocation_id)
    w.accepted.append(inv_id)
    w.script["a"] = ["ok"]
    got = _claim(w, w.victim, "r1", 1)
    return lambda: got[0].run(runner_ctx("r1"))


def sc_run_failure(w: W) -> Callable[[], None]:
    inv = _held_by_victim(w, "a", ["fail"])

    def op() -> None:
        try:
            inv.run(runner_ctx("r1"))
        except ValueError:
            pass
    w.expect_failed = {"a"}
    return op


def sc_run_retry(w: W) -> Callable[[], None]:
    inv = _held_by_victim(w, "a", ["retry", "ok"])
    return lambda: inv.run(runner_ctx("r1"))


def sc_cc_reroute(w: W) -> Callable[[], None]:
    # a is RUNNING under r9; b (same key) is polled by the victim: CONCURRENCY_CONTROLLED -> REROUTED + push
    from pynenc.invocation.status import InvocationStatus as S

    a = str(w.task(w.client)("a", 1).invocation_id)
    got = _claim(w, w.client, "r9", 1)
    w.client.orchestrator.set_invocation_status(a, S.RUNNING, runner_ctx("r9"))
    w.client.orchestrator.register_runner_heartbeats(["r9"])
    b = str(w.task(w.client)("b", 2).invocation_id)
    w.accepted += [a, b]
    w.victim.orchestrator.register_runner_heartbeats(["r1"])
    return lambda: _claim(w, w.victim, "r1", 1)


def sc_kill_reroute(w: W) -> Callable[[], None]:
    from pynenc.invocation.status import InvocationStatus as S
    from pynenc.runner.thread_runner import ThreadRunner

    inv = _held_by_victim(w, "a", ["ok"])
    w.victim.orchestrator.set_invocation_status(inv.invocation_id, S.RUNNING, runner_ctx("r1"))
    keep = w.victim._runner_instance
    r = ThreadRunner(w.victim, runner_context=runner_ctx("r1"))
    w.victim._runner_instance = keep
    return lambda: r._kill_and_reroute(inv.invocation_id)


class _StopAfter:
    """stop_event stand-in of a worker loop: lets the loop run n iterations."""

    def __init__(self, n: int) -> None:
        self.n = n

    def is_set(self) -> bool:
        self.n -= 1
        return self.n < 0

    def set(self) -> None:
        self.n = 0


class _NoSignals:
    SIGTERM, SIG_IGN = 15, 1

    @staticmethod
    def signal(*a: Any) -> None:
        return None


def sc_ppr_worker_cc(w: W) -> Callable[[], None]:
    """The real worker main of the PersistentProcessRunner (its poll-and-run loop, two iterations) meets a
    concurrency-controlled invocation in front of a runnable one: a is RUNNING under r9 (alive), the queue holds
    b (same task: blocked, to be re-queued) and an invocation of another task."""
    import pynenc.runner.persistent_process_runner as ppr
    from pynenc.invocation.status import InvocationStatus as S

    a = str(w.task(w.client)("a", 1).invocation_id)
    _claim(w, w.client, "r9", 1)
    w.client.orchestrator.set_invocation_status(a, S.RUNNING, runner_ctx("r9"))
    w.client.orchestrator.register_runner_heartbeats(["r9"])
    b = str(w.task(w.client)("b", 2).invocation_id)
    w.t2[id(w.client)](3, 4)
    w.accepted += [a, b]
    victim = w.victim
    runner = victim.runner
    orig_kill = runner._kill_and_reroute

    def no_cleanup_after_death(*args: Any, **kw: Any) -> Any:
        if w.fx.crash_at is not None and not w.fx.active:
            raise Crash("the process is gone: its shutdown clean-up does not run")
        return orig_kill(*args, **kw)

    runner._kill_and_reroute = no_cleanup_after_death

    def op() -> None:
        keep = ppr.signal
        ppr.signal = _NoSignals  # no handler is installed in the exploring process
        try:
            ppr.persistent_process_main(victim, runner_cache={}, stop_event=_StopAfter(2),
                                        parent_runner_ctx_json=runner_ctx("r1-parent", "PersistentProcessRunner").to_json(),
                                        child_runner_id="r1")
        finally:
            ppr.signal = keep
    return op


class _InlineProcess:
    """Process stand-in for the ProcessRunner loop: start() executes the child's entry point inline."""

    def __init__(self, group: Any = None, target: Any = None, name: Any = None, args: tuple = (), kwargs: dict | None = None,
                 *, daemon: Any = None) -> None:
        self.target, self.args, self.kwargs = target, args, kwargs or {}
        self.pid: int | None = None
        self.exitcode: int | None = None

    def start(self) -> None:
        self.pid = 424242
        try:
            self.target(*self.args, **self.kwargs)
            self.exitcode = 0
        except Crash:
            raise
        except Exception:  # noqa: BLE001 - a failing body ends the child process, the parent only sees the exit
            self.exitcode = 1

    def is_alive(self) -> bool:
        return False

    def join(self, timeout: Any = None) -> None:
        return None

    def close(self) -> None:
        return None

    kill = terminate = close


class _PlainManager:
    def dict(self) -> dict:
        return {}

    def shutdown(self) -> None:
        return None


def sc_process_runner_cc(w: W) -> Callable[[], None]:
    """Two real loop iterations of the ProcessRunner (one slot) over the same queue as 'ppr-worker-cc'; the
    operating-system process is a stand-in that runs the child's entry point inline."""
    import pynenc.runner.process_runner as pr
    from pynenc.invocation.status import InvocationStatus as S

    a = str(w.task(w.client)("a", 1).invocation_id)
    _claim(w, w.client, "r9", 1)
    w.client.orchestrator.set_invocation_status(a, S.RUNNING, runner_ctx("r9"))
    w.client.orchestrator.register_runner_heartbeats(["r9"])
    b = str(w.task(w.client)("b", 2).invocation_id)
    w.t2[id(w.client)](3, 4)
    w.accepted += [a, b]
    victim = w.victim

    def op() -> None:
        from pynenc import context

        keep = (pr.Process, pr.Manager, pr.cpu_count)
        pr.Process, pr.Manager, pr.cpu_count = _InlineProcess, _PlainManager, (lambda: 1)
        try:
            runner = victim.runner
            context.set_current_runner(victim.app_id, runner)
            runner._on_start()
            for _ in range(2):
                runner.runner_loop_iteration()
        finally:
            pr.Process, pr.Manager, pr.cpu_count = keep
    return op


def _recovery(w: W, which: str) -> Callable[[], None]:
    from pynenc import context, core_tasks
    from pynenc.invocation.status import InvocationStatus as S

    for nm in ("a", "b"):
        i = str(w.task(w.client)(nm, 1).invocation_id)
        w.accepted.append(i)
    got = _claim(w, w.client, "r9", 2)
    if which == "running":
        for g in got:
            w.client.orchestrator.set_invocation_status(g.invocation_id, S.RUNNING, runner_ctx("r9"))
    env.CLOCK.advance(11 * 60.0)
    w.victim.orchestrator.register_runner_heartbeats(["r1"])

    def op() -> None:
        context.set_current_app(w.victim)
        context.set_runner_context(w.victim.app_id, runner_ctx("r1"))
        fn = core_tasks.recover_pending_invocations if which == "pending" else core_tasks.recover_running_invocations
        fn.func()
    return op


SCENARIOS: dict[str, tuple] = {
    "client-single": (sc_client_single, {}),
    "client-batch": (sc_client_batch, {}),
    "claim-queue": (sc_claim_queue, {}),
    "claim-blocking": (sc_claim_blocking, {}),
    "run-success": (sc_run_success, {}),
    "run-success-no-heartbeat": (sc_run_success_no_heartbeat, {}),
    "run-failure": (sc_run_failure, {}),
    "run-retry": (sc_run_retry, {}),
    "cc-reroute": (sc_cc_reroute, dict(mode="TASK", reroute=True)),
    "kill-reroute": (sc_kill_reroute, {}),
    "ppr-worker-cc": (sc_ppr_worker_cc, dict(mode="TASK", reroute=True, runner_cls="PersistentProcessRunner")),
    "process-runner-cc": (sc_process_runner_cc, dict(mode="TASK", reroute=True, runner_cls="ProcessRunner")),
    "recover-pending": (lambda w: _recovery(w, "pending"), {}),
    "recover-running": (lambda w: _recovery(w, "running"), {}),
}


def one_run(scn: str, backend: str, crash: tuple[int, str] | None) -> dict:
    setup, kw = SCENARIOS[scn]
    w = W(backend, **kw)
    w.expect_failed = set()
    w.fx.attach(w.victim)
    op = setup(w)
    accepted_before = list(w.accepted)
    w.fx.crash_at = crash
    w.fx.active = True
    crashed = None
    errored = None
    seam = _fault_seam() if crash and crash[1] == "locked" else None
    if seam:
        seam.__enter__()
    try:
        op()
    except Crash as c:
        crashed = str(c)
        w.accepted = accepted_before  # the dying call never returned: only earlier calls are accepted
    except Exception as e:  # noqa: BLE001
        if not seam:
            raise
        errored = f"{type(e).__name__}: {e}"
        w.accepted = accepted_before  # the call raised: it was refused, only earlier calls are accepted
    finally:
        w.fx.active = False
        if seam:
            seam.__exit__()
    trace = list(w.fx.trace)
    at_crash = {i: (w.record(i), i in w.queue()) for i in w.accepted}
    w.recover_and_drain()
    end = {i: w.record(i) for i in w.accepted}
    names = {}
    for i in w.accepted:
        inv = w.survivor.state_backend.get_invocation(i)
        names[i] = inv.arguments.kwargs["name"]
    return dict(trace=trace, crashed=crashed, errored=errored, fault_hits=FAULT["hits"] if seam else 0, at_crash=at_crash, end=end, done=dict(w.done), names=names, refused=set(w.fx.raised),
                expect_failed=w.expect_failed, accepted=list(w.accepted))


def judge(p: Partial, scn: str, backend: str, crash: tuple | None, res: dict) -> None:
    trace = res["trace"]
    for i in res["accepted"]:
        st, owner = res["end"][i]
        name = res["names"][i]
        completed = res["done"].get(name, 0) >= 1 or name in res["expect_failed"]
        if st in FINAL and completed:
            continue
        if st in FINAL and crash and crash[1] == "locked":
            continue  # the storage error became the invocation's (final, reported) failure: not stranded
        (cst, cowner), queued = res["at_crash"][i]
        if cst in AVAILABLE:
            pos = "available-and-queued" if queued else "available-but-not-queued"
        elif cst in ("PENDING", "RUNNING", "PAUSED", "RESUMED"):
            pos = f"{cst}-under-{'dead' if cowner == 'r1' else 'other'}-runner"
        else:
            pos = f"transient-{cst}"
        # the crash window in terms of lifecycle-relevant effects (queue and status writes); bookkeeping
        # effects in between (history, retry counter, wait graph, result write ...) do not change where the
        # invocation is stranded, so they are not part of the identity of the finding
        full = _full(scn, backend)
        if crash is None:
            done_n = len(full)
        else:
            done_n = crash[0] + (1 if crash[1] == "after" else 0)
        rel = lambda e: e.startswith(("queue-", "status:", "register"))  # noqa: E731
        before = [e for e in full[:done_n] if rel(e)]
        after = [e for e in full[done_n:] if rel(e)]
        last = before[-1] if before else "begin"
        nxt = after[0] if after else "end"
        p.violation({"clause": "accepted-invocation-not-completed-after-storage-error" if crash and crash[1] == "locked" else
                     "accepted-invocation-not-completed-after-crash-and-recovery" if crash else
                     "accepted-invocation-not-completed-without-any-crash",
                     "scenario": scn, "position_at_crash": pos,
                     "last_effect": last, "next_effect": nxt, "end_status": st},
                    {"crash": crash, "backend": backend, "id": i[-2:], "at_crash": res["at_crash"][i], "end": res["end"][i],
                     "body_completions": res["done"], "effects": trace},
                    {"scenario": scn, "backend": backend, "crash": list(crash) if crash else None})


_FULL: dict = {}


def _full(scn: str, backend: str) -> list[str]:
    key = (scn, backend)
    if key not in _FULL:
        _FULL[key] = one_run(scn, backend, None)["trace"]
    return _FULL[key]


def _unit(item: tuple) -> Partial:
    scn, backend = item
    p = Partial()
    ref = one_run(scn, backend, None)
    _FULL[(scn, backend)] = ref["trace"]
    p.count("transitions", len(ref["trace"]))
    p.count("fault_free_runs")
    judge(p, scn, backend, None, ref)
    ref2 = one_run(scn, backend, None)
    if ref2["trace"] != ref["trace"] or ref2["end"] != ref["end"]:
        raise RuntimeError(f"fault-free run not reproducible: {scn}/{backend}")
    p.count("traces_validated_against_impl")
    n = len(ref["trace"])
    stranded_if_dead_before: set[int] = set()
    for k in range(n):
        for when in ("before", "after"):
            if when == "after" and k in ref["refused"]:
                continue  # a refused effect has no "after": the call raised instead of returning
            res = one_run(scn, backend, (k, when))
            if res["crashed"] is None or res["trace"][: k + 1] != ref["trace"][: k + 1]:
                raise RuntimeError(f"crash run diverged from the fault-free effect trace: {scn}/{backend} {k} {when}")
            p.count("crash_points")
            p.count("transitions", len(res["trace"]))
            p.count("traces_validated_against_impl")
            p.add("states", (scn, backend, k, when, tuple(sorted(res["end"].values()))))
            p.add("distinct_outcomes", (scn, tuple(sorted(v[0] for v in res["end"].values()))))
            nv = len(p.violations)
            judge(p, scn, backend, (k, when), res)
            if when == "before" and len(p.violations) > nv:
                stranded_if_dead_before.add(k)
    if backend == env.SQLITE:
        # storage-error points: effect k finds the database locked for good (every statement and commit of that
        # effect fails); the victim is NOT killed: whatever its code does with the error is the behaviour judged
        for k in range(n):
            res = one_run(scn, backend, (k, "locked"))
            if res["trace"][: k + 1] != ref["trace"][: k + 1]:
                raise RuntimeError(f"storage-error run diverged from the fault-free effect trace: {scn}/{backend} {k}")
            if not res["fault_hits"]:
                p.count("storage_error_points_without_sql")
                continue
            p.count("storage_error_points")
            if k in stranded_if_dead_before:
                # a process that dies right before effect k already strands the invocation (reported / recorded by the
                # crash point (k, before)); an error at k leaves it there as well: same window, not judged twice
                p.count("storage_error_points_inside_a_reported_crash_window")
                continue
            p.count("storage_error_propagated_to_caller" if res["errored"] else "storage_error_absorbed")
            p.count("transitions", len(res["trace"]))
            p.count("traces_validated_against_impl")
            p.add("states", (scn, backend, k, "locked", tuple(sorted(res["end"].values()))))
            judge(p, scn, backend, (k, "locked"), res)
    p.sample({"scenario": scn, "backend": backend, "effects_of_the_victim": ref["trace"]}, limit=12)
    return p


# ---------------------------------------------------------------------------
# thorough: the survivors are two concurrent runners (one also executes the recovery bodies),
# explored under the controlled scheduler with <= 1 deviation, for every crash point
# ---------------------------------------------------------------------------
class Scn:
    points = None  # sync-operation and SQL-statement points; memory: line points below

    def __init__(self, desc: dict) -> None:
        from vf import worlds

        self.desc = desc
        if desc["backend"] == env.MEM:
            self.points = (worlds.MEM_FILES, "line")

    def execute(self, choices: list, expect: Any) -> Any:
        from pynenc import context, core_tasks

        from vf import sched

        d = self.desc
        setup, kw = SCENARIOS[d["scenario"]]
        w = W(d["backend"], **kw)
        w.expect_failed = set()
        w.fx.attach(w.victim)
        op = setup(w)
        accepted_before = list(w.accepted)
        w.fx.crash_at = tuple(d["crash"]) if d["crash"] else None
        w.fx.active = True
        try:
            op()
        except Crash:
            w.accepted = accepted_before
        finally:
            w.fx.active = False
        if d["backend"] == env.SQLITE:
            second = env.make_app(env.SQLITE, app_id="c03", db=w.survivor.conf.sqlite_db_path
                                  if hasattr(w.survivor.conf, "sqlite_db_path") else w.survivor.orchestrator.sqlite_db_path,
                                  max_pending_seconds=5.0, runner_considered_dead_after_minutes=10.0, cached_status_time=0.0)
            w.t[id(second)] = tasks.bind(second, tasks.scripted, **_opts(kw))
            w.t2[id(second)] = tasks.bind(second, tasks.add)
        else:
            second = w.survivor
        apps = [w.survivor, second]

        def survivor(j: int) -> Any:
            def f() -> None:
                app = apps[j]
                ctx = runner_ctx(f"r{2 + j}")
                for _round in range(3):
                    if j == 0:
                        env.CLOCK.advance(11 * 60.0)
                        app.orchestrator.register_runner_heartbeats([ctx.runner_id])
                        context.set_current_app(app)
                        context.set_runner_context(app.app_id, ctx)
                        for fn in (core_tasks.recover_pending_invocations, core_tasks.recover_running_invocations):
                            try:
                                fn.func()
                            except sched.Abort:
                                raise
                            except Exception:  # noqa: BLE001
                                pass
                    else:
                        app.orchestrator.register_runner_heartbeats([ctx.runner_id])
                    for _i in range(6):
                        try:
                            got = list(app.orchestrator.get_invocations_to_run(2, ctx))
                        except sched.Abort:
                            raise
                        except Exception:  # noqa: BLE001
                            got = []
                        if not got:
                            break
                        for inv in got:
                            try:
                                inv.run(ctx)
                            except sched.Abort:
                                raise
                            except Exception:  # noqa: BLE001
                                pass
                    sched.point("round-end")
            return f

        s = sched.Scheduler(choices, expect, max_points=20000, lazy=("_add_histories",))
        ex = s.run([("survivor-a", survivor(0)), ("survivor-b", survivor(1))])
        ex.w = w
        ex.end = {i: w.record(i) for i in w.accepted}
        ex.names = {i: w.survivor.state_backend.get_invocation(i).arguments.kwargs["name"] for i in w.accepted}
        return ex

    def digest(self, ex: Any) -> Any:
        return (tuple(sorted(v[0] for v in ex.end.values())), tuple(sorted(ex.w.done.items())), ex.outcome)

    def check(self, ex: Any, p: Partial) -> None:
        d = self.desc
        if ex.outcome != "done":
            p.violation({"clause": f"survivors-do-not-finish:{ex.outcome}", "scenario": d["scenario"], "backend": d["backend"]}, {}, {})
            return
        if d.get("known_sequentially"):
            return  # this crash point strands the invocation whatever the survivors do (recorded finding)
        for i in ex.w.accepted:
            st, _owner = ex.end[i]
            name = ex.names[i]
            if st in FINAL and (ex.w.done.get(name, 0) >= 1 or name in ex.w.expect_failed):
                continue
            p.violation({"clause": "accepted-invocation-not-completed-under-concurrent-survivors", "scenario": d["scenario"],
                         "backend": d["backend"], "end_status": st}, {"crash": d["crash"], "done": dict(ex.w.done)}, {})
            return


def _opts(kw: dict) -> dict:
    from pynenc.conf.config_task import ConcurrencyControlType as CC

    opts: dict = dict(max_retries=kw.get("max_retries", 2))
    if kw.get("mode", "DISABLED") != "DISABLED":
        opts.update(running_concurrency=CC[kw["mode"]], reroute_on_concurrency_control=kw.get("reroute", True))
    return opts


def build(desc: dict) -> Scn:
    return Scn(desc)


def run(ctx: Ctx) -> None:
    only = getattr(ctx, "only", None)
    items = [(s, b) for s in SCENARIOS for b in env.BACKENDS if not only or only in f"{s}/{b}"]
    rot = ctx.seed % len(items)
    for part in par.pmap(_unit, items[rot:] + items[:rot]):
        ctx.merge(part)
    if ctx.thorough:
        from vf import e1

        descs = []
        for (scn, backend) in items:
            full = one_run(scn, backend, None)["trace"]
            for k in range(len(full)):
                for when in ("before", "after"):
                    q = Partial()
                    judge(q, scn, backend, (k, when), one_run(scn, backend, (k, when)))
                    descs.append(dict(scenario=scn, backend=backend, crash=[k, when], bound=1,
                                      known_sequentially=bool(q.violations)))
        descs = [d for d in descs if not d["known_sequentially"]]
        ctx.extra["crash_points_explored_with_concurrent_survivors"] = len(descs)
        e1.explore_all(ctx, "vf.props.c03", descs, lambda d: d["bound"], replay_every=300)
    ctx.rule = (f"{len(SCENARIOS)} scenarios x 2 backends: the victim's operation is recorded effect by effect "
                "(queue push/pop, status write, register, argument index, retry count, wait-graph write/release, result / "
                "exception write, history, upsert), then re-run with a hard crash before and after every effect; "
                "3 rounds of (clock + 11 min, real recover_pending / recover_running bodies, drain by a surviving runner); "
                "every accepted invocation must be final with >= 1 completed body; SQLite: additionally every effect in turn "
                "finds the database locked for good (all its statements and commits raise 'database is locked', the process "
                "lives on): an invocation accepted by a call that returned must still complete, unless a death right before that "
                "effect already strands it (same window as the crash point) or the error became its final failure; thorough: for every crash point that is "
                "not a recorded stranding window, the recovery + drain phase is two concurrent surviving runners explored under "
                "the controlled scheduler with <= 1 deviation")
    ctx.assume("a crash is modelled at backend-effect granularity; SQLite's own atomicity inside one effect is trusted")
    ctx.assume("in the in-memory family the 'process' that dies is a worker thread of the single process (shared state survives)")
    ctx.assume("surviving runners are sequential here (their interleavings are explored in C02/C04/C06)")
    ctx.assume("real OS signals / real process death are not produced; the victim's stack unwinds with a BaseException")


def replay(payload: dict) -> bool:
    r = payload["replay"]
    if r.get("kind") == "schedule":
        from vf import e1

        return e1.replay_schedule(r)
    p = Partial()
    crash = tuple(r["crash"]) if r.get("crash") else None
    _full(r["scenario"], r["backend"])
    res = one_run(r["scenario"], r["backend"], crash)
    judge(p, r["scenario"], r["backend"], crash, res)
    return bool(p.violations)
