"""C07 — registration concurrency collapses duplicate submissions onto one invocation.

E2: for every registration mode x key-argument choice x raise option, BFS over histories of
submissions f(a in {0,1}, b in {0,1}) (positional / keyword spelling) interleaved with claims
and completions, on both backends, against a reference dict  key -> REGISTERED invocation.
"""

from __future__ import annotations

from typing import Any

from vf import bfs, dumps, env, par, tasks
from vf.report import Ctx, Partial

SUBMITS = [(0, 0, "pos"), (0, 0, "kw"), (0, 1, "pos"), (1, 0, "kw"), (1, 1, "pos")]
ALPHABET = [("submit", *s) for s in SUBMITS] + [("claim",), ("finish",), ("requeue",)]

CONFIGS = [
    dict(mode="DISABLED", keys=(), raise_=False),
    dict(mode="TASK", keys=(), raise_=False),
    dict(mode="ARGUMENTS", keys=(), raise_=False),
    dict(mode="KEYS", keys=("a",), raise_=False),
    dict(mode="KEYS", keys=("a",), raise_=True),
    dict(mode="KEYS", keys=("a", "b"), raise_=True),
    dict(mode="KEYS", keys=("b",), raise_=False),
    dict(mode="KEYS", keys=(), raise_=False),
    # every argument value externalised (min_size_to_cache=1): the stored arguments and the argument index hold
    # data-store references, a look-up built from fresh client-side arguments must still find them
    dict(mode="ARGUMENTS", keys=(), raise_=False, min_size=1),
    dict(mode="KEYS", keys=("a",), raise_=True, min_size=1),
    dict(mode="KEYS", keys=("a", "b"), raise_=False, min_size=1),
]


def key_of(cfg: dict, a: int, b: int) -> Any:
    m = cfg["mode"]
    if m == "TASK":
        return ()
    if m == "ARGUMENTS":
        return (a, b)
    if m == "KEYS":
        return tuple({"a": a, "b": b}[k] for k in cfg["keys"])
    return None


class Impl(bfs.System):
    def __init__(self, backend: str, cfg: dict) -> None:
        self.backend = backend
        self.name = backend
        self.cfg = cfg

    def reset(self) -> None:
        from pynenc.conf.config_task import ConcurrencyControlType as CC

        env.reset_world()
        conf = {"min_size_to_cache": self.cfg["min_size"]} if self.cfg.get("min_size") else {}
        if self.backend == env.MEM:
            self.app = env.make_app(env.MEM, app_id="c07", **conf)
        else:
            self.app = env.make_app(env.SQLITE, app_id="c07", db=env.reuse_db("c07"), **conf)
        opts: dict = dict(registration_concurrency=CC[self.cfg["mode"]])
        if self.cfg["mode"] == "KEYS":
            opts["key_arguments"] = tuple(self.cfg["keys"])
        if self.cfg["raise_"]:
            opts["on_diff_non_key_args_raise"] = True
        self.task = tasks.bind(self.app, tasks.keyed, **opts)
        self.ren = dumps.Renamer()
        self.claimed: list = []
        from pynenc.runner.runner_context import RunnerContext

        self.ctx = RunnerContext("VfRunner", "r1")

    def apply(self, op: tuple) -> Any:
        from pynenc.invocation.dist_invocation import ReusedInvocation

        if op[0] == "submit":
            _, a, b, sp = op
            try:
                inv = self.task(a, b) if sp == "pos" else self.task(b=b, a=a)
            except Exception as e:  # noqa: BLE001
                return ("raise", type(e).__name__)
            new = str(inv.invocation_id) not in self.ren.ids
            idx = self.ren.see(inv.invocation_id)
            reused = isinstance(inv, ReusedInvocation)
            return ("reused" if reused else "new", idx, new)
        if op[0] == "claim":
            try:
                got = list(self.app.orchestrator.get_invocations_to_run(1, self.ctx))
            except Exception as e:  # noqa: BLE001
                return ("raise", type(e).__name__)
            self.claimed.extend(got)
            return ("claimed", tuple(self.ren(i.invocation_id) for i in got))
        if op[0] == "requeue":
            # the runner gives the oldest invocation it holds back (reroute): available again, but no longer REGISTERED
            if not self.claimed:
                return ("requeued", None)
            inv = self.claimed.pop(0)
            try:
                self.app.orchestrator.reroute_invocations({inv.invocation_id}, self.ctx)
            except Exception as e:  # noqa: BLE001
                return ("raise", type(e).__name__)
            return ("requeued", self.ren(inv.invocation_id))
        if op[0] == "finish":
            if not self.claimed:
                return ("finished", None)
            inv = self.claimed.pop(0)
            try:
                inv.run(self.ctx)
            except Exception as e:  # noqa: BLE001
                return ("raise", type(e).__name__)
            return ("finished", self.ren(inv.invocation_id))
        raise ValueError(op)

    def dump(self) -> Any:
        self.app.state_backend.wait_for_all_async_operations()
        o = dumps.orchestrator(self.app, self.backend, self.ren)
        return (o[0], o[1], dumps.queue(self.app, self.backend, self.ren))

    def readout(self) -> Any:
        from pynenc.invocation.status import InvocationStatus as S

        orch = self.app.orchestrator
        out = [("queue_len", self.app.broker.count_invocations()),
               ("total", orch.count_invocations()),
               ("registered", orch.count_invocations(statuses=[S.REGISTERED])),
               ("by_status", tuple(sorted((self.ren(i), orch.get_invocation_status(i).name) for i in self.ren.ids)))]
        hist = tuple(len(self.app.state_backend.get_history(i)) for i in self.ren.ids)
        out.append(("history_lengths", hist))
        return tuple(out)

    def registered_per_key(self) -> dict:
        orch = self.app.orchestrator
        per: dict = {}
        for i in self.ren.ids:
            if orch.get_invocation_status(i).name == "REGISTERED":
                inv = self.app.state_backend.get_invocation(i)
                kw = inv.arguments.kwargs
                per.setdefault(key_of(self.cfg, kw["a"], kw["b"]), []).append(self.ren(i))
        return per


class Model(bfs.System):
    name = "model"

    def __init__(self, cfg: dict) -> None:
        self.cfg = cfg

    def reset(self) -> None:
        self.inv: list = []  # [args(a,b), status, nhist]
        self.q: list = []
        self.claimed: list = []

    def apply(self, op: tuple) -> Any:
        cfg = self.cfg
        if op[0] == "submit":
            _, a, b, _sp = op
            if cfg["mode"] != "DISABLED":
                k = key_of(cfg, a, b)
                for idx, (args, st, _) in enumerate(self.inv):
                    if st == "REGISTERED" and key_of(cfg, *args) == k:
                        if args == (a, b):
                            return ("reused", idx, False)
                        if cfg["raise_"]:
                            return ("raise", "InvocationConcurrencyWithDifferentArgumentsError")
                        return ("reused", idx, False)
            self.inv.append([(a, b), "REGISTERED", 1])
            self.q.append(len(self.inv) - 1)
            return ("new", len(self.inv) - 1, True)
        if op[0] == "claim":
            got = []
            while self.q and not got:
                i = self.q.pop(0)
                if self.inv[i][1] in ("REGISTERED", "REROUTED"):
                    self.inv[i][1] = "PENDING"
                    self.inv[i][2] += 1
                    got.append(i)
            self.claimed.extend(got)
            return ("claimed", tuple(got))
        if op[0] == "requeue":
            if not self.claimed:
                return ("requeued", None)
            i = self.claimed.pop(0)
            self.inv[i][1] = "REROUTED"
            self.inv[i][2] += 1
            self.q.append(i)
            return ("requeued", i)
        if op[0] == "finish":
            if not self.claimed:
                return ("finished", None)
            i = self.claimed.pop(0)
            self.inv[i][1] = "SUCCESS"
            self.inv[i][2] += 2
            return ("finished", i)
        raise ValueError(op)

    def dump(self) -> Any:
        return (tuple((a, s) for a, s, _ in self.inv), tuple(self.q))

    def readout(self) -> Any:
        return (("queue_len", len(self.q)), ("total", len(self.inv)),
                ("registered", sum(1 for x in self.inv if x[1] == "REGISTERED")),
                ("by_status", tuple(sorted((i, x[1]) for i, x in enumerate(self.inv)))),
                ("history_lengths", tuple(x[2] for x in self.inv)))


def _tag(cfg: dict) -> str:
    return (f"{cfg['mode']}/{','.join(cfg['keys'])}/{'raise' if cfg['raise_'] else 'reuse'}"
            + ("/externalised" if cfg.get("min_size") else ""))


def _unit(item: tuple) -> Partial:
    ci, depth, first = item
    cfg = CONFIGS[ci]
    p = Partial()
    impls = [Impl(env.MEM, cfg), Impl(env.SQLITE, cfg)]
    model = Model(cfg)

    def inv(s: bfs.System, hist: list) -> str | None:
        if cfg["mode"] == "DISABLED":
            return None
        for k, ids in s.registered_per_key().items():  # type: ignore[attr-defined]
            if len(ids) > 1:
                return "two-registered-invocations-for-one-key"
        return None

    tag = _tag(cfg)
    if first is None:
        # the first level (every single operation from the empty system) is judged here ...
        st = bfs.explore(p, impls, model, lambda h: ALPHABET, 1, tag=tag, invariant=inv)
    else:
        # ... and the sub-tree below each first operation in its own unit (states reached through different first
        # operations are not merged across units: more work, same coverage)
        st = bfs.explore(p, impls, model, lambda h: ALPHABET, depth - 1, tag=tag, invariant=inv, init_history=[first])
    p.count("bfs_states", st["states"])
    p.max("depth_completed", st["depth"])
    p.count("traces_validated_against_impl", st["transitions"])
    return p


# ---------------------------------------------------------------------------
# submissions from separately started client processes (SQLite): whatever the lookup derives from a value must not
# depend on per-process state such as the string hash salt
# ---------------------------------------------------------------------------
_CHILD = r"""
import json, sys
sys.path.insert(0, sys.argv[1])
from vf import env, tasks
from pynenc.conf.config_task import ConcurrencyControlType as CC
mode, db = sys.argv[2], sys.argv[3]
app = env.make_app(env.SQLITE, app_id="c07x", db=db)
opts = dict(registration_concurrency=CC[mode])
if mode == "KEYS":
    opts["key_arguments"] = ("a",)
t = tasks.bind(app, tasks.keyed, **opts)
out = [str(t(1, 2).invocation_id), str(t(a=1, b=2).invocation_id), str(t(3, 2).invocation_id)]
print("IDS " + json.dumps(out))
"""


def _xproc_unit(mode: str) -> Partial:
    import json
    import os
    import subprocess
    import sys

    p = Partial()
    db = env.fresh_db(f"c07x{mode}")
    root = os.path.dirname(os.path.dirname(os.path.dirname(os.path.abspath(__file__))))
    seen: list[list[str]] = []
    for seed in ("1", "2", "3"):
        envv = dict(os.environ, PYTHONHASHSEED=seed)
        r = subprocess.run([sys.executable, "-c", _CHILD, root, mode, db], env=envv, capture_output=True, text=True, timeout=120)
        line = next((ln for ln in r.stdout.splitlines() if ln.startswith("IDS ")), None)
        if line is None:
            raise RuntimeError(f"client process failed: {r.stderr[-400:]}")
        seen.append(json.loads(line[4:]))
        p.count("client_processes")
        p.count("transitions", 3)
    first = seen[0]
    cfg = {"mode": mode, "clients": "separately started processes, PYTHONHASHSEED 1, 2, 3"}
    if first[0] != first[1] or first[0] == first[2]:
        p.violation({"clause": "xproc:one-client-duplicates-not-collapsed", "mode": mode}, {**cfg, "ids": seen}, {"kind": "xproc", "mode": mode})
    elif any(ids != first for ids in seen[1:]):
        p.violation({"clause": "xproc:duplicate-from-another-process-not-collapsed", "mode": mode}, {**cfg, "ids": seen},
                    {"kind": "xproc", "mode": mode})
    return p


def run(ctx: Ctx) -> None:
    depth = 7 if ctx.thorough else 5
    items = [(i, depth, f) for i in range(len(CONFIGS)) for f in [None, *ALPHABET]]
    rot = ctx.seed % len(items)
    for part in par.pmap(_unit, items[rot:] + items[:rot]):
        ctx.merge(part)
    for part in par.pmap(_xproc_unit, ["ARGUMENTS", "KEYS"]):
        ctx.merge(part)
    ctx.rule = (f"per configuration (mode x key arguments x raise option, {len(CONFIGS)} of them): BFS to depth {depth} over "
                "5 submissions (argument values with repeats, positional and keyword spelling), claim, finish on the "
                "in-memory and SQLite stacks against a reference dict; returned identity (new/reused/raised), counts, queue "
                "length, statuses and history lengths compared after every step; invariant <= 1 REGISTERED per key; plus (SQLite) the same three "
                "submissions from three separately started client processes with string hash salts 1, 2, 3: every process gets the ids the first one got")
    ctx.assume("the raise option is only combined with KEYS (the statement does not define it for TASK / ARGUMENTS)")
    ctx.assume("submissions are sequential (the statement speaks of sequential submissions); concurrency is C06/C02 territory")


def replay(payload: dict) -> bool:
    r = payload["replay"]
    if r.get("kind") == "xproc":
        return bool(_xproc_unit(r["mode"]).violations)
    tag = r["config"]
    cfg = next(c for c in CONFIGS if _tag(c) == tag)
    impls = [Impl(env.MEM, cfg), Impl(env.SQLITE, cfg)]
    model = Model(cfg)
    for s in impls + [model]:
        s.reset()
    bad = False
    for op in r["history"]:
        op = tuple(op)
        res = [s.apply(op) for s in impls + [model]]
        outs = [s.readout() for s in impls + [model]]
        if any(x != res[-1] for x in res) or any(o != outs[-1] for o in outs):
            bad = True
        for s in impls:
            if cfg["mode"] != "DISABLED" and any(len(v) > 1 for v in s.registered_per_key().values()):
                bad = True
    return bad
