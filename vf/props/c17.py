"""C17 — applications with different ids are fully isolated, for any id string.

E3 (exhaustive enumeration of an explicit finite id set) + a fixed operation alphabet.

Ids: an adversarial generator (punctuation / case / leading-digit / unicode / very long / very
short / empty-like / SQL-metacharacter / LIKE-wildcard variants of a base word) plus *constructed*
ids that look like another id's storage prefix (the real `sanitize_table_prefix` is called only to
construct those strings, never as an oracle) plus one pair of punctuation variants whose
sha256 digests agree in the first 8 hex digits (found by a deterministic search at start-up).

For every ordered pair (A, B) of different ids, on every backend family, one fresh world:
  two app objects in one process (SQLite: on one fresh database file); both apps are populated through
  the public API, step by step and interleaved (event + status + cron triggers; five routed calls, one
  with an argument that goes to the client data store, one under registration concurrency control;
  heartbeat; three claimed through get_invocations_to_run and set RUNNING; one result, one stored
  exception; a blocking edge; a data-store value, workflow data / run / sub-invocation; an emitted
  event, run/execution claims, a cron execution; history flushed).
  Then a full read-out of B (public queries of every component; non-destructive queue peek; for SQLite
  the names and a raw dump of every table that B's creation added to sqlite_master), then every
  operation of the alphabet on A (auto purge, routes, retrieve, claim, status, result, exception, retry,
  heartbeat, event, trigger loop, workflow data, data store, claims, recovery scans, re-registration
  of triggers, purge of each component, purge of the app, re-population), and after each operation the
  read-out of B again.
Thorough tier: a larger id set; every ordered pair of a 12-id core again with the purges before the
writes; every unordered triple of that core (each of the three ids acting in turn, the other two
observed).

Oracle (the property itself):
  * B's read-out is identical before and after every operation on A;
  * the sqlite_master names added by creating B are as many as those added by creating A (none is
    shared), and every name matches ^[A-Za-z0-9_]+$;
  * no public operation (creation of the app and of all its components included) raises.
"""

from __future__ import annotations

import hashlib
import itertools
import re
import sqlite3
from datetime import UTC, datetime
from typing import Any, Callable

from vf import env, par, tasks, tasks_c17
from vf.report import Ctx, Partial, canon, digest



# ---------------------------------------------------------------------------
# environment: one thread, pooled connections
# ---------------------------------------------------------------------------
def _setup() -> None:
    """Idempotent (vf.main already does it).  e1.prepare installs (a) the threading stand-in whose threads
    run inline outside a scheduler: the history writers of the state backend (one thread per record) become
    synchronous, so a world is a single-threaded execution; (b) the connection pool of vf.sqlproxy: pynenc
    opens a new connection (5 PRAGMAs) per statement group, the pool (same file -> same connections,
    PRAGMAs once, repeated CREATE IF NOT EXISTS skipped) makes a world ~6x cheaper; its zero busy-timeout
    is harmless in a single-threaded world."""
    from vf import e1

    e1.prepare()


NAME_RE = re.compile(r"^[A-Za-z0-9_]+$")
COMPONENTS = ("broker", "orchestrator", "state_backend", "trg", "client")  # only to construct ids
BIG = "v" * 1500  # above min_size_to_cache (1024): goes to the client data store


# ---------------------------------------------------------------------------
# id generator
# ---------------------------------------------------------------------------
class Id:
    __slots__ = ("text", "kind", "bases")

    def __init__(self, text: str, kind: str, bases: Any = ()) -> None:
        self.text = text
        self.kind = kind  # class label (used in signatures)
        # the ids this one was constructed from (it looks like a storage prefix of each of them)
        self.bases = tuple(bases) if not isinstance(bases, str) else (bases,)

    def short(self) -> str:
        t = self.text
        return t if len(t) <= 48 else f"{t[:20]}...({len(t)} chars)...{t[-8:]}"


def _hash32_collision() -> tuple[str, str]:
    """First two ids 'app'+punctuation (same length => same sanitised form whatever the
    replacement character) with equal sha256[:8], in a fixed enumeration order (~35 000 digests)."""
    alphabet = "-.:/@#!+~ "
    for n in range(1, 9):
        seen: dict[str, str] = {}
        for tup in itertools.product(alphabet, repeat=n):
            s = "app" + "".join(tup)
            h = hashlib.sha256(s.encode()).hexdigest()[:8]
            if h in seen:
                return seen[h], s
            seen[h] = s
    raise RuntimeError("no collision found")


_COLLISION: tuple[str, str] | None = None


def collision_pair() -> tuple[str, str]:
    global _COLLISION
    if _COLLISION is None:
        _COLLISION = _hash32_collision()
    return _COLLISION


def _tp(app_id: str) -> str:
    """The storage prefix pynenc derives from an id - used ONLY to build adversarial id strings."""
    from pynenc.util.sqlite_utils import sanitize_table_prefix

    return sanitize_table_prefix(app_id)


def constructed(base: str, comps: tuple = COMPONENTS, variants: bool = True) -> list[Id]:
    """Ids that look like the storage prefix of `base`."""
    p = _tp(base)
    out = [Id(p, "tp", base)]
    for c in comps:
        out.append(Id(f"{p}__{c}", "tp+comp", base))
    if variants:
        c0 = f"{p}__{comps[0]}"
        # in the other letter case (LIKE is case-insensitive for ASCII)
        out.append(Id(c0.swapcase(), "swapcase(tp+comp)", base))
        # with every "_" replaced by another character ("_" is a LIKE wildcard)
        out.append(Id(c0.replace("_", "Z"), "underscore->Z(tp+comp)", base))
        # not at the start of the id
        out.append(Id("-" + c0, "infix(tp+comp)", base))
        # ids that are (or contain, or case-fold to) a complete table name of `base`
        from pynenc.broker.sqlite_broker import Tables as BrokerTables

        tq = BrokerTables(base).QUEUE
        out.append(Id(tq, "table-name", base))
        out.append(Id("-" + tq, "infix(table-name)", base))
        out.append(Id(tq.swapcase(), "swapcase(table-name)", base))
    return out


def chain_id(base: str = "x") -> Id:
    """tp(tp(base)+'__broker')+'__orchestrator': looks like a prefix of an id that looks like a prefix."""
    mid = f"{_tp(base)}__{COMPONENTS[0]}"
    return Id(f"{_tp(mid)}__{COMPONENTS[1]}", "tp+comp", (base, mid))


def gen_ids(thorough: bool) -> list[Id]:
    ids: list[Id] = [Id("app", "base"), Id("x", "short")]
    for ch in ["-", "_", ".", " ", "%", "'", '"', ";", "--"]:
        ids.append(Id(f"app{ch}x", "punct"))
    for t in ["APP", "App", "APP-X"]:
        ids.append(Id(t, "case"))
    for t in ["1app", "9", "_1app"]:
        ids.append(Id(t, "digit"))
    for t in ["äpp", "ÄPP", "アプリ"]:
        ids.append(Id(t, "unicode"))
    # distinct strings that Unicode normalisation (NFC / NFD / NFKC) or case folding would identify
    for t in ["caf\u00e9", "cafe\u0301", "\ufb01n", "fin", "x\u00b2", "x2"]:
        ids.append(Id(t, "normalisation"))
    ids.append(Id("a" * 200, "long"))
    ids.append(Id("a" * 199 + "-", "long"))
    for t in ["", " ", "_", "%"]:
        ids.append(Id(t, "emptylike"))
    for t in ["app'; DROP TABLE x; --", 'app" OR "1"="1', "app%", "app_"]:
        ids.append(Id(t, "sql"))
    ids.extend(constructed("x"))
    ids.append(chain_id("x"))
    ids.extend(constructed("app-x", COMPONENTS[:1], variants=False)[1:])
    a, b = collision_pair()
    ids.append(Id(a, "hash32"))
    ids.append(Id(b, "hash32"))
    if thorough:
        for t in ["app\nx", "app\tx", "app\\x", "app/x", "app:x", "app*x", "app?x", "app[x]", "app-X", "app-é"]:
            ids.append(Id(t, "punct"))
        for t in ["٣app", "0", "00"]:
            ids.append(Id(t, "digit"))
        for t in ["\u212a", "K", "\uff11app", "stra\u00dfe", "strasse", "STRASSE"]:
            ids.append(Id(t, "normalisation"))
        ids.extend(constructed("app-x"))
        ids.extend(constructed(""))
        ids.extend(constructed("1app", COMPONENTS[:2]))
    seen: set[str] = set()
    out = []
    for i in ids:
        if i.text not in seen:
            seen.add(i.text)
            out.append(i)
    return out


def core_ids() -> list[Id]:
    """12-id core for triples."""
    cx = constructed("x")
    return [
        Id("x", "short"),
        Id("X", "case"),
        cx[0],  # tp(x)
        cx[1],  # tp(x)+"__broker"
        cx[3],  # tp(x)+"__state_backend"
        chain_id("x"),
        Id("x-y", "punct"),
        Id("x_y", "punct"),
        Id("", "emptylike"),
        Id("%", "emptylike"),
        Id("x';--", "sql"),
        Id("1x", "digit"),
    ]


def relation(a: Id, b: Id) -> str:
    """Label of the ordered pair (a acts, b is observed) used in signatures."""
    if a.text in b.bases:
        return f"B={b.kind}(A)"
    if b.text in a.bases:
        return f"A={a.kind}(B)"
    if a.kind == "hash32" and b.kind == "hash32":
        return "punctuation-variants-with-equal-sha256[:8]"
    return f"{a.kind}|{b.kind}"


# ---------------------------------------------------------------------------
# one application of a world
# ---------------------------------------------------------------------------
class Side:
    def __init__(self, backend: str, ident: Id, role: str, db: str | None, raw: Any = None) -> None:
        self.raw = raw
        self.backend = backend
        self.ident = ident
        self.role = role
        self.db = db
        self.app: Any = None
        self.inv: dict[str, Any] = {}
        self.inv_ids: list[str] = []
        self.cds_keys: list[str] = []
        self.cond_ids: list[str] = []
        self.trigger_ids: list[str] = []
        self.names: set[str] = set()  # sqlite_master names added by creating this app
        self.rid = f"runner-{role}"
        self.n_extra = 0

    # -- creation ----------------------------------------------------------
    def create(self) -> None:
        from pynenc.runner.runner_context import RunnerContext

        self.app = env.make_app(
            self.backend,
            app_id=self.ident.text,
            db=self.db,
            auto_final_invocation_purge_hours=0.0,
            runner_considered_dead_after_minutes=1e6,
        )
        a = self.app
        for comp in (a.broker, a.orchestrator, a.state_backend, a.trigger, a.client_data_store):
            assert comp is not None
        self.rctx = RunnerContext(runner_cls="VfRunner", runner_id=self.rid)
        from pynenc.conf.config_task import ConcurrencyControlType as CC

        self.t_add = tasks.bind(a, tasks_c17.add)
        self.t_ident = tasks.bind(a, tasks_c17.ident)
        self.t_keyed = tasks.bind(a, tasks_c17.keyed, registration_concurrency=CC.ARGUMENTS)
        self.t_fired = tasks.bind(a, tasks_c17.fired)

    def builders(self) -> list:
        from pynenc.invocation.status import InvocationStatus as S
        from pynenc.trigger.trigger_builder import on_cron, on_event, on_status

        r = self.role
        return [
            on_event(f"evt.{r}").with_args_static({"tag": f"event-{r}"}),
            on_status(self.t_add, [S.SUCCESS]).with_args_static({"tag": f"status-{r}"}),
            on_cron("* * * * *").with_args_static({"tag": f"cron-{r}"}),
        ]

    # -- population: a list of steps so that several apps can be populated interleaved ------
    def steps(self) -> list[Callable[[], None]]:
        from pynenc.invocation.status import InvocationStatus as S

        a = self.app
        r = self.role
        o = a.orchestrator
        sb = a.state_backend

        def s_triggers() -> None:
            bs = self.builders()
            a.trigger.register_task_triggers(self.t_fired, bs)
            for b in bs:
                for c in b.conditions:
                    self.cond_ids.append(c.condition_id)
            for cid in list(self.cond_ids):
                for dto in a.trigger.get_triggers_for_condition(cid):
                    if dto.trigger_id not in self.trigger_ids:
                        self.trigger_ids.append(dto.trigger_id)

        def s_route() -> None:
            self.inv["i1"] = self.t_add(1, 2)
            self.inv["i2"] = self.t_add(3, 4)
            self.inv["i3"] = self.t_add(5, 6)
            self.inv["i4"] = self.t_ident(BIG + r)
            self.inv["i5"] = self.t_keyed(r, 1)
            self.inv_ids = [str(self.inv[k].invocation_id) for k in ("i1", "i2", "i3", "i4", "i5")]

        def s_heartbeat() -> None:
            o.register_runner_heartbeats([self.rid], can_run_atomic_service=True)

        def s_claim() -> None:
            got = list(o.get_invocations_to_run(3, self.rctx))
            self.claimed = [str(i.invocation_id) for i in got]
            for i in got:
                o.set_invocation_status(i.invocation_id, S.RUNNING, self.rctx)

        def s_finish() -> None:
            o.set_invocation_result(self.inv["i2"], {"role": r, "v": 7}, self.rctx)
            # i3 stays RUNNING (exactly one final invocation per app, see auto_purge in the alphabet);
            # its exception is stored through the state backend
            sb.set_exception(self.inv["i3"].invocation_id, ValueError(f"boom-{r}"))

        def s_block() -> None:
            o.waiting_for_results(self.inv["i1"].invocation_id, [self.inv["i4"].invocation_id])

        def s_data() -> None:
            self.cds_keys.append(a.client_data_store.serialize("d" * 1400 + r))
            wf = self.inv["i1"].workflow
            sb.set_workflow_data(wf, "wk", {"role": r})
            sb.set_workflow_data(wf, "big", "w" * 1300 + r)
            sb.store_workflow_run(wf)
            sb.store_workflow_sub_invocation(wf.workflow_id, self.inv["i4"].invocation_id)

        def s_trigger_data() -> None:
            a.trigger.emit_event(f"evt.{r}", {"role": r})
            a.trigger.claim_trigger_run(f"run-{r}")
            a.trigger.claim_trigger_execution(f"trg-{r}", f"vc-{r}")
            a.trigger.check_time_based_triggers(datetime.fromtimestamp(env.EPOCH0 + 1, UTC))

        def s_flush() -> None:
            sb.wait_for_all_async_operations()

        return [s_triggers, s_route, s_heartbeat, s_claim, s_finish, s_block, s_data, s_trigger_data, s_flush]

    # -- the operation alphabet (performed on the acting app) ---------------------------------
    def alphabet(self, order: str = "writes-first") -> list[tuple[str, str, Callable[[], Any]]]:
        from pynenc.invocation.status import InvocationStatus as S

        a = self.app
        r = self.role
        o = a.orchestrator
        sb = a.state_backend
        st: dict[str, Any] = {}

        def route() -> Any:
            self.n_extra += 1
            st["r1"] = self.t_add(10 + self.n_extra, 1)

        def route_big() -> Any:
            self.n_extra += 1
            st["r2"] = self.t_ident(BIG + f"{r}-extra-{self.n_extra}")

        def route_keyed() -> Any:
            st["r3"] = self.t_keyed(r, 1)  # same arguments as i5: registration concurrency path

        def retrieve() -> Any:
            st["got"] = a.broker.retrieve_invocation()
            if st["got"] is not None:
                a.broker.route_invocation(st["got"])

        def to_run() -> Any:
            st["run"] = list(o.get_invocations_to_run(2, self.rctx))

        def status() -> Any:
            for i in st.get("run", []):
                o.set_invocation_status(i.invocation_id, S.RUNNING, self.rctx)

        def result() -> Any:
            run = st.get("run", [])
            if run:
                o.set_invocation_result(run[0], {"role": r, "extra": True}, self.rctx)

        def exception() -> Any:
            run = st.get("run", [])
            if len(run) > 1:
                o.set_invocation_exception(run[1], KeyError(f"late-{r}"), self.rctx)

        def retry() -> Any:
            o.set_invocation_retry(self.inv["i1"].invocation_id, RuntimeError("again"), self.rctx)

        def heartbeat() -> Any:
            o.register_runner_heartbeats([self.rid, f"{self.rid}-2"], can_run_atomic_service=False)

        def event() -> Any:
            a.trigger.emit_event(f"evt.{r}", {"role": r, "n": 2})

        def trigger_loop() -> Any:
            a.trigger.trigger_loop_iteration()

        def workflow_data() -> Any:
            wf = self.inv["i1"].workflow
            sb.set_workflow_data(wf, "wk", {"role": r, "changed": True})
            sb.set_workflow_data(wf, "wk2", "w" * 1300 + r + "2")

        def cds_store() -> Any:
            self.cds_keys.append(a.client_data_store.serialize("e" * 1400 + r))

        def claims() -> Any:
            a.trigger.claim_trigger_run(f"run-{r}-2")
            a.trigger.claim_trigger_execution(f"trg-{r}", f"vc-{r}-2")

        def recovery_scan() -> Any:
            list(o.get_pending_invocations_for_recovery())
            list(o.get_running_invocations_for_recovery())
            list(o.get_blocking_invocations(5))

        def auto_purge() -> Any:
            o.auto_purge()

        def reregister() -> Any:
            a.trigger.register_task_triggers(self.t_fired, self.builders())

        def flush() -> None:
            sb.wait_for_all_async_operations()

        def w(f: Callable[[], Any]) -> Callable[[], Any]:
            def g() -> Any:
                f()
                flush()
            return g

        def repopulate() -> Any:
            self.inv.clear()
            self.cond_ids.clear()
            self.cds_keys.clear()
            for s in self.steps():
                s()

        fns = {
            "orchestrator.auto_purge": w(auto_purge),
            "route": w(route),
            "route_big_argument": w(route_big),
            "route_under_registration_concurrency": w(route_keyed),
            "broker.retrieve+route": w(retrieve),
            "get_invocations_to_run": w(to_run),
            "set_status_running": w(status),
            "set_result": w(result),
            "set_exception": w(exception),
            "set_retry": w(retry),
            "heartbeat": w(heartbeat),
            "emit_event": w(event),
            "trigger_loop_iteration": w(trigger_loop),
            "set_workflow_data": w(workflow_data),
            "data_store.serialize": w(cds_store),
            "trigger_claims": w(claims),
            "recovery_scans": w(recovery_scan),
            "reregister_triggers": w(reregister),
            "broker.purge": w(a.broker.purge),
            "orchestrator.purge": w(o.purge),
            "state_backend.purge": w(sb.purge),
            "client_data_store.purge": w(a.client_data_store.purge),
            "trigger.purge": w(a.trigger.purge),
            "app.purge": w(a.purge),
            "repopulate_after_purge": repopulate,
        }
        assert list(fns) == [n for n, _ in self.OPS]
        ops = list(self.OPS)
        if order == "purges-first":
            purges = [x for x in ops[1:] if x[1] == "purge"]
            rest = [x for x in ops[1:] if x[1] != "purge" and x[0] != "repopulate_after_purge"]
            ops = [ops[0], purges[-1], *purges[:-1], ("repopulate_after_purge", "write"), *rest]
        return [(n, k, fns[n]) for n, k in ops]

    # auto purge comes first, while the app has exactly one final invocation (SQLiteOrchestrator.auto_purge
    # blocks itself on the database lock when two or more are eligible: not an isolation matter, notes/c17.md)
    OPS = [
        ("orchestrator.auto_purge", "purge"),
        ("route", "write"),
        ("route_big_argument", "write"),
        ("route_under_registration_concurrency", "write"),
        ("broker.retrieve+route", "write"),
        ("get_invocations_to_run", "write"),
        ("set_status_running", "write"),
        ("set_result", "write"),
        ("set_exception", "write"),
        ("set_retry", "write"),
        ("heartbeat", "write"),
        ("emit_event", "write"),
        ("trigger_loop_iteration", "write"),
        ("set_workflow_data", "write"),
        ("data_store.serialize", "write"),
        ("trigger_claims", "write"),
        ("recovery_scans", "read"),
        ("reregister_triggers", "write"),
        ("broker.purge", "purge"),
        ("orchestrator.purge", "purge"),
        ("state_backend.purge", "purge"),
        ("client_data_store.purge", "purge"),
        ("trigger.purge", "purge"),
        ("app.purge", "purge"),
        ("repopulate_after_purge", "write"),
    ]

    # -- read-out ------------------------------------------------------------------
    def readout(self) -> dict[str, Any]:
        """Everything observable about this app, as {query name: JSON-able value}."""
        a = self.app
        o = a.orchestrator
        sb = a.state_backend
        tr = a.trigger
        out: dict[str, Any] = {}

        def q(name: str, fn: Callable[[], Any]) -> None:
            try:
                out[name] = fn()
            except Exception as e:  # noqa: BLE001 - the class (and text) is the observation
                out[name] = ("raise", type(e).__name__, str(e)[:120])

        # first of all (before any query below drops this app's process-local cache): the public resolve path (cache first) for the reference keys of what the OTHER apps store / may store: this
        # app never stored them, so it must not be able to resolve them, whatever the others do meanwhile
        from pynenc.client_data_store.base_client_data_store import _generate_key

        for other in ("A", "B", "C"):
            if other == self.role:
                continue
            for tag in ("d", "e"):
                fk = _generate_key(a.serializer.serialize(tag * 1400 + other))
                def foreign(fk: str = fk) -> Any:
                    try:
                        return ("resolved", digest(a.client_data_store.resolve(fk)))
                    except KeyError:
                        return "<absent>"  # the expected observation
                q(f"cds.resolve_foreign[{other},{tag}]", foreign)
        # broker
        q("broker.count", a.broker.count_invocations)
        q("broker.queue", self._queue_peek)
        # orchestrator
        q("orch.count", o.count_invocations)
        q("orch.paginated", lambda: sorted(str(x) for x in o.get_invocation_ids_paginated(limit=1000)))
        for t in (self.t_add, self.t_ident, self.t_keyed, self.t_fired):
            q(f"orch.task_invocations[{t.task_id.key.split('.')[-1]}]",
              lambda t=t: sorted(str(x) for x in o.get_task_invocation_ids(t.task_id)))
        q("orch.blocking", lambda: sorted(str(x) for x in o.get_blocking_invocations(100)))
        q("orch.active_runners", lambda: [
            (x.runner_id, x.creation_time.timestamp(), x.last_heartbeat.timestamp(),
             x.allow_to_run_atomic_service) for x in o.get_active_runners()])
        q("orch.keyed_existing", lambda: sorted(
            str(x) for x in o.get_existing_invocations(
                self.t_keyed, self.inv["i5"].call.serialized_arguments if "i5" in self.inv else None)))
        for k, iid in zip(("i1", "i2", "i3", "i4", "i5"), self.inv_ids):
            q(f"orch.status[{k}]", lambda iid=iid: (lambda rec: (
                rec.status.name, rec.runner_id, rec.timestamp.timestamp()))(o.get_invocation_status_record(iid)))
            q(f"orch.retries[{k}]", lambda iid=iid: o.get_invocation_retries(iid))
            q(f"sb.invocation[{k}]", lambda iid=iid: (lambda inv: (
                str(inv.invocation_id), inv.call.call_id.key, str(inv.workflow.workflow_id),
                sorted(inv.call.serialized_arguments.items())))(sb.get_invocation(iid)))
            q(f"sb.history[{k}]", lambda iid=iid: [
                (h.status_record.status.name, h.status_record.runner_id, h.runner_context_id,
                 h.status_record.timestamp.timestamp()) for h in sb.get_history(iid)])
        if self.inv_ids:
            q("sb.result[i2]", lambda: sb.get_result(self.inv_ids[1]))
            q("sb.exception[i3]", lambda: (lambda e: (type(e).__name__, str(e)))(sb.get_exception(self.inv_ids[2])))
            q("sb.result[i1]", lambda: sb.get_result(self.inv_ids[0]))  # absent: KeyError is the observation
        # state backend, global queries
        q("sb.app_info", lambda: sb.get_app_info().app_id)
        q("sb.runner_context", lambda: (lambda c: None if c is None else (c.runner_id, c.runner_cls))(
            sb._get_runner_context(self.rid)))
        lo = datetime.fromtimestamp(env.EPOCH0 - 86400, UTC)
        hi = datetime.fromtimestamp(env.EPOCH0 + 86400, UTC)
        q("sb.history_in_range", lambda: [
            (str(h.invocation_id), h.status_record.status.name, h.status_record.timestamp.timestamp())
            for batch in sb.iter_history_in_timerange(lo, hi) for h in batch])
        q("sb.invocations_in_range", lambda: sorted(
            str(i) for batch in sb.iter_invocations_in_timerange(lo, hi) for i in batch))
        q("sb.workflow_runs", lambda: sorted(str(w.workflow_id) for w in sb.get_all_workflow_runs()))
        q("sb.workflow_types", lambda: sorted(t.key for t in sb.get_all_workflow_types()))
        if "i1" in self.inv:
            wf = self.inv["i1"].workflow
            q("sb.workflow_data[wk]", lambda: sb.get_workflow_data(wf, "wk", "<absent>"))
            q("sb.workflow_data[wk2]", lambda: sb.get_workflow_data(wf, "wk2", "<absent>"))
            q("sb.workflow_data[big]", lambda: self._fresh_resolve_wfdata(wf, "big"))
            q("sb.workflow_sub_invocations", lambda: sorted(
                str(x) for x in sb.get_workflow_sub_invocations(wf.workflow_id)))
            q("sb.by_workflow", lambda: sorted(
                str(x) for x in sb.get_invocation_ids_by_workflow(workflow_id=str(wf.workflow_id))))
        # client data store (backend read: the process-local cache would hide a loss)
        keys = list(self.cds_keys)
        if "i4" in self.inv:
            keys += [v for v in self.inv["i4"].call.serialized_arguments.values()
                     if a.client_data_store.is_reference(v)]
        for n, key in enumerate(keys):
            q(f"cds[{n}]", lambda key=key: digest(a.client_data_store._retrieve(key)))
        # trigger
        for n, cid in enumerate(self.cond_ids):
            q(f"trg.condition[{n}]", lambda cid=cid: (lambda c: None if c is None else c.to_json(a))(
                tr.get_condition(cid)))
            q(f"trg.triggers_for_condition[{n}]", lambda cid=cid: sorted(
                (d.trigger_id, d.task_id.key, sorted(d.condition_ids), d.logic.value, d.argument_provider_json)
                for d in tr.get_triggers_for_condition(cid)))
            q(f"trg.last_cron[{n}]", lambda cid=cid: (lambda t: None if t is None else t.isoformat())(
                tr.get_last_cron_execution(cid)))
        for n, tid in enumerate(self.trigger_ids):
            q(f"trg.trigger[{n}]", lambda tid=tid: (lambda d: None if d is None else (
                d.trigger_id, d.task_id.key, sorted(d.condition_ids)))(tr._get_trigger(tid)))
        q("trg.valid_conditions", lambda: sorted(
            (k, v.to_json(a)) for k, v in tr.get_valid_conditions().items()))
        q("trg.sourced_from_add", lambda: sorted(
            c.condition_id for c in tr.get_conditions_sourced_from_task(self.t_add.task_id)))
        # claims are test-and-set: asking again for a live claim answers False and writes nothing
        q("trg.run_claim_still_held", lambda: tr.claim_trigger_run(f"run-{self.role}") is False)
        q("trg.execution_claim_still_held",
          lambda: tr.claim_trigger_execution(f"trg-{self.role}", f"vc-{self.role}") is False)
        # concrete storage
        if self.backend == env.SQLITE:
            q("sqlite.names", lambda: sorted(self.names & _master_names(self.raw)))
            q("sqlite.rows", lambda: _dump_tables(self.raw, self.names))
        return out

    def _fresh_resolve_wfdata(self, wf: Any, key: str) -> Any:
        cds = self.app.client_data_store
        cds._deserialized_cache.clear()  # a second process of this app has no cache
        return digest(self.app.state_backend.get_workflow_data(wf, key, "<absent>"))

    def _queue_peek(self) -> list[str]:
        b = self.app.broker
        if self.backend == env.MEM:
            return [str(x) for x in b._queue]
        rows = self.raw.execute(
            f'SELECT invocation_id FROM "{b.tables.QUEUE}" ORDER BY created_at ASC, id ASC').fetchall()
        return [r[0] for r in rows]


def _master_names(raw: sqlite3.Connection) -> set[str]:
    # sqlite_sequence is SQLite's own AUTOINCREMENT bookkeeping table (one per file)
    return {r[0] for r in raw.execute("SELECT name FROM sqlite_master").fetchall()} - {"sqlite_sequence"}


def _dump_tables(raw: sqlite3.Connection, names: set[str]) -> dict[str, str]:
    """Digest of the full content of each table in `names` (other sqlite_master entries skipped)."""
    tables = {r[0] for r in raw.execute("SELECT name FROM sqlite_master WHERE type='table'").fetchall()}
    out = {}
    for n in sorted(names & tables):
        rows = raw.execute(f'SELECT * FROM "{n}" ORDER BY rowid').fetchall()
        out[n] = f"{len(rows)} rows {digest([list(map(_cell, r)) for r in rows])}"
    return out


def _cell(v: Any) -> Any:
    return v.hex() if isinstance(v, bytes) else v


# ---------------------------------------------------------------------------
# one world: n apps in one process (one database file)
# ---------------------------------------------------------------------------
def _diff(a: dict, b: dict) -> list[str]:
    return [k for k in sorted(set(a) | set(b)) if canon(a.get(k, "<missing>")) != canon(b.get(k, "<missing>"))]


def _coarse(key: str) -> str:
    return key.split("[")[0]


def run_world(p: Partial, backend: str, ids: list[Id], actor: int, order: str = "writes-first",
              tag: str = "pair") -> None:
    """Build one world with one app per id, populate all of them, then let ids[actor] perform the
    alphabet while every other app is observed."""
    env.reset_world()
    rep = {"kind": "world", "backend": backend, "ids": [i.text for i in ids], "kinds": [i.kind for i in ids],
           "bases": [list(i.bases) for i in ids], "actor": actor, "order": order}
    db = env.fresh_db("c17") if backend == env.SQLITE else None
    raw = sqlite3.connect(db) if db else None  # the check's own reader (real sqlite3, autocommit reads)
    p.count("states")
    try:
        _world(p, backend, ids, actor, order, tag, rep, db, raw)
    finally:
        if raw is not None:
            raw.close()


def _world(p: Partial, backend: str, ids: list[Id], actor: int, order: str, tag: str, rep: dict,
           db: str | None, raw: Any) -> None:
    sides: list[Side] = []
    shorts = [i.short() for i in ids]
    observed = [n for n in range(len(ids)) if n != actor]

    def excv(op: str, who: int, e: Exception) -> None:
        other = observed[0] if who == actor else actor
        p.violation(
            {"clause": "operation-raises", "backend": backend, "op": op, "exception": type(e).__name__,
             "relation": relation(ids[who], ids[other])},
            {"ids": shorts, "acting": shorts[who], "message": str(e)[:300], "world": tag},
            rep,
        )

    # creation, one app after the other: the names a creation adds to sqlite_master are that app's own
    before: set[str] = set()
    for n, ident in enumerate(ids):
        s = Side(backend, ident, "ABCDEF"[n], db, raw)
        try:
            s.create()
        except Exception as e:  # noqa: BLE001
            excv("create", n, e)
            return
        if raw is not None:
            now = _master_names(raw)
            s.names = now - before
            before = now
        sides.append(s)
    if len({id(s.app) for s in sides}) != len(sides):
        raise RuntimeError("harness: app objects are not distinct")
    if raw is not None:
        p.count("sqlite_names_checked", sum(len(s.names) for s in sides))
        for n, s in enumerate(sides):
            bad = sorted(x for x in s.names if not NAME_RE.match(x))
            if bad:
                p.violation({"clause": "storage-name-outside-[A-Za-z0-9_]", "backend": backend,
                             "id_kind": ids[n].kind},
                            {"id": shorts[n], "names": bad[:5]}, rep)
        for n, s in enumerate(sides):
            if n and len(s.names) != len(sides[0].names):
                # the same schema created for a different id must add as many names: every one new
                p.violation({"clause": "storage-names-shared", "backend": backend,
                             "relation": relation(ids[0], ids[n])},
                            {"ids": shorts, "names_added_by_first_app": len(sides[0].names),
                             "names_added_by_this_app": len(s.names),
                             "example_shared": sorted(sides[0].names)[:2], "world": tag}, rep)
                return  # the two apps are one store: nothing further to tell apart

    # population, interleaved step by step
    step_lists = [s.steps() for s in sides]
    for k in range(len(step_lists[0])):
        for n, sl in enumerate(step_lists):
            try:
                sl[k]()
            except Exception as e:  # noqa: BLE001
                excv(f"populate:{sl[k].__name__}", n, e)
                return

    base = {n: sides[n].readout() for n in observed}
    base_c = {n: canon(base[n]) for n in observed}
    p.count("traces_validated_against_impl", len(observed))
    for n in observed:
        errs = [k for k, v in base[n].items() if isinstance(v, tuple) and v and v[0] == "raise"
                and k != "sb.result[i1]"]  # i1 has no result: KeyError is the expected observation
        if errs:
            p.violation({"clause": "readout-raises", "backend": backend,
                         "relation": relation(ids[actor], ids[n]), "query": _coarse(errs[0])},
                        {"ids": shorts, "queries": errs[:6], "first": base[n][errs[0]], "world": tag}, rep)
    ops = sides[actor].alphabet(order)
    own = _dump_tables(raw, sides[actor].names) if raw is not None else None
    for op, kind, fn in ops:
        try:
            fn()
        except Exception as e:  # noqa: BLE001
            excv(op, actor, e)
        p.count("transitions")
        if raw is not None:  # the alphabet is not vacuous: how many operations changed the acting app's own rows
            now_own = _dump_tables(raw, sides[actor].names)
            if now_own != own:
                p.count("operations_that_changed_the_acting_apps_rows")
            own = now_own
        for n in observed:
            cur = sides[n].readout()
            p.count("traces_validated_against_impl")
            if canon(cur) == base_c[n]:
                continue
            d = _diff(base[n], cur)
            p.violation(
                {"clause": "observed-app-altered-by-operation-on-other-app", "backend": backend,
                 "op_kind": kind, "relation": relation(ids[actor], ids[n])},
                {"acting": shorts[actor], "observed": shorts[n], "op": op, "order": order,
                 "changed_queries": d[:12], "n_changed": len(d),
                 "before": {k: base[n].get(k) for k in d[:3]},
                 "after": {k: cur.get(k) for k in d[:3]}, "world": tag},
                rep,
            )
            # go on from what is there now (read again: a lost claim was re-taken by the read-out)
            base[n] = sides[n].readout()
            base_c[n] = canon(base[n])
    rel0 = relation(ids[actor], ids[observed[0]])
    if not p.samples or (rel0.startswith("B=") and len(p.samples) < 2):
        p.sample({"backend": backend, "acting": shorts[actor], "observed": [shorts[n] for n in observed],
                  "relation": relation(ids[actor], ids[observed[0]]), "operations": [o[0] for o in ops],
                  "queries_per_readout": len(base[observed[0]])})


# ---------------------------------------------------------------------------
# units of parallel work
# ---------------------------------------------------------------------------
def _unit(item: tuple) -> Partial:
    mode, backend, order, specs = item
    _setup()
    p = Partial()
    for group in specs:
        ids = [Id(*g) for g in group]
        for actor in range(len(ids)):  # one fresh world per acting app: the observed apps never acted
            run_world(p, backend, ids, actor, order, mode)
    return p


def _spec(i: Id) -> tuple:
    return (i.text, i.kind, i.bases)


def run(ctx: Ctx) -> None:
    _setup()
    ids = gen_ids(ctx.thorough)
    core = core_ids()
    groups: list[tuple[str, str, list[Id]]] = [
        ("pair", "writes-first", [a, b]) for a, b in itertools.combinations(ids, 2)]
    if ctx.thorough:
        groups += [("pair", "purges-first", [a, b]) for a, b in itertools.combinations(core, 2)]
        groups += [("triple", "writes-first", list(t)) for t in itertools.combinations(core, 3)]
    only = getattr(ctx, "only", None)
    if only:
        groups = [g for g in groups if only in "|".join(f"{i.kind}:{i.text}" for i in g[2])]
    items = []
    for backend in env.BACKENDS:
        for mode, order, chunk in (("pair", "writes-first", 6), ("pair", "purges-first", 6),
                                   ("triple", "writes-first", 3)):
            gs = [[_spec(i) for i in g] for m, o, g in groups if m == mode and o == order]
            for k in range(0, len(gs), chunk):
                items.append((mode, backend, order, gs[k:k + chunk]))
    if items:
        rot = ctx.seed % len(items)
        items = items[rot:] + items[:rot]
    samples: list[dict] = []
    for part in par.pmap(_unit, items):
        samples.extend(part.samples)
        part.samples = []
        ctx.merge(part)
    picked: dict[tuple, dict] = {}
    for smp in samples:  # one example per (backend, constructed or not), in item order
        picked.setdefault((smp["backend"], smp["relation"].startswith("B=")), smp)
    for smp in picked.values():
        ctx.sample(smp, limit=6)
    n_pairs = sum(1 for m, o, _ in groups if m == "pair" and o == "writes-first")
    n_pf = sum(1 for m, o, _ in groups if o == "purges-first")
    n_triples = sum(1 for m, _, _ in groups if m == "triple")
    n_ops = len(Side.OPS)
    ctx.extra["ids"] = len(ids)
    ctx.extra["ordered_pairs"] = 2 * n_pairs
    ctx.extra["unordered_triples"] = n_triples
    ctx.extra["id_kinds"] = sorted({i.kind for i in ids})
    ctx.extra["hash32_collision_pair"] = list(collision_pair())
    ctx.rule = (
        f"{len(ids)} explicit ids (punctuation/case/digit/unicode/normalisation-equivalent/long/empty-like/SQL/LIKE variants of a word; ids "
        "built from another id's sanitised storage prefix: bare, + '__<component>' for each of the 5 components, "
        "swapped case, '_'->'Z', not at the start, chained twice; one sha256[:8]-colliding pair of punctuation "
        f"variants): all {2 * n_pairs} ordered pairs"
        + (f", all {2 * n_pf} ordered pairs of a 12-id core again with the purges before the writes, and all "
           f"{n_triples} unordered triples of that core with each id acting in turn" if ctx.thorough else "")
        + " x {in-memory, SQLite on one shared file}; per world: interleaved population of all apps through the "
        f"public API, then a fixed alphabet of {n_ops} operations on the acting app (auto purge, routes, claim, "
        "status, result, exception, retry, heartbeat, event, trigger loop, workflow data, data store, claims, scans, "
        "trigger re-registration, purge of each of the 5 components, app purge, re-population), the full read-out of "
        "every other app compared after each; states = worlds built, transitions = operations followed by a "
        "comparison, traces = read-outs taken"
    )
    ctx.assume("the empty string is a legal application id: ConfigPynenc.app_id is an unvalidated string field and "
               "sanitize_table_prefix provides a '_default' stem for it, so '' (and ' ', '_', '%') are in the id set")
    ctx.assume("isolation is checked between app objects of one process (and, for SQLite, one database file); "
               "process-local caches of the observed app are bypassed for the data store and runner contexts, as a "
               "second process of that app would see the backend")
    ctx.assume("BaseStateBackend.discover_app_infos (a static, cross-application listing by design) and the logger "
               "hierarchy 'pynenc.<app_id>' are outside the read-out")
    ctx.assume("a world is one thread: the history writer threads of the state backend run inline; SQLite "
               "connections are pooled per file (vf.sqlproxy) - the statements are unchanged")
    ctx.assume("each app has at most one final invocation when orchestrator.auto_purge is called: with two or more "
               "eligible invocations SQLiteOrchestrator.auto_purge blocks itself on the database lock (not an "
               "isolation matter, reported in notes/c17.md)")


def replay(payload: dict) -> bool:
    r = payload["replay"]
    _setup()
    ids = [Id(t, k, b) for t, k, b in zip(r["ids"], r["kinds"], r["bases"])]
    p = Partial()
    run_world(p, r["backend"], ids, int(r["actor"]), r.get("order", "writes-first"), "replay")
    want = payload.get("signature")
    if want:
        return any(v["signature"] == want for v in p.violations)
    return bool(p.violations)
