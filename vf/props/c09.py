"""C09 — waiting on sub-tasks is tracked exactly and can never deadlock a runner.

E2: BFS over wait declarations / status steps / completions / limit queries over a small id
    universe on both orchestrators against a set-of-edges reference wait graph.
E1: every call tree up to depth 2 / fan-out 2 (single results, groups) executed by the real
    ThreadRunner.run() with 1 or 2 slots in a whole-runner simulation (virtual time): default and
    round-robin schedule for all trees, all schedules with <= 1 deviation for a core of trees.
"""

from __future__ import annotations

from typing import Any

from vf import bfs, dumps, e1, env, par, runsim, sched, tasks, tasks_prog
from vf.report import Ctx, Partial
from vf.worlds import runner_ctx

MOD = "vf.props.c09"
AVAILABLE = {"REGISTERED", "REROUTED", "RETRY"}
FINAL = {"SUCCESS", "FAILED", "CONCURRENCY_CONTROLLED_FINAL"}
LIMITS = (0, 1, 2, 10)
NEXT = {"REGISTERED": "PENDING", "PENDING": "RUNNING", "RUNNING": "SUCCESS", "RETRY": "PENDING"}


# ---------------------------------------------------------------------------
# E2: wait graph
# ---------------------------------------------------------------------------
class Impl(bfs.System):
    def __init__(self, backend: str, nids: int) -> None:
        self.backend = backend
        self.name = backend
        self.nids = nids

    def reset(self) -> None:
        env.reset_world()
        if self.backend == env.MEM:
            self.app = env.make_app(env.MEM, app_id="c09")
        else:
            self.app = env.make_app(env.SQLITE, app_id="c09", db=env.reuse_db("c09"))
        t = tasks.bind(self.app, tasks.keyed)
        self.ids = [str(t(i, 0).invocation_id) for i in range(self.nids)]
        self.ren = dumps.Renamer()
        for i in self.ids:
            self.ren.see(i)
        self.asks = 0

    def status(self, k: int) -> str:
        return self.app.orchestrator.get_invocation_status(self.ids[k]).name

    def apply(self, op: tuple) -> Any:
        from pynenc.invocation.status import InvocationStatus as S

        orch = self.app.orchestrator
        try:
            if op[0] == "wait":
                orch.waiting_for_results(self.ids[op[1]], [self.ids[y] for y in op[2]])
                return ("ok",)
            if op[0] == "step":
                st = self.status(op[1])
                nxt = NEXT.get(st)
                if nxt is None:
                    return ("n/a",)
                orch.set_invocation_status(self.ids[op[1]], S[nxt], runner_ctx("r1"))
                return ("ok", nxt)
            if op[0] == "retry":
                # the running body asks for a retry: the invocation is runnable again
                orch.set_invocation_status(self.ids[op[1]], S.RETRY, runner_ctx("r1"))
                return ("ok", "RETRY")
            if op[0] == "ask":
                # a runner asks for blocking invocations in the middle of the history (a query is an operation too:
                # whatever it caches or prunes is carried into the following steps)
                self.asks += 1
                return ("asked", len(list(orch.get_blocking_invocations(2))))
            if op[0] == "stale-finish":
                # a runner that no longer holds the invocation (it was rerouted / never started by it) reports its
                # completion: the change must be refused and nothing else may happen
                orch.set_invocation_status(self.ids[op[1]], S.SUCCESS, runner_ctx("r1"))
                return ("accepted",)
        except Exception as e:  # noqa: BLE001
            return ("raise", type(e).__name__)
        raise ValueError(op)

    def dump(self) -> Any:
        self.app.state_backend.wait_for_all_async_operations()
        o = dumps.orchestrator(self.app, self.backend, self.ren, with_time_rank=False)
        # (the number of queries made so far is part of the state: what a query caches or prunes is not in this dump,
        # a state after a query must not be merged with the same records before it)
        return (tuple((r[0], r[1]) for r in o[0]), o[2], self.asks)

    def blocking(self, n: int) -> tuple:
        return tuple(sorted(self.ren(i) for i in self.app.orchestrator.get_blocking_invocations(n)))

    def readout(self) -> Any:
        return (("statuses", tuple(self.status(k) for k in range(self.nids))),)


class Model:
    def __init__(self, nids: int) -> None:
        self.nids = nids

    def run(self, hist: list) -> tuple[list, set]:
        st = ["REGISTERED"] * self.nids
        edges: set = set()
        for op in hist:
            if op[0] == "wait":
                for y in op[2]:
                    edges.add((op[1], y))
            elif op[0] == "step":
                nxt = NEXT.get(st[op[1]])
                if nxt:
                    st[op[1]] = nxt
                    if nxt in FINAL:
                        edges = {(x, y) for (x, y) in edges if y != op[1]}
            elif op[0] == "retry":
                if st[op[1]] == "RUNNING":
                    st[op[1]] = "RETRY"
        return st, edges

    def blocking(self, hist: list) -> set:
        st, edges = self.run(hist)
        waited = {y for (_, y) in edges}
        waiting = {x for (x, _) in edges}
        return {y for y in waited if st[y] not in FINAL and y not in waiting and st[y] in AVAILABLE}


def alphabet(nids: int, hist: list) -> list[tuple]:
    """finish of an invocation that still waits on something is outside the alphabet (see ctx.assume)."""
    m = Model(nids)
    st, edges = m.run(hist)
    ops: list[tuple] = []
    live = [k for k in range(nids) if st[k] not in FINAL]
    for x in range(nids):
        for y in live:  # callers only declare waits on invocations they saw non-final (dist_invocation.result)
            if x != y:
                ops.append(("wait", x, (y,)))
    if 1 in live and 2 in live:
        ops.append(("wait", 0, (1, 2)))
    if nids > 3 and 2 in live and 3 in live:
        ops.append(("wait", 1, (2, 3)))
    for x in range(nids):
        if st[x] == "RUNNING" and any(a == x for (a, _) in edges):
            continue
        ops.append(("step", x))
        if st[x] == "RUNNING" and len(hist) < 5 and not any(o[0] == "retry" for o in hist):
            ops.append(("retry", x))  # (one retry per history)
    if hist and len(hist) < 5 and hist[-1] != ("ask",) and sum(1 for o in hist if o == ("ask",)) < 2:
        ops.append(("ask",))
    for x in range(nids):
        if st[x] in ("REGISTERED", "PENDING") and any(b == x for (_, b) in edges) and ("stale-finish", x) not in hist:
            ops.append(("stale-finish", x))
    return ops


def _graph_unit(item: tuple) -> Partial:
    nids, first, depth = item
    p = Partial()
    impls = [Impl(env.MEM, nids), Impl(env.SQLITE, nids)]
    model = Model(nids)

    def inv(s: bfs.System, hist: list) -> str | None:
        want = model.blocking(hist)
        for n in LIMITS:
            got = s.blocking(n)  # type: ignore[attr-defined]
            if len(set(got)) != len(got):
                return f"blocking-reported-twice:limit={n}"
            if not set(got) <= want:
                extra = sorted(set(got) - want)
                st, edges = model.run(hist)
                why = "final" if any(st[y] in FINAL for y in extra) else \
                    "itself-waiting" if any(y in {x for (x, _) in edges} for y in extra) else \
                    "not-waited-on" if any(y not in {b for (_, b) in edges} for y in extra) else "not-runnable"
                return f"reports-non-blocking-invocation:{why}"
            if len(got) != min(max(n, 0), len(want)):
                return f"blocking-count-differs:limit={'0' if n == 0 else 'n'}:{'more' if len(got) > min(n, len(want)) else 'fewer'}"
        # when an invocation finishes nothing is recorded as waiting on it
        st, _ = model.run(hist)
        edges_real = s.dump()[1]  # type: ignore[index]
        for (_, y) in edges_real:
            if isinstance(y, int) and st[y] in FINAL:
                return "edge-to-finished-invocation-remains"
        return None

    st = bfs.explore(p, impls, None, lambda h: alphabet(nids, h), depth - 1, tag=f"ids={nids}", invariant=inv,
                     init_history=[first])
    p.count("bfs_states", st["states"])
    p.max("depth_completed", st["depth"] + 1)
    p.count("traces_validated_against_impl", st["transitions"])
    return p


# ---------------------------------------------------------------------------
# E1: call trees on the thread runner
# ---------------------------------------------------------------------------
def leaf() -> dict:
    return {"fl": "p", "mr": 0, "sc": ["ret", 1]}


def shapes(depth: int) -> list[dict]:
    if depth == 0:
        return [leaf()]
    sub = shapes(depth - 1)
    out = [leaf()]
    for call in ("single", "group"):
        for a in sub:
            out.append({**leaf(), "kids": [a], "call": call})
            for b in sub:
                out.append({**leaf(), "kids": [a, b], "call": call})
    return out


def cc_trees() -> list[dict]:
    """Trees whose inner nodes run under running-concurrency control (one RUNNING execution of that task at a
    time, blocked ones re-queued): siblings that are waited on but may not start while their sibling waits itself."""
    c = lambda *kids, call="single": {"fl": "c", "mr": 0, "sc": ["ret", 1], **({"kids": list(kids), "call": call} if kids else {})}  # noqa: E731
    L = leaf()
    cs = c(L)
    root = lambda *kids, call="group": {**leaf(), "kids": list(kids), "call": call}  # noqa: E731
    return [root(c(), c()), root(cs, cs), root(cs, cs, cs), root(cs, c(), cs), root(cs, cs, cs, cs), root(cs, call="single"),
            root(cs, cs, call="single"), root(c(L, L, call="group"), cs)]


def retry_trees() -> list[dict]:
    """Chains whose middle nodes ask for a retry once (after their child returned): the thread of the first attempt
    ends, the invocation is not final, and its second attempt needs a slot again while its parent still waits."""
    L = leaf()
    r = lambda *kids: {"fl": "p", "mr": 1, "sc": ["retry_until", 2, 1], "kids": list(kids), "call": "single"}  # noqa: E731
    top = lambda *kids: {**leaf(), "kids": list(kids), "call": "single"}  # noqa: E731
    return [top(r(L)), top(r(r(L))), top(r(L), L)]


def expected_execs(spec: dict, path: str = "r", times: int = 1) -> dict:
    """How often each body runs. The scripted node counts its executions per tree position: 'succeed on execution k'
    costs k executions the first time its parent calls it and one execution for every later call."""
    mine = (spec["sc"][1] + times - 1) if spec["sc"][0] == "retry_until" else times
    out = {path: mine}
    for i, k in enumerate(spec.get("kids") or []):
        out.update(expected_execs(k, f"{path}.{i}", mine))
    return out


def _has_cc(spec: dict) -> bool:
    return spec.get("fl") == "c" or any(_has_cc(k) for k in spec.get("kids") or [])


def expected_value(spec: dict) -> int:
    return 1 + sum(expected_value(k) for k in spec.get("kids") or [])


def size(spec: dict) -> int:
    return 1 + sum(size(k) for k in spec.get("kids") or [])


class Scn:
    points = None

    def __init__(self, desc: dict) -> None:
        self.desc = desc

    def execute(self, choices: list[int], expect: Any, strategy: str = "default") -> sched.Execution:
        d = self.desc
        tasks_prog.reset()
        sim = runsim.Sim(d["backend"], max_threads=d["slots"], app_id="c09t")
        tasks_prog.STATE["tasks"] = tasks_prog.bind_all(sim.app)
        spec = d["spec"]
        root = tasks_prog.STATE["tasks"][("p", 0)]
        res: dict = {}

        def client() -> None:
            try:
                inv = root(spec, "r")
                res["inv"] = str(inv.invocation_id)
                res["value"] = inv.result
            except sched.Abort:
                raise
            except BaseException as e:  # noqa: BLE001
                res["error"] = repr(e)
            finally:
                sim.runner.stop_runner_loop()

        ex = sim.run(client, choices, expect, strategy=d.get("strategy", strategy), horizon=60.0)
        ex.res = res
        return ex

    def digest(self, ex: sched.Execution) -> Any:
        return (ex.res.get("value"), ex.res.get("error"), ex.outcome,
                tuple(sorted(tasks_prog.STATE["exec"].items())))

    def check(self, ex: sched.Execution, p: Partial) -> None:
        d = self.desc
        base = dict(backend=d["backend"], slots=d["slots"], tree=_tree_name(d["spec"]))
        want = expected_value(d["spec"])
        if ex.outcome != "done":
            sim = ex.sim
            stuck = sorted({sim.record(i)[0] for i in sim.all_ids() if sim.record(i)[0] not in FINAL})
            p.violation({"clause": f"tree-does-not-complete:{ex.outcome}", **base},
                        {"non_final": stuck, "value": ex.res.get("value"), "points": len(ex.trace)}, {})
            return
        if ex.res.get("value") != want:
            p.violation({"clause": "root-result-wrong", **base}, {"got": ex.res, "want": want}, {})
            return
        execs = tasks_prog.STATE["exec"]
        if dict(execs) != expected_execs(d["spec"]):
            p.violation({"clause": "a-body-ran-not-exactly-once", **base},
                        {"exec": dict(execs), "expected": expected_execs(d["spec"])}, {})


def _tree_name(spec: dict) -> str:
    kids = spec.get("kids") or []
    me = "c" if spec.get("fl") == "c" else ("R" if spec["sc"][0] == "retry_until" else "")
    if not kids:
        return me or "L"
    return f"{me}{spec['call'][0]}({','.join(_tree_name(k) for k in kids)})"


def build(desc: dict) -> Scn:
    return Scn(desc)


def _fixed_schedule_unit(item: tuple) -> Partial:
    descs = item
    p = Partial()
    e1.prepare()
    for d in descs:
        scn = Scn(d)
        ex = scn.execute([], None)
        p.count("schedules")
        p.count("transitions", len(ex.trace))
        p.max("max_points_per_schedule", len(ex.trace))
        p.add("distinct_outcomes", (e1.desc_key({k: v for k, v in d.items() if k != 'spec'}), scn.digest(ex)[0:3]))
        before = len(p.violations)
        scn.check(ex, p)
        for v in p.violations[before:]:
            v["signature"]["schedule"] = d["strategy"]
            v["replay"] = {"kind": "fixed", "desc": d}
        if len(p.samples) < 1:
            p.sample({"tree": _tree_name(d["spec"]), "backend": d["backend"], "slots": d["slots"],
                      "strategy": d["strategy"], "points": len(ex.trace), "value": ex.res.get("value")})
    return p


def run(ctx: Ctx) -> None:
    only = getattr(ctx, "only", None)
    # --- wait graph
    nids = 4 if ctx.thorough else 3
    depth = 5 if ctx.thorough else 5
    firsts = alphabet(nids, [])
    if not only or "graph" in only:
        for part in par.pmap(_graph_unit, [(nids, f, depth) for f in firsts]):
            ctx.merge(part)
    # --- trees: fixed schedules for all, 1-deviation exploration for a core
    trees = shapes(2) + cc_trees() + retry_trees()
    if not only or "tree" in only:
        fixed = [dict(backend=b, slots=s, spec=t, strategy=st)
                 for b in env.BACKENDS for s in (1, 2) for t in trees for st in ("default", "rr")]
        n = max(1, len(fixed) // 64)
        for part in par.pmap(_fixed_schedule_unit, [fixed[i:i + n] for i in range(0, len(fixed), n)]):
            ctx.merge(part)
        core_names = ({"s(L)", "s(L,L)", "g(L,L)", "s(s(L))", "g(s(L),L)", "s(g(L,L))", "g(cs(L),cs(L))", "g(cs(L),cs(L),cs(L))"}
                      if not ctx.thorough else None)
        core = [t for t in trees if core_names is None or _tree_name(t) in core_names]
        ds = [dict(backend=b, slots=s, spec=t, bound=1)
              for b in ((env.MEM,) if not ctx.thorough else env.BACKENDS) for s in (1, 2) for t in core
              # the (long) concurrency-controlled trees: memory only, and in thorough not the two largest
              if t.get("fl") != "c" and not (_has_cc(t) and (b != env.MEM or size(t) > 7))]
        if only:
            ds = [d for d in ds if only in e1.desc_key(d) or only == "tree"]
        e1.explore_all(ctx, MOD, ds, lambda d: d["bound"], replay_every=200)
    ctx.rule = (f"wait graph: BFS to depth {depth} over wait(x,[y..]) / status step (REGISTERED->PENDING->RUNNING->SUCCESS) / in the first 5 steps also one retry (RUNNING->RETRY) and up to two blocking queries as operations (number of queries part of the state) on "
                f"{nids} ids, both orchestrators, against a set-of-edges model; in every state get_blocking_invocations(n) for "
                f"n in {LIMITS} must be a subset of the model's blocking set of size min(n, |set|). trees: all {len(trees)} call "
                "trees of depth <= 2 / fan-out <= 2 (single, group) on the real ThreadRunner with 1 and 2 slots, memory and "
                "SQLite, default and round-robin schedule; all schedules with <= 1 deviation for a core of trees")
    ctx.assume("which subset is returned when more invocations block than the limit is unspecified (the statement says 'up to')")
    ctx.assume("an invocation that still waits on something is not finished by the alphabet (outgoing edges of a finished "
               "waiter: memory drops them, SQLite keeps them; the statement only speaks of edges *to* a finished invocation)")
    ctx.assume("waits are only declared on invocations that are not final at that moment (what invocation.result does); a "
               "declaration racing with the completion is a schedule question outside this history alphabet")
    ctx.assume("'fair randomised schedules' are replaced by default + round-robin + all 1-deviation schedules")


def replay(payload: dict) -> bool:
    r = payload["replay"]
    if r.get("kind") == "schedule":
        return e1.replay_schedule(r)
    if r.get("kind") == "fixed":
        p = _fixed_schedule_unit([r["desc"]])
        return bool(p.violations)
    nids = int(str(r["config"]).split("=")[1])
    impls = [Impl(env.MEM, nids), Impl(env.SQLITE, nids)]
    model = Model(nids)
    hist = [tuple(tuple(x) if isinstance(x, list) else x for x in op) for op in r["history"]]
    for s in impls:
        s.reset()
        for op in hist:
            s.apply(op)
    want = model.blocking(hist)
    for s in impls:
        for n in LIMITS:
            got = s.blocking(n)
            if not set(got) <= want or len(got) != min(n, len(want)):
                return True
    return False
