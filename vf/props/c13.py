"""C13 — a satisfied trigger condition launches its task exactly once.

Two parts, each a module with run_part(ctx) / replay_part(payload):
  vf.props.c13_occ   occurrence histories (events, status, result, exception; AND/OR) and
                     concurrent trigger-loop schedules
  vf.props.c13_cron  cron semantics against an independent evaluator, cron through the
                     trigger stores, concurrent cron polls
"""

from __future__ import annotations

import importlib

from vf.report import Ctx

PARTS = ["vf.props.c13_occ", "vf.props.c13_cron"]


def _parts() -> list:
    import os

    out = []
    for name in PARTS:
        # a part is registered once its marker file exists (set when it has been integrated and triaged);
        # VF_C13_ALL=1 runs unregistered parts too (used while a part is being built)
        marker = os.path.join(os.path.dirname(__file__), name.rsplit(".", 1)[1] + ".READY")
        if not os.path.exists(marker) and not os.environ.get("VF_C13_ALL"):
            continue
        try:
            out.append(importlib.import_module(name))
        except ModuleNotFoundError as e:
            if e.name != name:
                raise
    return out


def run(ctx: Ctx) -> None:
    only = getattr(ctx, "only", None)
    rules = []
    for mod in _parts():
        short = mod.__name__.rsplit("_", 1)[-1]
        if only and only.split(":", 1)[0] in ("occ", "cron") and only.split(":", 1)[0] != short:
            continue
        if only and ":" in only:
            ctx.only = only.split(":", 1)[1] or None
        mod.run_part(ctx)
        ctx.only = only
        if ctx.rule:
            rules.append(f"[{short}] {ctx.rule}")
            ctx.rule = ""
    ctx.rule = " ".join(rules)
    ctx.extra["parts"] = [m.__name__ for m in _parts()]


def replay(payload: dict) -> bool:
    r = payload.get("replay", {})
    mods = _parts()
    if r.get("kind") == "schedule":
        from vf import e1

        return e1.replay_schedule(r)
    want = r.get("part")
    for mod in mods:
        short = mod.__name__.rsplit("_", 1)[-1]
        if want in (None, short):
            if mod.replay_part(payload):
                return True
    return False
