"""C05 — a final status always comes with the matching result or exception.

E3: every catalogue value / exception x serializer x backend x externalisation threshold,
    produced by a real task body through invocation.run and read back by a fresh client-side
    invocation object (status, result); non-final invocations never yield a value.
E1: a reader polling status then result, concurrently with the worker finishing
    (plain success, failure, retry-then-success), all schedules up to a deviation bound.
"""

from __future__ import annotations

import math
from typing import Any

from vf import e1, env, par, sched, tasks, worlds
from vf.report import Ctx, Partial
from vf.worlds import World, runner_ctx

MOD = "vf.props.c05"
SERIALIZERS = ["JsonSerializer", "JsonPickleSerializer", "PickleSerializer"]
THRESHOLD = 50


def results() -> list:
    base = [None, True, False, 0, -1, 2 ** 63, 0.5, -0.0, float("inf"), float("nan"), "", "a", "é ",
            "x" * (THRESHOLD - 3), "x" * (THRESHOLD - 2), "x" * (THRESHOLD - 1), "x" * 3000,
            [], {}, [1, "a", None], {"k": [1, 2]}, {"a": {"b": [True, 0.5]}}, [[], [0]], tasks.Color.RED,
            tasks.Level.HIGH, [tasks.Color.BLUE, {"c": tasks.Color.RED}], "__pynenc__", {"error": "x"},
            # an exception instance RETURNED as a value is a value: SUCCESS must hand it back, not raise it
            ValueError("returned, not raised"), tasks.UserError("u", 3)]
    return base


def exceptions() -> list:
    from pynenc.exceptions import InvocationError, RetryError

    return [ValueError(), ValueError("m"), KeyError("k"), OSError(2, "no such"), ZeroDivisionError("z" * 80),
            tasks.UserError("u", 3), tasks.UserError(), RetryError("m"), RetryError(), InvocationError("inv-1", "msg")]


def in_domain(serializer: str, v: Any) -> bool:
    # plain JSON does not distinguish -0.0? it does ("-0.0"); it cannot carry tuples / non-str keys (none used)
    return True


def deep_eq(a: Any, b: Any) -> bool:
    if type(a) is not type(b):
        return False
    if isinstance(a, float):
        return (math.isnan(a) and math.isnan(b)) or (a == b and math.copysign(1, a) == math.copysign(1, b))
    if isinstance(a, (list, tuple)):
        return len(a) == len(b) and all(deep_eq(x, y) for x, y in zip(a, b))
    if isinstance(a, dict):
        return list(a.keys()) == list(b.keys()) and all(deep_eq(a[k], b[k]) for k in a)
    if isinstance(a, BaseException):
        return deep_eq(list(a.args), list(b.args))
    return a == b


def exc_eq(a: BaseException, b: BaseException) -> bool:
    return type(a) is type(b) and deep_eq(list(a.args), list(b.args))


def _setup_catalogue() -> None:
    tasks.CATALOGUE["result"] = results()
    tasks.CATALOGUE["exception"] = exceptions()


def _value_unit(item: tuple) -> Partial:
    serializer, backend, min_size = item
    p = Partial()
    _setup_catalogue()
    cfg = dict(serializer=serializer, backend=backend, min_size=min_size)
    env.reset_world()
    tasks.HOOKS.clear()
    conf = dict(serializer_cls=serializer, min_size_to_cache=min_size, cached_status_time=0.0)
    db = env.reuse_db("c05") if backend == env.SQLITE else None
    app = env.make_app(backend, app_id="c05", db=db, **conf)
    task = tasks.bind(app, tasks.produce, max_retries=0)
    ctx = runner_ctx("r1")
    for kind in ("result", "exception"):
        for idx, val in enumerate(tasks.CATALOGUE[kind]):
            case = dict(kind=kind, idx=idx, **cfg)
            sig_base = dict(kind=kind, value=_short(val), serializer=serializer, backend=backend, min_size=min_size)
            inv = task(kind, idx)
            inv_id = inv.invocation_id
            # a reader in another process image (SQLite) / a fresh invocation object (memory)
            rapp = env.make_app(backend, app_id="c05", db=db, **conf) if backend == env.SQLITE else app
            if rapp is not app:
                tasks.bind(rapp, tasks.produce, max_retries=0)

            def reader() -> Any:
                return rapp.state_backend.get_invocation(inv_id)

            # not final yet: asking for the final result never yields a value
            for stage in ("registered", "pending"):
                if stage == "pending":
                    got = list(app.orchestrator.get_invocations_to_run(1, ctx))
                    if [g.invocation_id for g in got] != [inv_id]:
                        p.violation({"clause": "harness:claim", **sig_base}, {"got": [g.invocation_id for g in got]}, case)
                        break
                r = reader()
                try:
                    v = r.get_final_result()
                    p.violation({"clause": f"non-final-{stage}-yields-value", **sig_base}, {"value": repr(v)[:80]}, case)
                except Exception as e:  # noqa: BLE001
                    if type(e).__name__ != "InvocationError":
                        p.violation({"clause": f"non-final-{stage}-wrong-error", **sig_base}, {"error": repr(e)[:120]}, case)
                p.count("transitions")
            else:
                try:
                    got[0].run(ctx)
                except Exception:  # noqa: BLE001 - run re-raises what the body raised
                    pass
                app.state_backend.wait_for_all_async_operations()
                r = reader()
                st = r.status.name
                p.count("transitions")
                p.add("states", (kind, idx, serializer, backend, min_size))
                want = "SUCCESS" if kind == "result" else "FAILED"
                if st != want:
                    p.violation({"clause": f"unexpected-final-status:{st}", **sig_base}, {}, case)
                    continue
                try:
                    out = ("ok", r.result)
                except BaseException as e:  # noqa: BLE001
                    out = ("raise", e)
                p.count("traces_validated_against_impl")
                if kind == "result":
                    if out[0] != "ok":
                        p.violation({"clause": "success-but-result-raises", **sig_base}, {"error": repr(out[1])[:200]}, case)
                    elif not deep_eq(out[1], val):
                        p.violation({"clause": "success-result-differs", **sig_base},
                                    {"returned": repr(val)[:120], "read": repr(out[1])[:120]}, case)
                else:
                    if out[0] != "raise":
                        p.violation({"clause": "failed-but-result-returns", **sig_base}, {"value": repr(out[1])[:120]}, case)
                    elif not exc_eq(out[1], val):
                        p.violation({"clause": "failed-exception-differs", **sig_base},
                                    {"raised": repr(val)[:120], "read": repr(out[1])[:160]}, case)
                if len(p.samples) < 2:
                    p.sample({**case, "value": repr(val)[:60], "status": st})
    return p


def _short(v: Any) -> str:
    s = repr(v)
    return s if len(s) <= 40 else f"{s[:20]}..len{len(s)}"


# ---------------------------------------------------------------------------
# E1: reader || worker
# ---------------------------------------------------------------------------
FILES = worlds.MEM_FILES + ["pynenc.client_data_store.mem_client_data_store"]


class Scn:
    def __init__(self, desc: dict) -> None:
        self.desc = desc
        self.points = (FILES, "line") if desc["backend"] == env.MEM else None

    @staticmethod
    def logical_windows(ex: sched.Execution) -> list[str]:
        return worlds.logical_windows(ex)

    def execute(self, choices: list[int], expect: Any) -> sched.Execution:
        d = self.desc
        _setup_catalogue()
        w = World(d["backend"], 3, app_id="c05s", cached_status_time=0.0, min_size_to_cache=d.get("min_size", 1024))
        w.bind(tasks.produce, max_retries=2)
        kind, idx, attempt_ok = d["kind"], d["idx"], d.get("attempt_ok", 1)
        t = w.task("produce", 2)
        inv_id = str(t(kind, idx, attempt_ok).invocation_id)
        w.ids = [inv_id]
        w.flush()
        w.obs = []

        def worker() -> None:
            ctx = runner_ctx("r0")
            app = w.apps[0]
            for _ in range(attempt_ok + 1):
                for inv in list(app.orchestrator.get_invocations_to_run(1, ctx)):
                    try:
                        inv.run(ctx)
                    except sched.Abort:
                        raise
                    except Exception:  # noqa: BLE001
                        pass

        def reader() -> None:
            app = w.apps[1]
            r = app.state_backend.get_invocation(inv_id)
            for _ in range(d.get("polls", 3)):
                st = r.status
                if st.is_final():
                    try:
                        w.obs.append((st.name, "ok", r.get_final_result()))
                    except sched.Abort:
                        raise
                    except BaseException as e:  # noqa: BLE001
                        w.obs.append((st.name, "raise", e))
                    return
                try:
                    v = r.get_final_result()
                    # a value is legitimate only if the invocation became final in the meantime (finals
                    # are absorbing, so reading the status again afterwards decides it)
                    after = app.orchestrator.get_invocation_status(inv_id)
                    w.obs.append((after.name if after.is_final() else st.name, "ok", v))
                except sched.Abort:
                    raise
                except BaseException as e:  # noqa: BLE001
                    if type(e).__name__ == "InvocationError" and "not final" in str(e):
                        w.obs.append((st.name, "raise", e))  # refused as non-final: consistent whatever follows
                    else:
                        after = app.orchestrator.get_invocation_status(inv_id)
                        w.obs.append((after.name if after.is_final() else st.name, "raise", e))
                sched.point("reader-poll")

        s = sched.Scheduler(choices, expect, max_points=5000, lazy=("_add_histories",))
        ex = s.run([("worker", worker), ("reader", reader)])
        ex.world = w
        return ex

    def digest(self, ex: sched.Execution) -> Any:
        w = ex.world
        return (tuple((o[0], o[1], type(o[2]).__name__) for o in w.obs), w.record(w.ids[0], -1), ex.outcome)

    def check(self, ex: sched.Execution, p: Partial) -> None:
        w, d = ex.world, self.desc
        base = dict(backend=d["backend"], kind=d["kind"], attempt_ok=d.get("attempt_ok", 1))
        if ex.outcome != "done":
            p.violation({"clause": f"no-progress:{ex.outcome}", **base}, {"log": w.log[-8:]}, {})
            return
        val = tasks.CATALOGUE[d["kind"]][d["idx"]]
        for st, how, v in w.obs:
            if st == "SUCCESS":
                if how != "ok" or not deep_eq(v, val):
                    p.violation({"clause": "observed-success-without-matching-result", **base},
                                {"read": repr(v)[:160], "expected": repr(val)[:80]}, {})
                    return
            elif st == "FAILED":
                if how != "raise" or not isinstance(v, Exception) or not exc_eq(v, val):
                    p.violation({"clause": "observed-failed-without-matching-exception", **base},
                                {"read": repr(v)[:160], "expected": repr(val)[:80]}, {})
                    return
            elif st == "CONCURRENCY_CONTROLLED_FINAL":
                pass
            else:
                if how == "ok":
                    p.violation({"clause": f"non-final-{st}-yields-value", **base}, {"value": repr(v)[:80]}, {})
                    return
                if type(v).__name__ != "InvocationError":
                    p.violation({"clause": f"non-final-{st}-wrong-error", **base}, {"error": repr(v)[:120]}, {})
                    return
        final = w.record(w.ids[0], -1)[0]
        want = "SUCCESS" if d["kind"] == "result" else "FAILED"
        if final != want:
            p.violation({"clause": f"worker-did-not-finish:{final}", **base}, {}, {})


# ---------------------------------------------------------------------------
# E4: a reader observing after the worker process died at any backend effect (and again after recovery)
# ---------------------------------------------------------------------------
CRASH_SCENARIOS = ["run-success", "run-failure", "run-retry", "kill-reroute", "recover-running"]


def _observe(w: Any, p: Partial, base: dict, when: str, rep: dict) -> None:
    """The C05 oracle on every accepted invocation of a C03 world, read by the surviving process."""
    app = w.survivor
    app.state_backend.wait_for_all_async_operations()
    for inv_id in w.accepted:
        r = app.state_backend.get_invocation(inv_id)
        name, x = r.arguments.kwargs["name"], r.arguments.kwargs["x"]
        st = r.status.name
        p.count("crash_observations")
        try:
            out: tuple = ("ok", r.get_final_result())
        except BaseException as e:  # noqa: BLE001
            out = ("raise", e)
        sig = None
        if st == "SUCCESS":
            if out[0] != "ok" or not deep_eq(out[1], x):
                sig = "observed-success-without-matching-result"
        elif st == "FAILED":
            if out[0] != "raise" or not exc_eq(out[1], ValueError(name)):
                sig = "observed-failed-without-matching-exception"
        elif st != "CONCURRENCY_CONTROLLED_FINAL":
            if out[0] == "ok":
                sig = f"non-final-{st}-yields-value"
            elif type(out[1]).__name__ != "InvocationError":
                sig = f"non-final-{st}-wrong-error"
        p.add("distinct_outcomes", (base["scenario"], when, st, out[0], type(out[1]).__name__))
        if sig:
            p.violation({"clause": sig, "observed": when, **base}, {"status": st, "read": repr(out[1])[:160], **rep}, {"kind": "crash", **rep})


def _crash_run(scn: str, backend: str, crash: tuple | None, p: Partial) -> list[str]:
    from vf.props import c03

    setup, kw = c03.SCENARIOS[scn]
    w = c03.W(backend, **kw)
    w.expect_failed = set()
    w.fx.attach(w.victim)
    op = setup(w)
    before = list(w.accepted)
    w.fx.crash_at = crash
    w.fx.active = True
    try:
        op()
    except c03.Crash:
        w.accepted = before
    finally:
        w.fx.active = False
    rep = dict(scenario=scn, backend=backend, crash=list(crash) if crash else None)
    eff = w.fx.trace[crash[0]] if crash and crash[0] < len(w.fx.trace) else "none"
    base = dict(scenario=scn, backend=backend, crash_at=f"{crash[1]} {eff}" if crash else "no crash")
    _observe(w, p, base, "at the crash instant", rep)
    w.recover_and_drain()
    _observe(w, p, base, "after recovery", rep)
    p.count("transitions", len(w.fx.trace))
    return list(w.fx.trace)


def _crash_unit(item: tuple) -> Partial:
    scn, backend = item
    p = Partial()
    ref = _crash_run(scn, backend, None, p)
    for k in range(len(ref)):
        for when in ("before", "after"):
            _crash_run(scn, backend, (k, when), p)
            p.count("crash_points")
            p.count("traces_validated_against_impl")
    return p


# ---------------------------------------------------------------------------
# a superseded runner finishes late: what the second runner published stays what readers get
# ---------------------------------------------------------------------------
def _late_unit(item: tuple) -> Partial:
    """Runner r0 is RUNNING the invocation and slow; running-recovery takes it away, runner r1 claims it, runs it to
    its outcome; only then r0's body ends (with its own outcome) and r0 tries to publish. All four combinations of
    (r1 outcome, r0 outcome) in {returns, raises}; the status is r1's; what a reader gets must be the outcome of a body execution of that kind (see the oracle), before and
    after r0's late write."""
    backend, second, late = item
    from pynenc import context, core_tasks

    p = Partial()
    env.reset_world()
    tasks.HOOKS.clear()
    conf = dict(cached_status_time=0.0, runner_considered_dead_after_minutes=1.0)
    db = env.reuse_db("c05l") if backend == env.SQLITE else None
    mk = lambda: env.make_app(backend, app_id="c05l", db=db, **conf)  # noqa: E731
    a0 = mk()
    a1, a2 = (a0, a0) if backend == env.MEM else (mk(), mk())
    ts = {id(a): tasks.bind(a, tasks.scripted, max_retries=0) for a in {id(x): x for x in (a0, a1, a2)}.values()}
    inv_id = ts[id(a2)]("a", 7).invocation_id
    seen: dict = {}
    base = dict(backend=backend, second_runner=second, late_runner=late)

    def read(tag: str) -> None:
        r = a2.state_backend.get_invocation(inv_id)
        st = r.status.name
        try:
            out: tuple = ("ok", r.get_final_result())
        except BaseException as e:  # noqa: BLE001
            out = ("raise", e)
        seen[tag] = (st, out)

    execs = [0]

    def script(name: str, x: int) -> Any:
        execs[0] += 1
        if execs[0] == 1:
            # r0's execution: while it is busy, it is presumed dead, recovered, and r1 runs the invocation to the end
            env.CLOCK.advance(120.0)
            a1.orchestrator.register_runner_heartbeats(["r1"])
            context.set_current_app(a1)
            context.set_runner_context(a1.app_id, runner_ctx("r1"))
            core_tasks.recover_running_invocations.func()
            for inv in list(a1.orchestrator.get_invocations_to_run(1, runner_ctx("r1"))):
                try:
                    inv.run(runner_ctx("r1"))
                except Exception:  # noqa: BLE001 - run re-raises what the body raised
                    pass
            a1.state_backend.wait_for_all_async_operations()
            read("after the second runner")
            context.set_current_app(a0)
            context.set_runner_context(a0.app_id, runner_ctx("r0"))
            if late == "raises":
                raise ValueError("late", name)
            return -x
        if second == "raises":
            raise ValueError("second", name)
        return x
    tasks.HOOKS["script"] = script
    got = list(a0.orchestrator.get_invocations_to_run(1, runner_ctx("r0")))
    a0.orchestrator.register_runner_heartbeats(["r0"])
    try:
        got[0].run(runner_ctx("r0"))
    except Exception:  # noqa: BLE001
        pass
    for a in {id(x): x for x in (a0, a1, a2)}.values():
        a.state_backend.wait_for_all_async_operations()
    read("after the late runner")
    p.count("late_runner_histories")
    p.count("transitions", 2)
    p.add("states", (backend, second, late))
    want_st = "SUCCESS" if second == "returns" else "FAILED"
    for tag, (st, out) in seen.items():
        p.count("traces_validated_against_impl")
        p.add("distinct_outcomes", ("late", second, late, tag, st, out[0]))
        # the statement: a SUCCESS result is a value returned by *a* completed execution of the body, a FAILED one
        # raises what *a* body execution raised - after the late write that may be the late runner's own outcome of
        # the same kind (its result / exception write lands before its status change is refused), never anything else
        late_done = tag == "after the late runner"
        values = [7] + ([-7] if late_done and late == "returns" else [])
        raised = [ValueError("second", "a")] + ([ValueError("late", "a")] if late_done and late == "raises" else [])
        ok = st == want_st and (
            (second == "returns" and out[0] == "ok" and any(deep_eq(out[1], v) for v in values))
            or (second == "raises" and out[0] == "raise" and any(exc_eq(out[1], e) for e in raised)))
        if not ok:
            p.violation({"clause": "final-outcome-is-not-an-outcome-of-any-body-execution", "read": tag, **base},
                        {"status": st, "read_back": repr(out[1])[:200], "body_executions": execs[0]},
                        {"kind": "late", "backend": backend, "second": second, "late": late})
            break
    if execs[0] != 2:
        p.violation({"clause": "harness:late-runner-scenario-did-not-run-two-bodies", **base}, {"executions": execs[0], "seen": repr(seen)[:300]},
                    {"kind": "late", "backend": backend, "second": second, "late": late})
    return p


def build(desc: dict) -> Scn:
    return Scn(desc)


def run(ctx: Ctx) -> None:
    only = getattr(ctx, "only", None)
    mins = [2, THRESHOLD, 1024] if not ctx.thorough else [1, 2, THRESHOLD - 1, THRESHOLD, THRESHOLD + 1, 1024, 10 ** 9]
    items = [(s, b, m) for s in SERIALIZERS for b in env.BACKENDS for m in mins]
    if not only or "value" in only:
        for part in par.pmap(_value_unit, items):
            ctx.merge(part)
    if not only or "crash" in only:
        for part in par.pmap(_crash_unit, [(s, b) for s in CRASH_SCENARIOS for b in env.BACKENDS]):
            ctx.merge(part)
    if not only or "late" in only:
        for part in par.pmap(_late_unit, [(b, s2, l2) for b in env.BACKENDS for s2 in ("returns", "raises") for l2 in ("returns", "raises")]):
            ctx.merge(part)
    _setup_catalogue()
    res_idx = tasks.CATALOGUE["result"].index({"k": [1, 2]})
    big_idx = tasks.CATALOGUE["result"].index("x" * 3000)
    exc_idx = 5  # UserError("u", 3)
    ds = []
    for b in env.BACKENDS:
        bound = 3 if ctx.thorough else 2
        ds.append(dict(backend=b, kind="result", idx=res_idx, bound=bound))
        ds.append(dict(backend=b, kind="result", idx=big_idx, min_size=50, bound=bound))
        ds.append(dict(backend=b, kind="exception", idx=exc_idx, bound=bound))
        ds.append(dict(backend=b, kind="result", idx=res_idx, attempt_ok=2, polls=4, bound=bound - 1))
    if only:
        ds = [d for d in ds if only in e1.desc_key(d)]
    e1.explore_all(ctx, MOD, ds, lambda d: d["bound"])
    ctx.rule = (f"values: {len(tasks.CATALOGUE['result'])} results x {len(tasks.CATALOGUE['exception'])} exceptions x 3 serializers x "
                f"2 backends x {len(mins)} externalisation thresholds, each produced by a real body through run() and read by a "
                "fresh client-side invocation object, plus the non-final stages REGISTERED and PENDING; schedules: reader "
                "(status then final result, up to 3-4 polls) against the finishing worker for success / externalised success / "
                "failure / retry-then-success, all schedules with <= bound deviations; crashes: the worker process dies before / "
                f"after every backend effect of {len(CRASH_SCENARIOS)} scenarios (success, failure, retry, kill-and-reroute, running "
                "recovery); a surviving process reads status and result of every accepted invocation at the crash instant and "
                "again after recovery + drain")
    ctx.assume("result equality is type-, NaN- and sign-of-zero-aware; exceptions are compared by exact class and args")
    ctx.assume("the value domain per serializer is the intersection of what all three support (JSON types, enums, exceptions)")


def replay(payload: dict) -> bool:
    r = payload["replay"]
    if r.get("kind") == "schedule":
        return e1.replay_schedule(r)
    if r.get("kind") == "late":
        return bool(_late_unit((r["backend"], r["second"], r["late"])).violations)
    if r.get("kind") == "crash":
        p = Partial()
        _crash_run(r["scenario"], r["backend"], tuple(r["crash"]) if r["crash"] else None, p)
        return bool(p.violations)
    p = _value_unit((r["serializer"], r["backend"], r["min_size"]))
    return any(v["replay"].get("kind") == r["kind"] and v["replay"].get("idx") == r["idx"] for v in p.violations)
