"""C13 (occurrence part) — a satisfied trigger condition launches its task exactly once.

PART A, histories (E2): per trigger configuration (1-3 conditions out of {event e1, event e2,
    status(src, SUCCESS), result(src), exception(src)}, default / OR / AND logic, one argument
    provider per kind of occurrence) a breadth-first search over histories of
    {emit(e1,1), emit(e1,2), emit(e2,1), finish a real src invocation with a result, finish one with
    an exception, trigger_loop_iteration} on the in-memory and the SQLite stack.  After every step
    the invocations registered for the launched task (public orchestrator / state-backend getters)
    and the pending valid conditions (public trigger getter) are judged by a reference model that
    is written from the property text: a multiset of pending occurrences per condition.
PART B, schedules (E1): two concurrent trigger_loop_iteration() (+ one concurrent emit_event) over
    1-2 pending occurrences; memory: one trigger object, a scheduling point at every source line of
    mem_trigger / base_trigger; SQLite: one app object per simulated process on one file, a point at
    every SQL statement.  Oracle: after the concurrent part and one final sequential loop iteration
    every occurrence has launched exactly once.
"""

from __future__ import annotations

import itertools
import os
from collections import Counter
from typing import Any

from vf import e1, env, par, sched, tasks
from vf import tasks_c13_occ as T
from vf.report import Ctx, Partial

MOD = "vf.props.c13_occ"
APP_ID = "c13o"

CONDS = ("e1", "e2", "st", "rs", "ex")
KIND = {"e1": "event", "e2": "event", "st": "status", "rs": "result", "ex": "exception"}

# operations of the histories
EMITS = [("emit", "e1", 1), ("emit", "e1", 2), ("emit", "e2", 1)]
OPS = EMITS + [("ok",), ("fail",), ("loop",)]


# ---------------------------------------------------------------------------
# trigger configurations
# ---------------------------------------------------------------------------
def all_configs() -> list[dict]:
    out = []
    for c in CONDS:
        out.append(dict(name=f"single:{c}", conds=(c,), logic="single"))
    for n in (2, 3):
        for combo in itertools.combinations(CONDS, n):
            for logic in ("or", "and"):
                out.append(dict(name=f"{logic}:{'+'.join(combo)}", conds=combo, logic=logic))
    return out


CONFIGS = {c["name"]: c for c in all_configs()}


def make_builder(conds: tuple, logic: str, src_task: Any, event_cb: Any = None) -> Any:
    """The trigger of a configuration through the public builder API. One argument provider per kind
    of occurrence; the most specific context type first (ResultContext / ExceptionContext are
    subclasses of StatusContext, the status provider would otherwise answer for them)."""
    from pynenc.trigger.trigger_builder import TriggerBuilder

    tb = TriggerBuilder()
    for c in conds:
        if c in ("e1", "e2"):
            tb.on_event(c)
        elif c == "st":
            tb.on_status(src_task, statuses=["SUCCESS"])
        elif c == "rs":
            tb.on_any_result(src_task)
        elif c == "ex":
            tb.on_exception(src_task)
    if logic in ("or", "and"):
        tb.with_logic(logic)
    kinds = {KIND[c] for c in conds}
    if "event" in kinds:
        tb.with_args_from_event(event_cb or T.from_event)
    if "result" in kinds:
        tb.with_args_from_result(T.from_result)
    if "exception" in kinds:
        tb.with_args_from_exception(T.from_exception)
    if "status" in kinds:
        tb.with_args_from_status(T.from_status)
    return tb


def describe_valid_conditions(app: Any) -> list[tuple]:
    """Pending valid conditions (public getter) as (condition, (tag, val)): the condition they
    belong to and the arguments the provider of their kind derives from them. Timestamps and ids
    are not part of the description."""
    from pynenc.trigger.conditions import EventContext, StatusContext
    from pynenc.trigger.conditions.exception import ExceptionContext
    from pynenc.trigger.conditions.result import ResultContext

    out = []
    for vc in app.trigger.get_valid_conditions().values():
        c = vc.context
        if isinstance(c, EventContext):
            out.append((c.event_code, (f"event:{c.event_code}", c.payload.get("v"))))
        elif isinstance(c, ResultContext):
            out.append(("rs", ("result", c.result)))
        elif isinstance(c, ExceptionContext):
            out.append(("ex", ("exception", c.arguments.kwargs.get("x"))))
        elif isinstance(c, StatusContext):
            out.append(("st", ("status", c.arguments.kwargs.get("x"))))
        else:
            out.append(("?", (type(c).__name__, None)))
    return sorted(out)


def read_launched(app: Any, target_task: Any) -> list[tuple]:
    """Invocations registered for the launched task, as (tag, val) of their keyword arguments."""
    out = []
    for i in app.orchestrator.get_task_invocation_ids(target_task.task_id):
        kw = app.state_backend.get_invocation(i).arguments.kwargs
        out.append((kw.get("tag"), kw.get("val")))
    return sorted(out, key=repr)


def finish_src(app: Any, src_task: Any, x: int, fail: int, rc: Any) -> None:
    """One real source invocation from submission to its final status through the worker path
    (get_invocations_to_run + invocation.run); launched target invocations that are ahead of it
    in the queue are run as well (their body is empty)."""
    inv = src_task(x, fail)
    for _ in range(64):
        if app.orchestrator.get_invocation_status(inv.invocation_id).is_final():
            return
        for got in list(app.orchestrator.get_invocations_to_run(1, rc)):
            try:
                got.run(rc)
            except sched.Abort:
                raise
            except Exception:  # noqa: BLE001 - run() re-raises the body's exception after recording it
                pass
    raise sched.HarnessError("source invocation did not reach a final status")


# ---------------------------------------------------------------------------
# reference model (from the property text)
# ---------------------------------------------------------------------------
class Model:
    """Pending occurrences per condition. An occurrence = (condition, arguments derived from it)."""

    def __init__(self, cfg: dict) -> None:
        self.conds = tuple(cfg["conds"])
        self.logic = cfg["logic"]
        self.pending: list[tuple] = []
        self.nsrc = 0
        self.launched_conds: set = set()  # conditions that have launched before

    def occurrence(self, op: tuple) -> None:
        if op[0] == "emit":
            if op[1] in self.conds:
                self.pending.append((op[1], (f"event:{op[1]}", op[2])))
        elif op[0] == "ok":
            self.nsrc += 1
            if "st" in self.conds:
                self.pending.append(("st", ("status", self.nsrc)))
            if "rs" in self.conds:
                self.pending.append(("rs", ("result", self.nsrc * 10)))
        elif op[0] == "fail":
            self.nsrc += 1
            if "ex" in self.conds:
                self.pending.append(("ex", ("exception", self.nsrc)))

    def would_be_pending(self, op: tuple) -> list[tuple]:
        m = Model(dict(conds=self.conds, logic=self.logic))
        m.pending = list(self.pending)
        m.nsrc = self.nsrc
        m.occurrence(op)
        return m.pending

    # -- the loop iteration ------------------------------------------------
    def judge_loop(self, recorded: list[tuple], new: list[tuple], remaining: list[tuple]) -> tuple | None:
        """recorded: the store's pending valid conditions before the iteration; new: launches of the
        iteration; remaining: the store's pending valid conditions afterwards.
        Returns (signature, detail) of the first broken clause, else None (and moves on)."""
        if self.logic == "and":
            return self._judge_and(recorded, new, remaining)
        pend = list(self.pending)
        E = Counter(a for _, a in pend)
        O = Counter(new)
        nE, nO = sum(E.values()), sum(O.values())
        per = Counter(c for c, _ in pend)
        rec = Counter(c for c, _ in recorded)
        detail = {"pending_occurrences": pend, "valid_conditions_before_loop": recorded, "launched_by_this_loop": new,
                  "valid_conditions_after_loop": remaining}
        if nO < nE:
            deficit = {c for c in per if rec[c] < per[c]}
            how = "fewer" if deficit else ("all" if len(recorded) == nE else "more")
            if len(per) == 1:
                # every pending occurrence belongs to one condition: the attribution is exact
                c = next(iter(per))
                sig = {"clause": "occurrence-not-launched", "logic": self.logic, "kinds": [KIND[c]],
                       "pending_same_condition": min(per[c], 2), "recorded": how}
                if per[c] == 1:
                    sig["earlier_launch_same_condition"] = c in self.launched_conds
            else:
                # occurrences of several conditions are pending: the arguments of the launches do not say
                # reliably which one was dropped (see the arguments clause), so it is not attributed
                sig = {"clause": "occurrence-not-launched", "logic": self.logic, "pending": "several-conditions",
                       "recorded": how}
            return sig, detail
        if nO > nE:
            return ({"clause": "launched-more-than-once", "logic": self.logic, "kinds": sorted({KIND[c] for c in per}),
                     "expected": min(nE, 2), "surplus": min(nO - nE, 2)}, detail)
        if O != E:
            one = len(set(O)) == 1 and next(iter(O)) in E and nE > 1
            return ({"clause": "launch-arguments-not-from-its-occurrence", "logic": self.logic,
                     "pattern": "every-launch-carries-the-arguments-of-one-occurrence" if one else "other"}, detail)
        if remaining:
            return ({"clause": "occurrence-still-pending-after-its-launch", "logic": self.logic,
                     "kinds": sorted({KIND.get(c, "?") for c, _ in remaining})}, detail)
        self.launched_conds |= set(per)
        self.pending = []
        return None

    def _judge_and(self, recorded: list[tuple], new: list[tuple], remaining: list[tuple]) -> tuple | None:
        pend = list(self.pending)
        per = Counter(c for c, _ in pend)
        rem = Counter(c for c, _ in remaining)
        detail = {"pending_occurrences": pend, "valid_conditions_before_loop": recorded, "launched_by_this_loop": new,
                  "valid_conditions_after_loop": remaining}
        k = len(new)
        unknown = Counter(remaining) - Counter(pend)
        fire = all(per[c] >= 1 for c in self.conds)
        if not fire:
            if k:
                return ({"clause": "and-launched-without-all-conditions", "logic": "and",
                         "absent": sorted({KIND[c] for c in self.conds if per[c] == 0})}, detail)
            gone = sorted({KIND[c] for c in per if rem[c] == 0})
            if gone:
                return {"clause": "occurrence-consumed-without-launch", "logic": "and", "kinds": gone}, detail
        else:
            if k == 0:
                return ({"clause": "and-not-launched-with-all-conditions-pending", "logic": "and",
                         "pending_same_condition": min(max(per.values()), 2)}, detail)
            if k > min(per[c] for c in self.conds):
                return ({"clause": "launched-more-than-once", "logic": "and", "kinds": sorted({KIND[c] for c in per}),
                         "expected": 1, "surplus": min(k - min(per[c] for c in self.conds), 2)}, detail)
            allowed = {a for _, a in pend}
            if any(a not in allowed for a in new):
                return {"clause": "launch-arguments-not-from-its-occurrence", "logic": "and", "pattern": "other"}, detail
            over = sorted({KIND[c] for c in self.conds if rem[c] > per[c] - k})
            if over:
                return {"clause": "occurrence-still-pending-after-its-launch", "logic": "and", "kinds": over}, detail
            self.launched_conds |= set(per)
        if unknown:
            return ({"clause": "unknown-pending-occurrence", "logic": "and",
                     "kinds": sorted({KIND.get(c, "?") for c, _ in unknown})}, detail)
        # which of several pending occurrences of one condition an AND launch consumed is left open:
        # the model follows the store within the allowed set
        self.pending = list(remaining)
        return None


# ---------------------------------------------------------------------------
# the implementation under a history
# ---------------------------------------------------------------------------
class Impl:
    def __init__(self, backend: str, cfg: dict) -> None:
        self.backend = backend
        self.name = backend
        self.cfg = cfg

    def reset(self) -> None:
        from pynenc.runner.runner_context import RunnerContext

        env.reset_world()
        if self.backend == env.MEM:
            self.app = env.make_app(env.MEM, app_id=APP_ID)
        else:
            self.app = env.make_app(env.SQLITE, app_id=APP_ID, db=env.reuse_db(APP_ID))
        self.src = tasks.bind(self.app, T.src)
        tb = make_builder(self.cfg["conds"], self.cfg["logic"], self.src)
        self.target = tasks.bind(self.app, T.target, triggers=tb)  # public decorator option
        self.app.register_deferred_triggers()  # what a runner does when it starts
        self.rc = RunnerContext("VfRunner", "r1")
        self.model = Model(self.cfg)
        self.launched: list[tuple] = []
        self.nsrc = 0

    def step(self, op: tuple) -> tuple | None:
        """Apply one operation to the real components, observe, judge. Returns (signature, detail) or None."""
        recorded = None
        try:
            if op[0] == "emit":
                self.app.trigger.emit_event(op[1], {"v": op[2]})
            elif op[0] in ("ok", "fail"):
                self.nsrc += 1
                finish_src(self.app, self.src, self.nsrc, 1 if op[0] == "fail" else 0, self.rc)
            elif op[0] == "loop":
                recorded = describe_valid_conditions(self.app)
                self.app.trigger.trigger_loop_iteration()
            else:
                raise ValueError(op)
        except (sched.HarnessError, ValueError):
            raise
        except Exception as e:  # noqa: BLE001 - an operation of the alphabet never raises
            return ({"clause": "operation-raised", "op": op[0], "logic": self.cfg["logic"], "error": type(e).__name__},
                    {"message": str(e)[:300]})
        self.app.state_backend.wait_for_all_async_operations()
        now = read_launched(self.app, self.target)
        new = Counter(now) - Counter(self.launched)
        if Counter(self.launched) - Counter(now):
            return ({"clause": "launched-invocation-disappeared", "op": op[0], "logic": self.cfg["logic"]},
                    {"before": self.launched, "after": now})
        self.launched = now
        new_l = sorted(new.elements(), key=repr)
        if op[0] != "loop":
            self.model.occurrence(op)
            if new_l:
                return ({"clause": "launch-without-loop-iteration", "op": op[0], "logic": self.cfg["logic"]},
                        {"launched": new_l})
            return None
        return self.model.judge_loop(recorded, new_l, describe_valid_conditions(self.app))

    def key(self) -> tuple:
        """Canonical concrete state: pending valid conditions, launched invocations, number of source
        invocations, number of run claims (ids, hashes and timestamps masked)."""
        trg = self.app.trigger
        if self.backend == env.MEM:
            nclaims = len(trg._trigger_run_claims)
        else:
            from pynenc.util.sqlite_utils import create_sqlite_connection

            with create_sqlite_connection(trg.sqlite_db_path) as conn:
                cur = conn.execute(f"SELECT COUNT(*) FROM {trg.tables.TRIGGER_RUN_CLAIMS}")
                nclaims = cur.fetchone()[0]
                cur.close()
        # the reference model's pending occurrences are part of the key: a state in which the store has
        # already lost an occurrence must not be merged with one in which it never existed
        return (tuple(describe_valid_conditions(self.app)), tuple(self.launched), self.nsrc, nclaims,
                tuple(sorted(self.model.pending)))


# ---------------------------------------------------------------------------
# alphabets
# ---------------------------------------------------------------------------
def relevant_ops(cfg: dict, thorough: bool) -> list[tuple]:
    """Operations that can produce an occurrence for the configuration, one operation that cannot
    (it must stay without effect), and the loop iteration. Thorough: the whole alphabet."""
    if thorough:
        return list(OPS)
    conds = cfg["conds"]
    ops: list[tuple] = []
    if "e1" in conds:
        ops += [("emit", "e1", 1), ("emit", "e1", 2)]
    if "e2" in conds:
        ops += [("emit", "e2", 1)]
    if "st" in conds or "rs" in conds:
        ops += [("ok",)]
    if "ex" in conds:
        ops += [("fail",)]
    for irrelevant in (("emit", "e2", 1), ("fail",), ("ok",), ("emit", "e1", 1)):
        if irrelevant not in ops:
            ops.append(irrelevant)
            break
    return ops + [("loop",)]


def allowed(cfg: dict, alph: str, model: Model, hist: list, op: tuple) -> bool:
    """full: everything. one: never two pending occurrences of one condition (OR: never two pending
    occurrences at all, unless one operation produces both), so that the one-run-id-for-all and the
    arguments-of-the-first-context defects cannot occur. one-x: additionally at most one exception
    occurrence per history (the exception context id is not unique)."""
    if alph == "full" or op[0] == "loop":
        return True
    after = model.would_be_pending(op)
    per = Counter(c for c, _ in after)
    if per and max(per.values()) > 1:
        return False
    if cfg["logic"] == "or" and len(after) > 1 and model.pending:
        return False
    if alph == "one-x" and op[0] == "fail" and "ex" in cfg["conds"] and any(o[0] == "fail" for o in hist):
        return False
    return True


# ---------------------------------------------------------------------------
# BFS unit
# ---------------------------------------------------------------------------
def _bfs_unit(item: tuple) -> Partial:
    name, alph, depth, thorough = item
    cfg = CONFIGS[name]
    p = Partial()
    impls = [Impl(env.MEM, cfg), Impl(env.SQLITE, cfg)]
    ops = relevant_ops(cfg, thorough)

    def rebuild(hist: list) -> None:
        for s in impls:
            s.reset()
            for o in hist:
                if s.step(o) is not None:
                    raise sched.HarnessError(f"replay of a clean history violates: {name} {hist}")

    rebuild([])
    seen = {tuple(s.key() for s in impls)}
    frontier: list[tuple] = [([], Model(cfg))]
    reported: set = set()
    ntrans = 0
    done_depth = 0
    sample = None
    for d in range(depth):
        nxt: list[tuple] = []
        for hist, msnap in frontier:
            for op in ops:
                if not allowed(cfg, alph, msnap, hist, op):
                    continue
                rebuild(hist)
                verdicts = [s.step(op) for s in impls]
                ntrans += 1
                bad = [(s.name, v) for s, v in zip(impls, verdicts) if v is not None]
                if bad:
                    same = len(bad) == len(impls) and len({repr(sorted(v[0].items())) for _, v in bad}) == 1
                    sig = dict(bad[0][1][0])
                    sig["impl"] = "all" if same else bad[0][0]
                    k = repr(sorted(sig.items()))
                    if k not in reported:
                        reported.add(k)
                        detail = dict(bad[0][1][1])
                        detail.update(config=name, alphabet=alph, history=hist + [op],
                                      per_impl=[(n, v[0]) for n, v in bad])
                        p.violation(sig, detail, {"kind": "history", "part": "occ", "config": name,
                                                  "history": hist + [op]})
                    continue  # a violating state is not expanded
                key = tuple(s.key() for s in impls)
                if key[0] != key[1]:
                    sig = {"clause": "stores-differ", "op": op[0], "logic": cfg["logic"]}
                    k = repr(sorted(sig.items()))
                    if k not in reported:
                        reported.add(k)
                        p.violation(sig, {"config": name, "history": hist + [op], "mem": key[0], "sqlite": key[1]},
                                    {"kind": "history", "part": "occ", "config": name, "history": hist + [op]})
                    continue
                if key not in seen:
                    seen.add(key)
                    m = Model(cfg)
                    m.pending = list(impls[0].model.pending)
                    m.nsrc = impls[0].model.nsrc
                    nxt.append((hist + [op], m))
                    if op[0] == "loop" and impls[0].launched:
                        sample = {"config": name, "alphabet": alph, "history": hist + [op],
                                  "launched": impls[0].launched, "pending": list(key[0][0])}
        frontier = nxt
        done_depth = d + 1
        if not frontier:
            break
    p.count("transitions", ntrans)
    p.count("bfs_states", len(seen))
    p.count("traces_validated_against_impl", ntrans)
    p.count("bfs_units")
    p.max("depth_completed", done_depth)
    p.add("configs_explored", name)
    if sample is not None:
        p.sample(sample)
    return p


def replay_history(r: dict) -> bool:
    cfg = CONFIGS[r["config"]]
    bad = False
    for backend in env.BACKENDS:
        s = Impl(backend, cfg)
        s.reset()
        for op in r["history"]:
            v = s.step(tuple(op))
            if v is not None:
                print(f"  replayed ({backend}):", v[0])
                bad = True
                break
    return bad


# ---------------------------------------------------------------------------
# PART A2: two triggers that share a condition
# ---------------------------------------------------------------------------
SHARED = {"S": (("e1",), "single"), "A": (("e2", "e1", "st"), "and")}
SHARED_OPS = [("emit", "e1", 1), ("emit", "e2", 1), ("ok",), ("loop",)]


def shared_histories(depth: int) -> list[tuple]:
    """every sequence of <= depth operations in which each occurrence (e1, e2, source success) happens at most once,
    no two loop iterations follow each other, and the last operation is a loop iteration."""
    out: list[tuple] = []

    def rec(h: tuple) -> None:
        if h and h[-1] == ("loop",):
            out.append(h)
        if len(h) == depth:
            return
        for op in SHARED_OPS:
            if op == ("loop",):
                if not h or h[-1] == ("loop",):
                    continue
            elif op in h:
                continue
            rec(h + (op,))

    rec(())
    return out


def _run_shared(backend: str, hist: tuple) -> tuple | None:
    """task S launched by e1 alone, task A by e2 AND e1 AND source success: after every loop iteration each has been
    launched exactly once iff all its conditions have occurred (each occurrence happens once per history)."""
    from pynenc.runner.runner_context import RunnerContext

    env.reset_world()
    if backend == env.MEM:
        app = env.make_app(env.MEM, app_id=APP_ID)
    else:
        app = env.make_app(env.SQLITE, app_id=APP_ID, db=env.reuse_db(APP_ID))
    src = tasks.bind(app, T.src)
    tS = tasks.bind(app, T.target, triggers=make_builder(*SHARED["S"], src))
    tA = tasks.bind(app, T.target2, triggers=make_builder(*SHARED["A"], src))
    app.register_deferred_triggers()
    rc = RunnerContext("VfRunner", "r1")
    seen: set = set()
    for k, op in enumerate(hist):
        if op[0] == "emit":
            app.trigger.emit_event(op[1], {"v": op[2]})
            seen.add(op[1])
        elif op[0] == "ok":
            finish_src(app, src, 1, 0, rc)
            seen.add("st")
        else:
            app.trigger.trigger_loop_iteration()
        app.state_backend.wait_for_all_async_operations()
        if op[0] != "loop":
            continue
        for name, task in (("S", tS), ("A", tA)):
            conds, logic = SHARED[name]
            want = 1 if all(c in seen for c in conds) else 0
            got = len(read_launched(app, task))
            if got != want:
                clause = ("shared-condition:trigger-not-launched-although-all-its-conditions-occurred" if got < want
                          else "shared-condition:trigger-launched-more-than-once" if want
                          else "shared-condition:trigger-launched-without-all-its-conditions")
                return ({"clause": clause, "logic": logic, "conditions": len(conds)},
                        {"backend": backend, "history": [list(o) for o in hist[: k + 1]], "trigger": name,
                         "launches": got, "expected": want, "occurred": sorted(seen)})
    return None


def _shared_unit(item: tuple) -> Partial:
    backend, depth = item
    p = Partial()
    reported: set = set()
    for hist in shared_histories(depth):
        bad = _run_shared(backend, hist)
        p.count("shared_condition_histories")
        p.count("transitions", len(hist))
        p.count("traces_validated_against_impl")
        if bad:
            sig = dict(bad[0], backend=backend)
            k = repr(sorted(sig.items()))
            if k not in reported:
                reported.add(k)
                p.violation(sig, bad[1], {"kind": "history", "part": "occ-shared", "backend": backend,
                                          "history": [list(o) for o in hist]})
    return p


# ---------------------------------------------------------------------------
# PART B: schedules
# ---------------------------------------------------------------------------
POINT_MODULES = ["pynenc.trigger.mem_trigger", "pynenc.trigger.base_trigger"]

# scenario -> (triggers [(conds, logic)], pending occurrences produced sequentially in set-up,
#              occurrence emitted by a third concurrent actor or None, event callback, expected launches)
SCENARIOS: dict[str, dict] = {
    "single": dict(triggers=[(("e1",), "single")], pending=[("emit", "e1", 1)], emit=None,
                   expect=[("event:e1", 1)]),
    "result": dict(triggers=[(("rs",), "single")], pending=[("ok",)], emit=None, expect=[("result", 10)]),
    "two-triggers": dict(triggers=[(("e1",), "single"), (("e2",), "single")],
                         pending=[("emit", "e1", 1), ("emit", "e2", 1)], emit=None,
                         expect=[("event:e1", 1), ("event:e2", 1)]),
    "or": dict(triggers=[(("e1", "e2"), "or")], pending=[("emit", "e1", 1), ("emit", "e2", 1)], emit=None,
               val_only=True, expect=[("event", 1), ("event", 1)]),
    "and": dict(triggers=[(("e1", "e2"), "and")], pending=[("emit", "e1", 1), ("emit", "e2", 1)], emit=None,
                val_only=True, expect=[("event", 1)]),
    "emit": dict(triggers=[(("e1",), "single"), (("e2",), "single")], pending=[("emit", "e1", 1)],
                 emit=("e2", 1), expect=[("event:e1", 1), ("event:e2", 1)]),
    # a second occurrence of the SAME condition reported concurrently: the trigger declares OR logic on
    # its one condition (one run id per occurrence) and both occurrences carry the same payload, so that
    # neither the one-run-id-for-all nor the arguments-of-the-first-context finding of the history part
    # is involved and the count of launches is judged
    "emit-same": dict(triggers=[(("e1",), "or")], pending=[("emit", "e1", 1)], emit=("e1", 1), val_only=True,
                      expect=[("event", 1), ("event", 1)]),
}


class Scn:
    def __init__(self, desc: dict) -> None:
        self.desc = desc
        self.points = (POINT_MODULES, "line") if desc["backend"] == env.MEM else None

    def execute(self, choices: list[int], expect: Any) -> sched.Execution:
        from pynenc.runner.runner_context import RunnerContext

        d = self.desc
        sc = SCENARIOS[d["scenario"]]
        nact = 2 + (1 if sc["emit"] else 0)
        env.reset_world()
        tasks.HOOKS.clear()
        if d["backend"] == env.MEM:
            app = env.make_app(env.MEM, app_id=APP_ID)
            apps = [app] * (nact + 1)
            distinct = [app]
        else:
            db = env.reuse_db(APP_ID + "s")
            apps = [env.make_app(env.SQLITE, app_id=APP_ID, db=db) for _ in range(nact + 1)]
            distinct = list(apps)
        claims: list[tuple] = []
        targets = []
        srcs = []
        for a in distinct:
            s = tasks.bind(a, T.src)
            cb = T.from_event_val if sc.get("val_only") else None
            tbs = [make_builder(conds, logic, s, cb) for conds, logic in sc["triggers"]]
            t = tasks.bind(a, T.target, triggers=tbs)
            a.register_deferred_triggers()
            srcs.append(s)
            targets.append(t)
            self._log_claims(a.trigger, claims)
        client = apps[-1]
        rc = RunnerContext("VfRunner", "r0")
        for op in sc["pending"]:
            if op[0] == "emit":
                client.trigger.emit_event(op[1], {"v": op[2]})
            else:
                finish_src(client, srcs[-1], 1, 0, rc)
        client.state_backend.wait_for_all_async_operations()
        errors: list[tuple] = []

        def looper(j: int) -> Any:
            def f() -> None:
                try:
                    apps[j].trigger.trigger_loop_iteration()
                except sched.Abort:
                    raise
                except Exception as e:  # noqa: BLE001
                    errors.append((j, type(e).__name__, str(e)[:200]))
            return f

        actors = [(f"loop{j}", looper(j)) for j in range(2)]
        if sc["emit"]:
            ev = sc["emit"]

            def emitter() -> None:
                try:
                    apps[2].trigger.emit_event(ev[0], {"v": ev[1]})
                except sched.Abort:
                    raise
                except Exception as e:  # noqa: BLE001
                    errors.append((2, type(e).__name__, str(e)[:200]))

            actors.append(("emit", emitter))
        s = sched.Scheduler(choices, expect, max_points=8000, lazy=("_add_histories",))
        ex = s.run(actors)
        # read-out after the concurrent part, then one sequential loop iteration
        client.state_backend.wait_for_all_async_operations()
        ex.during = read_launched(client, targets[-1])
        ex.final_error = None
        try:
            client.trigger.trigger_loop_iteration()
        except Exception as e:  # noqa: BLE001
            ex.final_error = type(e).__name__
        client.state_backend.wait_for_all_async_operations()
        ex.launched = read_launched(client, targets[-1])
        ex.pending_after = describe_valid_conditions(client)
        ex.claims = list(claims)
        ex.errors = errors
        return ex

    @staticmethod
    def _log_claims(trg: Any, log: list) -> None:
        orig = trg.claim_trigger_run

        def wrapped(run_id: str, *a: Any, **k: Any) -> bool:
            r = orig(run_id, *a, **k)
            s = sched.ACTIVE
            me = s.me() if s is not None else None
            log.append((me.tid if me is not None else -1, run_id, bool(r)))
            return r

        trg.claim_trigger_run = wrapped

    def digest(self, ex: sched.Execution) -> Any:
        won = Counter(rid for _, rid, ok in ex.claims if ok)
        return (tuple(ex.during), tuple(ex.launched), tuple(ex.pending_after), tuple(sorted(won.values())),
                tuple((j, n) for j, n, _ in ex.errors), ex.final_error, ex.outcome)

    def check(self, ex: sched.Execution, p: Partial) -> None:
        d = self.desc
        sc = SCENARIOS[d["scenario"]]
        base = dict(backend=d["backend"], scenario=d["scenario"])
        detail = {"launched": ex.launched, "launched_before_final_loop": ex.during, "expected": sc["expect"],
                  "claims": [(t, r[:8], ok) for t, r, ok in ex.claims], "errors": ex.errors,
                  "pending_after": ex.pending_after}
        if ex.outcome != "done":
            p.violation({"clause": f"no-progress:{ex.outcome}", **base}, detail, {})
            return
        if ex.final_error:
            p.violation({"clause": f"sequential-loop-iteration-raised:{ex.final_error}", **base}, detail, {})
            return
        for _j, what, _msg in ex.errors:
            # a concurrent iteration that raises has still "run": the property is judged on the launches
            # (recorded as an observation, see notes/c13_occ.md)
            p.count("concurrent_loop_iterations_raising")
            note = f"a concurrent loop iteration / emit raised {what} ({d['backend']}); judged on the launches only"
            if note not in p.notes:
                p.notes.append(note)
        E, O = Counter(sc["expect"]), Counter(ex.launched)
        nE, nO = sum(E.values()), sum(O.values())
        if nO > nE:
            won = Counter(rid for _, rid, ok in ex.claims if ok)
            twice = any(n > 1 for n in won.values())
            # schedule-independent identity: what let the second launch through
            if twice:
                # which scenario / how many deviations exposed it does not identify this failure
                self._classified(p, {"clause": "launched-more-than-once", "backend": d["backend"],
                                     "cause": "two-claims-of-one-run-id-succeeded", "_no_windows": True},
                                 dict(detail, scenario=d["scenario"]))
            else:
                self._classified(p, {"clause": "launched-more-than-once", **base, "cause": "launch-without-own-claim",
                                     "_no_windows": True}, detail)
            return
        if nO < nE:
            p.violation({"clause": "occurrence-not-launched", **base}, detail, {})
            return
        if O != E:
            p.violation({"clause": "launch-arguments-not-from-its-occurrence", **base}, detail, {})
            return
        if ex.pending_after:
            p.violation({"clause": "occurrence-still-pending-after-its-launch", **base}, detail, {})


    @staticmethod
    def _classified(p: Partial, sig: dict, detail: dict) -> None:
        """A violation whose signature is schedule independent is recorded once per unit of work (a subtree
        of schedules) and counted afterwards: the glue stops a subtree after a few recorded violations,
        and the rest of the subtree must still be explored when this one is a recorded finding."""
        from vf.report import canon

        key = canon(sig)
        p.count("executions_with_classified_violation")
        if key in p.sets.get("classified_violations", ()):
            return
        p.add("classified_violations", key)
        p.violation(sig, detail, {})


def build(desc: dict) -> Scn:
    return Scn(desc)


def sched_descs(ctx: Ctx) -> list[dict]:
    out = []
    th = ctx.thorough
    for backend in env.BACKENDS:
        mem = backend == env.MEM
        for scn in SCENARIOS:
            heavy = scn in ("two-triggers", "or", "emit", "emit-same")
            if mem:
                bound = (2 if not heavy else 1) if not th else 2
                if not th and scn in ("result", "and"):
                    bound = 1
            else:
                bound = (2 if not heavy else 1) if not th else (3 if scn in ("single", "and") else 2)
            out.append(dict(backend=backend, scenario=scn, bound=bound))
    return out


# ---------------------------------------------------------------------------
# entry points
# ---------------------------------------------------------------------------
def bfs_items(ctx: Ctx) -> list[tuple]:
    th = ctx.thorough
    items = []
    for name, cfg in CONFIGS.items():
        n = len(cfg["conds"])
        full_d = (6 if n < 3 else 5) if th else (4 if n < 3 else 3)
        one_d = (7 if n < 3 else 6) if th else (5 if n < 3 else 4)
        items.append((name, "full", full_d, th))
        items.append((name, "one", one_d, th))
        if "ex" in cfg["conds"] and cfg["logic"] != "and":
            items.append((name, "one-x", one_d, th))
    return items


def run_part(ctx: Ctx) -> None:
    t0 = os.times()
    only = getattr(ctx, "only", None)
    items = bfs_items(ctx)
    if only:
        items = [it for it in items if only in f"hist:{it[0]}:{it[1]}"]
    # heaviest first (deeper, more conditions), deterministic
    items.sort(key=lambda it: (-it[2], -len(CONFIGS[it[0]]["conds"]), it[0], it[1]))
    if items:
        rot = ctx.seed % len(items)
        for part in par.pmap(_bfs_unit, items[rot:] + items[:rot]):
            ctx.merge(part)
    if not only or "shared" in only:
        for part in par.pmap(_shared_unit, [(b, 6) for b in env.BACKENDS]):
            ctx.merge(part)
    ds = sched_descs(ctx)
    if only:
        ds = [d for d in ds if only in f"sched:{d['backend']}:{d['scenario']}"]
    if ds:
        e1.explore_all(ctx, MOD, ds, lambda d: d["bound"])
        for v in ctx.violations:
            sig = v["signature"]
            if (v.get("replay", {}).get("module") == MOD and "deviations" in sig
                    and sig.get("cause") == "two-claims-of-one-run-id-succeeded"):
                # schedule-independent identity (the glue adds the size of the minimised schedule)
                v["detail"]["deviations_of_minimised_schedule"] = sig.pop("deviations")
    t1 = os.times()
    ctx.extra["occ_cpu_s"] = round((t1.user + t1.system + t1.children_user + t1.children_system)
                                   - (t0.user + t0.system + t0.children_user + t0.children_system), 1)
    ctx.extra["occ_bfs_units"] = len(items)
    ctx.extra["occ_depths"] = {f"{it[0]}/{it[1]}": it[2] for it in items}
    ctx.rule = (
        f"histories: {len(CONFIGS)} trigger configurations (every 1-3 subset of event e1 / event e2 / status SUCCESS / "
        "result / exception of one source task; default logic for one condition, OR and AND otherwise; one argument "
        "provider per kind of occurrence), each explored breadth-first on the in-memory and the SQLite stack over "
        "emit(e1,1) emit(e1,2) emit(e2,1) finish-with-result finish-with-exception loop-iteration (quick: the operations "
        "that concern the configuration plus one that does not) with three alphabets: full, `one` (never two pending "
        "occurrences of one condition; OR: never two pending occurrences), `one-x` (additionally one exception occurrence "
        "per history); depths in extra.occ_depths; every transition replays the history on fresh real components and is "
        "judged by the reference multiset model; shared condition: a task launched by e1 alone and a task launched by "
        "e2 AND e1 AND source-success, every history (all 39: <= 6 operations) in which each occurrence happens at most once "
        "and loop iterations are interleaved anywhere, each task launched exactly once iff all its conditions occurred; schedules: two concurrent trigger_loop_iteration (+ one concurrent "
        "emit_event) over 1-2 pending occurrences, every schedule with <= bound deviations (extra.bounds), line points "
        "in mem_trigger/base_trigger (one shared trigger object) or SQL-statement points (one app object per process), "
        "then one sequential loop iteration")
    ctx.assume("status occurrences are restricted to the final status SUCCESS of the source task (a non-final status "
               "entered twice by one invocation has the same context id by construction and is not a new occurrence)")
    ctx.assume("AND reading: a loop iteration launches an AND trigger iff at least one occurrence of each of its conditions "
               "is pending; with one pending occurrence per condition it launches once and consumes them all; with several "
               "pending occurrences of a condition 1..min(count) launches are accepted, each with arguments derived from a "
               "pending occurrence, at least as many occurrences per condition consumed as launches made, and whether the "
               "surplus stays pending is left open (the model follows the store); without a launch at least one occurrence "
               "of every pending condition stays pending")
    ctx.assume("single-condition and OR triggers: after a loop iteration the launches of that iteration are exactly the "
               "multiset of arguments derived from the pending occurrences, and no valid condition stays in the store")
    ctx.assume("launches are made by loop iterations only; claims do not expire within a history (virtual clock ticks "
               "1 microsecond per read)")
    ctx.assume("argument providers are declared most specific context type first (ResultContext and ExceptionContext "
               "subclass StatusContext, a status provider declared first also answers for result / exception occurrences)")
    ctx.assume("schedule part: the concurrent emit_event concerns another trigger than the pending occurrence, or the same "
               "condition of a trigger that declares OR logic with equal payloads (two pending occurrences of one condition "
               "under the default logic are the sequential finding of the history part); a concurrent loop iteration that "
               "raises is counted (concurrent_loop_iterations_raising) and judged on the launches")


def replay_part(payload: dict) -> bool:
    r = payload.get("replay", {})
    if r.get("kind") == "schedule":
        return e1.replay_schedule(r)
    if r.get("kind") == "history" and r.get("part", "occ") == "occ" and r.get("config") in CONFIGS:
        return replay_history(r)
    if r.get("kind") == "history" and r.get("part") == "occ-shared":
        return _run_shared(r["backend"], tuple(tuple(o) for o in r["history"])) is not None
    return False
