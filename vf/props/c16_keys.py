"""C16, key-lookup part: argument look-ups with several key pairs, look-ups as operations.

The main C16 alphabets use one-argument tasks and put the queries into the read-out of every state.
Here the look-up itself is an *operation* of the history (a look-up that changes what a later look-up
returns is a divergence between the implementations), over a task with two arguments whose calls
overlap in one argument: every sequence of <= depth operations out of
  reg(i)            register + index call i of {(0,0), (0,1), (1,0), (1,1)}   (at most once each)
  run(i)            REGISTERED -> PENDING -> RUNNING for a registered call
  look(pairs, set)  get_existing_invocations(task, pairs, statuses) for every non-empty pair subset
                    of one call's arguments
on the in-memory and the SQLite orchestrator against a model that filters the registered calls.
"""

from __future__ import annotations

from typing import Any

from vf import bfs, env, par, tasks, tasks_c16
from vf.report import Ctx, Partial
from vf.worlds import runner_ctx

CALLS = [(0, 0), (0, 1), (1, 0), (1, 1)]
PAIRSETS = [{"a": 0}, {"a": 1}, {"b": 0}, {"b": 1}, {"a": 0, "b": 0}, {"a": 0, "b": 1}, {"a": 1, "b": 0}, {"a": 1, "b": 1},
            {"b": 1, "a": 0}]
STSETS = {"*": None, "REG": ["REGISTERED"], "RUN": ["RUNNING"]}


class Impl(bfs.System):
    def __init__(self, backend: str) -> None:
        self.backend = backend
        self.name = backend

    def reset(self) -> None:
        from pynenc.arguments import Arguments
        from pynenc.call import Call
        from pynenc.identifiers.invocation_id import generate_invocation_id
        from pynenc.invocation.dist_invocation import DistributedInvocation
        from pynenc.workflow.workflow_identity import WorkflowIdentity

        env.reset_world()
        db = env.reuse_db("c16k") if self.backend == env.SQLITE else None
        self.app = app = env.make_app(self.backend, app_id="c16k", db=db)
        self.task = tasks.bind(app, tasks_c16.tc)
        self.invs = []
        for a, b in CALLS:
            iid = generate_invocation_id()
            self.invs.append(DistributedInvocation(Call(self.task, Arguments({"a": a, "b": b})), iid, None,
                                                   WorkflowIdentity.new_workflow(iid, self.task.task_id), stored_in_backend=True))
        self.idx = {str(i.invocation_id): k for k, i in enumerate(self.invs)}
        self.ser = {v: app.client_data_store.serialize(v) for v in (0, 1)}
        self.hist: list = []

    def _look(self, pairs: dict, sk: str) -> Any:
        from pynenc.invocation.status import InvocationStatus as S

        st = None if STSETS[sk] is None else [S[x] for x in STSETS[sk]]
        key = {k: self.ser[v] for k, v in pairs.items()}
        return tuple(sorted(self.idx[str(x)] for x in self.app.orchestrator.get_existing_invocations(self.task, key, st)))

    def apply(self, op: tuple) -> Any:
        from pynenc.invocation.status import InvocationStatus as S

        self.hist.append(op)
        o = self.app.orchestrator

        def go() -> Any:
            if op[0] == "reg":
                o.register_new_invocations([self.invs[op[1]]])
                o.index_arguments_for_concurrency_control(self.invs[op[1]])
                return None
            if op[0] == "run":
                o.set_invocation_status(self.invs[op[1]].invocation_id, S.PENDING, runner_ctx("r1"))
                o.set_invocation_status(self.invs[op[1]].invocation_id, S.RUNNING, runner_ctx("r1"))
                return None
            if op[0] == "look":
                return self._look(PAIRSETS[op[1]], op[2])
            raise ValueError(op)
        return bfs.outcome(go)

    def dump(self) -> Any:
        # no merging on concrete state: a look-up that leaves a trace is exactly what is searched for, so a
        # state is its history with the look-ups kept
        return tuple(self.hist)

    def readout(self) -> Any:
        return tuple((i, sk, self._look(p, sk)) for i, p in enumerate(PAIRSETS) for sk in ("*", "REG"))


class Model(bfs.System):
    name = "model"

    def reset(self) -> None:
        self.st: dict[int, str] = {}

    def _look(self, pairs: dict, sk: str) -> Any:
        want = STSETS[sk]
        return tuple(sorted(i for i, s in self.st.items() if (want is None or s in want)
                            and all(dict(a=CALLS[i][0], b=CALLS[i][1])[k] == v for k, v in pairs.items())))

    def apply(self, op: tuple) -> Any:
        if op[0] == "reg":
            self.st[op[1]] = "REGISTERED"
            return ("ok", None)
        if op[0] == "run":
            self.st[op[1]] = "RUNNING"
            return ("ok", None)
        return ("ok", self._look(PAIRSETS[op[1]], op[2]))

    def dump(self) -> Any:
        return tuple(sorted(self.st.items()))

    def readout(self) -> Any:
        return tuple((i, sk, self._look(p, sk)) for i, p in enumerate(PAIRSETS) for sk in ("*", "REG"))


def alphabet(hist: list) -> list:
    reg = {op[1] for op in hist if op[0] == "reg"}
    ran = {op[1] for op in hist if op[0] == "run"}
    ops: list = [("reg", i) for i in range(len(CALLS)) if i not in reg]
    ops += [("run", i) for i in sorted(reg - ran)]
    if reg:
        ops += [("look", j, sk) for j in range(len(PAIRSETS)) for sk in ("*", "RUN")]
    return ops


def _unit(item: tuple) -> Partial:
    prefix, depth = item
    p = Partial()
    impls = [Impl(b) for b in env.BACKENDS]
    # the prefix itself is judged by the unit that owns it (depth 0 of the search = compare after the last prefix op)
    st = bfs.explore(p, impls, Model(), alphabet, depth - len(prefix), tag="orch/key-lookups", init_history=list(prefix))
    p.count("bfs_states", st["states"])
    p.count("keys_part_transitions", st["transitions"])
    p.count("traces_validated_against_impl", st["transitions"])
    p.max("depth_completed", depth)
    return p


def run_part(ctx: Ctx) -> None:
    depth = 5 if ctx.thorough else 4
    # level 1 and 2 are explored once in the parent (cheap), the sub-trees below every 2-operation prefix in parallel
    p = Partial()
    impls = [Impl(b) for b in env.BACKENDS]
    bfs.explore(p, impls, Model(), alphabet, 2, tag="orch/key-lookups", init_history=[])
    ctx.merge(p)
    prefixes = [(a, b) for a in alphabet([]) for b in alphabet([a])]
    for part in par.pmap(_unit, [(pre, depth) for pre in prefixes]):
        ctx.merge(part)


def replay_part(payload: dict) -> bool:
    r = payload["replay"]
    impls = [Impl(b) for b in env.BACKENDS]
    model = Model()
    for s in impls + [model]:
        s.reset()
    bad = False
    for op in r["history"]:
        op = tuple(op)
        res = [s.apply(op) for s in impls + [model]]
        outs = [s.readout() for s in impls + [model]]
        if any(x != res[-1] for x in res) or any(o != outs[-1] for o in outs):
            bad = True
    return bad
