"""C14 — process-based runners keep their worker pool at capacity when workers die.

E2: explicit-state BFS over FAULT SEQUENCES that drives the REAL parent-side code of
MultiThreadRunner, PersistentProcessRunner and ProcessRunner (`on_start`,
`_report_child_runner_heartbeats`, `runner_loop_iteration`) on a real SQLite orchestrator /
broker / state backend, with the operating-system objects replaced by stand-ins for the
duration of the check only: `Process` (start() records, is_alive() is a flag the explorer
flips), `Manager` (plain containers), `cpu_count`, `multiprocessing.get/set_start_method`,
`os.cpu_count` / `os.kill` and `signal.signal` as used by the three runner modules and the
base runner.  No operating-system process is ever started.

One round = [any subset of the live tracked workers dies before the heartbeat report] ->
report -> [any disjoint subset dies between the report and the iteration] -> iteration ->
sleep (virtual).  (quick tier: one kind of death per round, thorough: mixed kinds.)  Every spawned stand-in worker then "boots" the way the real child entry
point does (registers its runner context + first heartbeat, claims one invocation through the
real orchestrator and marks it RUNNING) and hangs there: every worker has one unfinished
invocation when it dies.

Reference model = the configured numbers (see `bounds`).  After every round, and again after one
more quiet round (the "within 2 loop iterations" of the statement), the observations are
compared with it; a destructive probe (clock + timeout, one more report, recovery scan)
decides the recoverability clause on the world that is thrown away anyway.
"""

from __future__ import annotations

import contextlib
import importlib
import itertools
import os as _os
import resource
import signal as _signal
import types
from typing import Any, Iterator

from vf import env, par, tasks, tasks_c14
from vf.report import Ctx, Partial

T_MIN = 0.5  # runner_considered_dead_after_minutes of every world (30 s)
PPR, MTR, PR = "PersistentProcessRunner", "MultiThreadRunner", "ProcessRunner"
CHILD_CLS = {MTR: "ThreadRunner", PPR: "PPRWorker", PR: "ProcessRunnerWorker"}

# a BFS level with at most this many fault sequences is continued sequence by sequence; a larger one is merged by state
KEEP_QUICK, KEEP_THOROUGH = 64, 512
# the first BFS level with at least this many fault sequences is split into independent sub-tree units
SPLIT = 8

# fates of one live tracked worker in one round
SURVIVE, DIE_PRE, DIE_MID, EXIT_OK, RETRY = "0", "1", "2", "3", "4"


# ---------------------------------------------------------------------------
# stand-ins for the operating system
# ---------------------------------------------------------------------------
class OSWorld:
    """Everything the stand-ins record for one world (one runner object)."""

    def __init__(self, cpus: int) -> None:
        self.cpus = cpus
        self.procs: list[FakeProcess] = []
        self.managers: list[FakeManager] = []
        self.signal_handlers: list[tuple] = []
        self.os_kills: list[tuple] = []
        self.start_method: str | None = None
        self.start_method_calls: list[tuple] = []


_W: OSWorld | None = None


def _w() -> OSWorld:
    if _W is None:
        raise RuntimeError("C14 stand-in used outside a world")
    return _W


class FakeProcess:
    """multiprocessing.Process whose start() only records; liveness is a flag of the explorer."""

    def __init__(self, group: Any = None, target: Any = None, name: Any = None, args: tuple = (),
                 kwargs: dict | None = None, *, daemon: bool | None = None) -> None:
        w = _w()
        self.target, self.args, self.kwargs, self.daemon = target, tuple(args), dict(kwargs or {}), daemon
        self.idx = len(w.procs)
        self.name = name or f"FakeProcess-{self.idx}"
        w.procs.append(self)
        self.started = False
        self._alive = False
        self.pid: int | None = None
        self.exitcode: int | None = None
        self.joins = 0
        self.closed = False
        # explorer side
        self.died_round: int | None = None
        self.booted = False
        self.inv: str | None = None
        self.ctx: Any = None
        self.finished = False
        self.retried = False

    def start(self) -> None:
        if self.started:
            raise AssertionError("cannot start a process twice")
        self.started = True
        self._alive = True
        self.pid = 400000 + self.idx  # a number only: never signalled (os.kill inside the runner modules is a recording stand-in)

    def is_alive(self) -> bool:
        return self._alive

    def _die(self, code: int) -> None:
        if self._alive:
            self._alive = False
            self.exitcode = code

    def terminate(self) -> None:
        self._die(-15)

    def kill(self) -> None:
        self._die(-9)

    def join(self, timeout: float | None = None) -> None:
        if not self.started:
            raise AssertionError("can only join a started process")
        self.joins += 1

    def close(self) -> None:
        if self._alive:
            raise ValueError("Cannot close a process while it is still running")
        self.closed = True


class FakeEvent:
    def __init__(self) -> None:
        self._flag = False

    def set(self) -> None:
        self._flag = True

    def clear(self) -> None:
        self._flag = False

    def is_set(self) -> bool:
        return self._flag

    def wait(self, timeout: float | None = None) -> bool:
        return self._flag


class FakeQueue:
    def __init__(self, maxsize: int = 0) -> None:
        self._items: list = []

    def put(self, item: Any, block: bool = True, timeout: float | None = None) -> None:
        self._items.append(item)

    put_nowait = put

    def get(self, block: bool = True, timeout: float | None = None) -> Any:
        import queue

        if not self._items:
            raise queue.Empty
        return self._items.pop(0)

    get_nowait = get

    def empty(self) -> bool:
        return not self._items

    def qsize(self) -> int:
        return len(self._items)


class FakeLock:
    def acquire(self, *a: Any, **k: Any) -> bool:
        return True

    def release(self) -> None:
        return None

    def __enter__(self) -> "FakeLock":
        return self

    def __exit__(self, *a: Any) -> None:
        return None


class FakeManager:
    """multiprocessing.Manager(): plain containers, shutdown() is a no-op."""

    def __init__(self, *a: Any, **k: Any) -> None:
        _w().managers.append(self)
        self.shut = False

    def dict(self, *a: Any, **k: Any) -> dict:
        return dict(*a, **k)

    def list(self, *a: Any, **k: Any) -> list:
        return list(*a, **k)

    def Queue(self, *a: Any, **k: Any) -> FakeQueue:
        return FakeQueue()

    def Event(self) -> FakeEvent:
        return FakeEvent()

    def Lock(self) -> FakeLock:
        return FakeLock()

    RLock = Lock

    def Namespace(self) -> types.SimpleNamespace:
        return types.SimpleNamespace()

    def shutdown(self) -> None:
        self.shut = True


def fake_cpu_count() -> int:
    return _w().cpus


class _FakeMultiprocessing(types.ModuleType):
    """`multiprocessing` as used by persistent_process_runner._ensure_spawn_start_method."""

    def __init__(self) -> None:
        super().__init__("multiprocessing")
        self.Process = FakeProcess
        self.Manager = FakeManager
        self.cpu_count = fake_cpu_count

    @staticmethod
    def get_start_method(allow_none: bool = False) -> str | None:
        w = _w()
        return w.start_method if (allow_none or w.start_method) else "fork"

    @staticmethod
    def set_start_method(method: str, force: bool = False) -> None:
        w = _w()
        w.start_method_calls.append((method, force))
        if w.start_method is not None and not force:
            raise RuntimeError("context has already been set")
        w.start_method = method


class _FakeOs(types.ModuleType):
    """`os` inside the runner modules: cpu_count answers the configured number, kill only records
    (a stand-in pid must never receive a real signal)."""

    def __init__(self) -> None:
        super().__init__("os")

    @staticmethod
    def cpu_count() -> int:
        return _w().cpus

    @staticmethod
    def kill(pid: int, sig: int) -> None:
        _w().os_kills.append((pid, int(sig)))

    def __getattr__(self, name: str) -> Any:
        return getattr(_os, name)


class _FakeSignal(types.ModuleType):
    """`signal` inside base_runner: handler installation only records."""

    def __init__(self) -> None:
        super().__init__("signal")

    @staticmethod
    def signal(signum: int, handler: Any) -> Any:
        _w().signal_handlers.append((int(signum), getattr(handler, "__name__", repr(handler))))
        return _signal.SIG_DFL

    def __getattr__(self, name: str) -> Any:
        return getattr(_signal, name)


FAKE_MP, FAKE_OS, FAKE_SIGNAL = _FakeMultiprocessing(), _FakeOs(), _FakeSignal()

# module -> {attribute the module really has -> stand-in}; a missing attribute is a harness error
# (the imports of the runner modules changed and the seam list must be re-read)
SEAMS: dict[str, dict[str, Any]] = {
    "pynenc.runner.multi_thread_runner": {"Process": FakeProcess, "Manager": FakeManager, "cpu_count": fake_cpu_count},
    "pynenc.runner.persistent_process_runner": {"Process": FakeProcess, "Manager": FakeManager,
                                                "multiprocessing": FAKE_MP, "os": FAKE_OS},
    "pynenc.runner.process_runner": {"Process": FakeProcess, "Manager": FakeManager, "cpu_count": fake_cpu_count,
                                     "os": FAKE_OS},
    "pynenc.runner.base_runner": {"signal": FAKE_SIGNAL},
}


@contextlib.contextmanager
def standins() -> Iterator[None]:
    """Install the stand-ins in the runner modules; always restore the originals."""
    global _W
    saved: list[tuple[Any, str, Any]] = []
    try:
        for modname, repl in SEAMS.items():
            mod = importlib.import_module(modname)
            for attr, new in repl.items():
                if not hasattr(mod, attr):
                    raise RuntimeError(f"seam {modname}.{attr} does not exist any more")
                saved.append((mod, attr, getattr(mod, attr)))
                setattr(mod, attr, new)
        yield
    finally:
        while saved:
            mod, attr, old = saved.pop()
            setattr(mod, attr, old)
        _W = None


def seams_restored() -> bool:
    for modname, repl in SEAMS.items():
        mod = importlib.import_module(modname)
        for attr, new in repl.items():
            if getattr(mod, attr) is new:
                return False
    return True


# ---------------------------------------------------------------------------
# configurations and the reference model (the configured numbers)
# ---------------------------------------------------------------------------
def configs(thorough: bool) -> list[dict]:
    out: list[dict] = []
    for n in (1, 2, 3):
        for q in (0, 3):
            out.append(dict(runner=PPR, conf=dict(num_processes=n), cpus=2, queue=q))
    out.append(dict(runner=PPR, conf=dict(num_processes=0), cpus=2, queue=0))  # 0 = CPU count
    out.append(dict(runner=PPR, conf=dict(num_processes=1, min_parallel_slots=2), cpus=3, queue=3))
    for mn, mx in ((1, 1), (1, 2), (2, 2), (1, 3), (2, 3), (3, 3)):
        for enf in (True, False):
            for q in ((0, 3) if enf else (0, 2, 4)):
                out.append(dict(runner=MTR, conf=dict(min_processes=mn, max_processes=mx, enforce_max_processes=enf),
                                cpus=2, queue=q))
    out.append(dict(runner=MTR, conf=dict(min_processes=1, max_processes=0, enforce_max_processes=True), cpus=2, queue=0))
    out.append(dict(runner=MTR, conf=dict(min_processes=1, max_processes=0, enforce_max_processes=False), cpus=3, queue=4))
    for cpus in (1, 2, 3):
        for q in (0, 2, 5):
            out.append(dict(runner=PR, conf={}, cpus=cpus, queue=q))
    out.append(dict(runner=PR, conf=dict(min_parallel_slots=2), cpus=1, queue=5))
    return out


def tag(cfg: dict) -> str:
    c = ",".join(f"{k}={v}" for k, v in sorted(cfg["conf"].items()))
    return f"{cfg['runner']}[{c}] cpus={cfg['cpus']} queue={cfg['queue']}"


def mode(cfg: dict) -> str:
    """Coarse configuration class used in violation signatures (sizes and queue load are in the detail)."""
    if cfg["runner"] == MTR:
        return f"enforce_max_processes={cfg['conf']['enforce_max_processes']}"
    if cfg["runner"] == PPR:
        return "fixed pool of num_processes"
    return "one process per invocation"


def bounds(cfg: dict, queued: int, live_after_deaths: int, killed_now: int) -> tuple[int, int]:
    """(least, most) live tracked workers the documentation allows after an iteration.

    `killed_now` = workers that died since the previous iteration: the statement gives the runner
    two iterations, so after the first one they may still be missing (and may still hold a slot)."""
    conf, cpus = cfg["conf"], cfg["cpus"]
    if cfg["runner"] == PPR:
        n = max(conf.get("min_parallel_slots", 1), conf["num_processes"] or cpus)
        return n - killed_now, n
    if cfg["runner"] == MTR:
        maxp = conf["max_processes"] or cpus
        if conf["enforce_max_processes"]:
            return maxp - killed_now, maxp
        return max(conf["min_processes"], min(queued, maxp)) - killed_now, maxp
    cap = max(conf.get("min_parallel_slots", 1), cpus)
    return min(cap - killed_now, live_after_deaths + queued), min(cap, live_after_deaths + queued)


def initial_pool(cfg: dict) -> tuple[int, int]:
    """Workers expected right after start (before the first iteration)."""
    if cfg["runner"] == PPR:
        return bounds(cfg, 0, 0, 0)
    if cfg["runner"] == MTR:
        return cfg["conf"]["min_processes"], cfg["conf"]["max_processes"] or cfg["cpus"]
    return 0, 0


def fates(cfg: dict) -> str:
    # ProcessRunner (one process per invocation) also: the worker finishes and exits / the worker's body asks for a
    # retry: the invocation is re-queued from inside the child while the child process is still alive
    return SURVIVE + DIE_PRE + DIE_MID + (EXIT_OK + RETRY if cfg["runner"] == PR else "")


def operations(cfg: dict, n_live: int, mixed: bool) -> list[str]:
    """The fault steps possible with n live tracked workers: one fate per worker, in tracking order.

    mixed: every assignment of a fate to every worker (3^n, ProcessRunner 4^n).
    uniform (quick tier): every subset of the workers (2^n, incl. none and all) x ONE kind of death for that subset."""
    alphabet = fates(cfg)
    if mixed:
        return ["".join(t) for t in itertools.product(alphabet, repeat=n_live)]
    out = [SURVIVE * n_live]
    for kind in alphabet[1:]:
        for bits in itertools.product((False, True), repeat=n_live):
            if any(bits):
                out.append("".join(kind if b else SURVIVE for b in bits))
    return out


# ---------------------------------------------------------------------------
# one world: real runner + real SQLite stack + stand-in processes
# ---------------------------------------------------------------------------
class Drive:
    def __init__(self, cfg: dict) -> None:
        global _W
        self.cfg = cfg
        self.kind = cfg["runner"]
        env.reset_world()
        self.os = OSWorld(cfg["cpus"])
        _W = self.os
        self.app = env.make_app(env.SQLITE, app_id="c14", db=env.reuse_db("c14"), runner_cls=cfg["runner"],
                                runner_considered_dead_after_minutes=T_MIN, **cfg["conf"])
        self.task = tasks.bind(self.app, tasks_c14.work)
        self.orch = self.app.orchestrator
        self.runner = self.app.runner  # real construction path: get_subclass(BaseRunner, conf.runner_cls)(app)
        if type(self.runner).__name__ != cfg["runner"]:
            raise RuntimeError(f"runner_cls not honoured: {type(self.runner).__name__}")
        self.round_no = 0
        self.phase = "setup"
        self.hb: list[tuple] = []  # (phase, ids, ids of the workers alive / of all workers created at that moment)
        self.next_arg = 0
        self.found: list[tuple[dict, dict]] = []
        self.stats = {"heartbeat_calls_checked": 0, "dead_worker_invocations_seen_recoverable": 0,
                      "live_worker_invocations_seen_protected": 0, "workers_forgotten_in_first_iteration": 0,
                      "workers_replaced": 0}
        orig = self.orch.register_runner_heartbeats

        def spy(runner_ids: list, can_run_atomic_service: bool = False) -> Any:
            self.hb.append((self.phase, tuple(str(r) for r in runner_ids),
                            frozenset(self.wid(p) for p in self.os.procs if p.is_alive()),
                            frozenset(self.wid(p) for p in self.os.procs)))
            return orig(runner_ids, can_run_atomic_service)

        self.orch.register_runner_heartbeats = spy  # instance attribute of a throw-away object

    # -- identities ------------------------------------------------------
    def wid(self, proc: FakeProcess) -> str | None:
        """The runner id the worker process was GIVEN (what the child uses for everything it owns)."""
        if self.kind == PR:
            return str(proc.args[2].runner_id) if len(proc.args) > 2 else None
        return proc.kwargs.get("child_runner_id")

    def tracked(self) -> list[tuple[str, Any]]:
        return [(str(rid), getattr(v, "process", v)) for rid, v in self.runner.child_runner_ids.items()]

    def live_tracked(self) -> list[FakeProcess]:
        return [pr for _, pr in self.tracked() if isinstance(pr, FakeProcess) and pr.is_alive()]

    def queued(self) -> int:
        return int(self.app.broker.count_invocations())

    # -- violations ------------------------------------------------------
    def bad(self, clause: str, **detail: Any) -> None:
        sig = {"clause": clause, "runner": self.kind, "config": mode(self.cfg)}
        self.found.append((sig, detail))

    # -- start -----------------------------------------------------------
    def start(self) -> None:
        from pynenc import context

        for _ in range(self.cfg["queue"]):
            self.task(self._arg())
        context.set_current_runner(self.app.app_id, self.runner)
        self.phase = "start"
        try:
            self.runner.on_start()
        except Exception as e:  # noqa: BLE001
            self.bad(f"start-raises:{type(e).__name__}", error=str(e)[:300])
            return
        self.boot_new_workers()
        lo, hi = initial_pool(self.cfg)
        live = len(self.live_tracked())
        if not lo <= live <= hi:
            self.bad("pool-size-after-start", live=live, expected=[lo, hi])
        self._identity_oracle()

    def _arg(self) -> int:
        self.next_arg += 1
        return self.next_arg

    # -- the stand-in worker's first steps (what the real child entry point does) ------------
    def boot_new_workers(self) -> None:
        from pynenc.invocation.status import InvocationStatus as S
        from pynenc.runner.runner_context import RunnerContext

        keep = self.phase
        self.phase = "child-boot"
        try:
            for proc in self.os.procs:
                if proc.booted or not proc.started or not proc.is_alive():
                    continue
                proc.booted = True
                if self.kind == PR:
                    _app, inv, ctx, _runner_args = proc.args
                    rec = self.orch.get_invocation_status_record(inv.invocation_id)
                    if rec.status.name != "PENDING" or str(rec.runner_id) != str(ctx.runner_id):
                        self.bad("started-invocation-not-claimed-for-its-worker",
                                 record=[rec.status.name, str(rec.runner_id)], worker=str(ctx.runner_id))
                        continue
                    self.orch.set_invocation_status(inv.invocation_id, S.RUNNING, ctx)
                    proc.inv, proc.ctx = str(inv.invocation_id), ctx
                    continue
                kw = proc.kwargs
                pjson = kw.get("parent_runner_ctx_json") or kw.get("parent_ctx_json")
                ctx = RunnerContext.from_json(pjson).new_child_context(CHILD_CLS[self.kind], runner_id=kw["child_runner_id"])
                self.runner._register_new_child_runner_context(ctx)
                self.task(self._arg())  # a fresh unit of work, so that the claim below leaves the queue length unchanged
                got = list(self.orch.get_invocations_to_run(1, ctx))
                if len(got) != 1:
                    raise RuntimeError(f"stand-in worker could not claim work: {got}")
                self.orch.set_invocation_status(got[0].invocation_id, S.RUNNING, ctx)
                proc.inv, proc.ctx = str(got[0].invocation_id), ctx
        finally:
            self.phase = keep

    # -- one round -------------------------------------------------------
    def round(self, op: str, check: bool = True) -> None:
        from pynenc.invocation.status import InvocationStatus as S

        self.round_no += 1
        live = self.live_tracked()
        if len(op) != len(live):
            raise RuntimeError(f"operation {op!r} does not fit {len(live)} live tracked workers")
        killed = 0
        for proc, fate in zip(live, op):
            if fate == RETRY:
                if proc.inv is not None:
                    # what DistributedInvocation.run does in the child when the body raises a retriable error
                    from pynenc.exceptions import RetryError

                    self.orch.set_invocation_retry(proc.inv, RetryError("again"), proc.ctx)
                    proc.inv = None  # the worker holds nothing any more; its process ends in a later round
                    proc.retried = True
                continue
            if fate == EXIT_OK:
                if proc.inv is not None:
                    self.orch.set_invocation_status(proc.inv, S.SUCCESS, proc.ctx)
                    proc.finished = True
                proc._die(0)
            elif fate == DIE_PRE:
                proc._die(-9)
            if fate in (EXIT_OK, DIE_PRE):
                proc.died_round = self.round_no
                killed += 1
        mark = len(self.hb)
        self.phase = "report"
        try:
            self.runner._report_child_runner_heartbeats()
        except Exception as e:  # noqa: BLE001 - run() re-raises: the runner would stop
            self.bad(f"loop-raises:{type(e).__name__}", where="_report_child_runner_heartbeats", error=str(e)[:300])
        expect_hb = {self.wid(p) for p in self.live_tracked()}
        if check:
            self._heartbeat_oracle(mark, expect_hb)
        for proc, fate in zip(live, op):
            if fate == DIE_MID:
                proc._die(-9)
                proc.died_round = self.round_no
                killed += 1
        queued, live_after = self.queued(), len(self.live_tracked())
        mark = len(self.hb)
        self.phase = "iteration"
        try:
            self.runner.runner_loop_iteration()
        except Exception as e:  # noqa: BLE001
            self.bad(f"loop-raises:{type(e).__name__}", where="runner_loop_iteration", error=str(e)[:300])
        env.CLOCK.sleep(float(self.runner.conf.runner_loop_sleep_time_sec))  # the sleep of BaseRunner.run
        self.phase = "between"
        if check:
            self._heartbeat_oracle(mark, None)
            self._identity_oracle()
            self._pool_oracle(queued, live_after, killed)
        self.boot_new_workers()

    # -- oracles ---------------------------------------------------------
    def _heartbeat_oracle(self, mark: int, expect: set | None) -> None:
        known = {self.wid(p): p for p in self.os.procs}
        seen: set = set()
        for phase, ids, alive_then, known_then in self.hb[mark:]:
            self.stats["heartbeat_calls_checked"] += 1
            for rid in ids:
                seen.add(rid)
                if rid in known_then and rid not in alive_then:
                    self.bad("heartbeat-reported-for-dead-worker", phase=phase, worker=known[rid].idx)
                elif rid not in known_then and phase == "report":
                    self.bad("heartbeat-reported-for-unknown-runner-id", phase=phase, runner_id=rid)
        if expect is not None and not expect <= seen:
            self.bad("live-worker-not-heartbeaten", missing=len(expect - seen))

    def _identity_oracle(self) -> None:
        live_ids = []
        for rid, pr in self.tracked():
            if not isinstance(pr, FakeProcess) or self.wid(pr) != rid:
                self.bad("tracked-id-differs-from-the-id-given-to-the-worker", tracked=rid,
                         given=self.wid(pr) if isinstance(pr, FakeProcess) else repr(pr))
            elif pr.is_alive():
                live_ids.append(rid)
        try:
            active = sorted(str(r) for r in self.runner.get_active_child_runner_ids())
        except Exception as e:  # noqa: BLE001
            self.bad(f"loop-raises:{type(e).__name__}", where="get_active_child_runner_ids", error=str(e)[:300])
            return
        if active != sorted(live_ids):
            self.bad("active-child-ids-are-not-the-live-tracked-workers", active=len(active), live_tracked=len(live_ids))

    def _pool_oracle(self, queued: int, live_after_deaths: int, killed_now: int) -> None:
        tr = self.tracked()
        flags = self.flags()
        stale = [pr.idx for _, pr in tr if isinstance(pr, FakeProcess) and not pr.is_alive()
                 and (pr.died_round is None or pr.died_round < self.round_no)]
        if stale:
            self.bad("dead-worker-not-forgotten-within-2-iterations", tracked=flags, stale_workers=stale,
                     round=self.round_no)
        untracked_dead = sum(1 for p in self.os.procs if p.died_round == self.round_no) - flags.count("d")
        self.stats["workers_forgotten_in_first_iteration"] += untracked_dead
        lo, hi = bounds(self.cfg, queued, live_after_deaths, killed_now)
        live = len(self.live_tracked())
        self.stats["workers_replaced"] += max(0, live - live_after_deaths)
        if live < lo:
            self.bad("pool-not-refilled-within-2-iterations", live_tracked=live, expected_at_least=lo, tracked=flags,
                     queued_before_iteration=queued, died_since_previous_iteration=killed_now, round=self.round_no)
        if live > hi:
            self.bad("pool-above-configured-maximum", live_tracked=live, expected_at_most=hi, tracked=flags,
                     queued_before_iteration=queued, round=self.round_no)
        tracked_procs = {id(pr) for _, pr in tr}
        orphans = [p.idx for p in self.os.procs if p.is_alive() and id(p) not in tracked_procs]
        if orphans:
            self.bad("live-worker-not-tracked", workers=orphans, tracked=flags)
        if self.kind == PR:
            slots = int(self.runner.max_parallel_slots)
            cap = max(self.cfg["conf"].get("min_parallel_slots", 1), self.cfg["cpus"])
            if slots != cap:
                self.bad("max-parallel-slots-differs-from-configuration", slots=slots, expected=cap)

    def settle_and_probe(self) -> None:
        """The second iteration of the statement (no further deaths), then the recoverability probe."""
        n = len(self.live_tracked())
        self.round(SURVIVE * n)
        self.probe()

    def probe(self) -> None:
        scan0 = {str(i) for i in self.orch.get_running_invocations_for_recovery()}
        for p in self.os.procs:
            if p.inv and p.is_alive() and p.inv in scan0:
                self.bad("live-worker-invocation-recoverable", when="right after a loop iteration", worker=p.idx)
        env.CLOCK.advance(T_MIN * 60 + 1.0)
        self.phase = "report"
        mark = len(self.hb)
        try:
            self.runner._report_child_runner_heartbeats()
        except Exception as e:  # noqa: BLE001
            self.bad(f"loop-raises:{type(e).__name__}", where="_report_child_runner_heartbeats", error=str(e)[:300])
        self._heartbeat_oracle(mark, {self.wid(p) for p in self.live_tracked()})
        self.phase = "probe"
        scan = {str(i) for i in self.orch.get_running_invocations_for_recovery()}
        for p in self.os.procs:
            if not p.inv:
                continue
            if p.finished:
                if p.inv in scan:
                    self.bad("finished-invocation-recoverable", worker=p.idx)
            elif p.is_alive():
                if p.inv in scan:
                    self.bad("live-worker-invocation-recoverable", when="timeout elapsed, then one heartbeat report", worker=p.idx)
                else:
                    self.stats["live_worker_invocations_seen_protected"] += 1
            elif p.inv not in scan:
                self.bad("dead-worker-invocation-not-recoverable", worker=p.idx, died_round=p.died_round,
                         seconds_since_death_at_least=T_MIN * 60 + 1.0)
            else:
                self.stats["dead_worker_invocations_seen_recoverable"] += 1

    # -- state identity --------------------------------------------------
    def flags(self) -> str:
        out = []
        for _, pr in self.tracked():
            if not isinstance(pr, FakeProcess):
                out.append("?")
            elif pr.is_alive():
                out.append("R" if getattr(pr, "retried", False) else "L")
            else:
                out.append("d" if pr.died_round == self.round_no else "D")
        return "".join(out)

    def dump(self) -> tuple:
        tracked_procs = {id(pr) for _, pr in self.tracked()}
        orphans = sum(1 for p in self.os.procs if p.is_alive() and id(p) not in tracked_procs)
        return (self.flags(), orphans, self.queued())


# ---------------------------------------------------------------------------
# BFS over fault sequences for one configuration
# ---------------------------------------------------------------------------
def _run_history(cfg: dict, hist: tuple, op: str | None) -> Drive:
    d = Drive(cfg)
    d.start()
    for h in hist:
        d.round(h, check=False)
    if op is not None:
        d.found = []  # what start and the replayed prefix showed was reported when they were the new step
        d.round(op)
    return d


def _report(p: Partial, cfg: dict, d: Drive, hist: tuple, reported: set, stage: str) -> None:
    for sig, detail in d.found:
        k = repr(sorted(sig.items()))
        if k in reported:
            continue
        reported.add(k)
        detail = dict(detail, configuration=tag(cfg), fault_sequence=list(hist), stage=stage,
                      legend="per live tracked worker: 0 survives, 1 dies before the heartbeat report, "
                             "2 dies between report and iteration, 3 exits after finishing its invocation")
        p.violation(sig, detail, {"cfg": cfg, "history": list(hist), "clause": sig["clause"]})
    d.found = []


def _stress(hist: tuple) -> int:
    return sum(len(o) - o.count(SURVIVE) for o in hist)


def _expand(p: Partial, cfg: dict, level: list, reported: set, mixed: bool) -> tuple[list, dict]:
    """All successors of the fault sequences of one level: (every successor, best representative per state)."""
    every: list[tuple[tuple, int]] = []
    reps: dict = {}
    for hist, n_live in level:
        for op in operations(cfg, n_live, mixed):
            d = _run_history(cfg, hist, op)
            h2 = hist + (op,)
            p.count("replayed_steps", len(hist))
            p.count("transitions")
            p.count("traces_validated_against_impl")
            _report(p, cfg, d, h2, reported, "round")
            key = d.dump()
            p.add("bfs_states", (tag(cfg), key))
            stress, n2 = _stress(h2), len(d.live_tracked())
            if key not in reps or stress > reps[key][0]:
                reps[key] = (stress, h2, n2)
            every.append((h2, n2))
            p.count("worker_deaths", stress)
            d.settle_and_probe()
            p.count("transitions")
            p.count("traces_validated_against_impl", 2)
            _report(p, cfg, d, h2, reported, "second-iteration+probe")
            p.count(f"transitions_{cfg['runner']}", 2)
            p.count("workers_spawned", len(d.os.procs))
            p.max("max_workers_in_one_history", len(d.os.procs))
            for k, v in d.stats.items():
                p.count(k, v)
    return every, reps


def _root(item: tuple) -> tuple[Partial, list]:
    """Start + the first levels of one configuration, fault sequence by fault sequence, until a level is wide
    enough to be handed out as independent sub-trees. Returns the evidence and that level (the frontier)."""
    ci, thorough, depth = item
    cfg = configs(thorough)[ci]
    p = Partial()
    reported: set = set()
    with standins():
        d0 = _run_history(cfg, (), None)
        _report(p, cfg, d0, (), reported, "start")
        p.count("traces_validated_against_impl")
        p.add("bfs_states", (tag(cfg), d0.dump()))
        level: list[tuple[tuple, int]] = [((), len(d0.live_tracked()))]
        d0.settle_and_probe()
        _report(p, cfg, d0, (), reported, "second-iteration+probe")
        p.count("transitions")
        p.count("traces_validated_against_impl", 2)
        done = 0
        while done < depth and len(level) < SPLIT:
            level, _ = _expand(p, cfg, level, reported, thorough)
            done += 1
            p.count("levels_kept_unmerged")
    p.count(f"configs_{cfg['runner']}")
    p.add("configs", tag(cfg))
    if done == depth and level:
        p.sample({"configuration": tag(cfg), "a_deepest_fault_sequence": list(max((h for h, _ in level), key=_stress))})
    if not seams_restored():
        raise RuntimeError("stand-ins left installed")
    return p, (level if done < depth else [])


def _subtree(item: tuple) -> Partial:
    """BFS below one fault sequence of the frontier. A level whose size, summed over the frontier (estimated as
    frontier size x the size in this sub-tree), exceeds the tier's limit is merged by state."""
    ci, thorough, depth, hist, n_live, frontier = item
    cfg = configs(thorough)[ci]
    keep = KEEP_THOROUGH if thorough else KEEP_QUICK
    p = Partial()
    reported: set = set()
    level = [(tuple(hist), n_live)]
    with standins():
        for _lvl in range(len(hist), depth):
            every, reps = _expand(p, cfg, level, reported, thorough)
            if frontier * len(every) <= keep:
                level = every  # small level: every fault sequence is continued, nothing is merged
                p.count("levels_kept_unmerged")
            else:
                level = [(h, n) for _, h, n in reps.values()]
                p.count("levels_merged_by_state")
            p.count("fault_sequences_continued", len(level))
        if _os.environ.get("C14_DEBUG"):
            print(tag(cfg), hist, sorted(k for t, k in p.sets.get("bfs_states", ())))
    if level:
        p.sample({"configuration": tag(cfg), "a_deepest_fault_sequence": list(max((h for h, _ in level), key=_stress))})
    if not seams_restored():
        raise RuntimeError("stand-ins left installed")
    return p


def run(ctx: Ctx) -> None:
    depth = 4 if ctx.thorough else 3
    cfgs = configs(ctx.thorough)
    idx = [i for i, c in enumerate(cfgs) if not ctx.only or ctx.only in tag(c)]
    r0 = [resource.getrusage(w) for w in (resource.RUSAGE_SELF, resource.RUSAGE_CHILDREN)]
    roots = par.pmap(_root, [(i, ctx.thorough, depth) for i in idx])
    subs = [(i, ctx.thorough, depth, h, n, len(frontier)) for i, (_, frontier) in zip(idx, roots) for h, n in frontier]
    # VERIF_SEED only rotates the order in which the sub-trees are handed to the pool; results are merged in item order
    rot = ctx.seed % max(1, len(subs))
    parts = par.pmap(_subtree, subs[rot:] + subs[:rot])
    parts = (parts[len(subs) - rot:] + parts[:len(subs) - rot]) if rot else parts
    for part, _ in roots:
        ctx.merge(part)
    for part in parts:
        ctx.merge(part)
    # samples: per runner class the recorded real fault sequence with the most deaths
    best: dict = {}
    for part in [r for r, _ in roots] + parts:
        for smp in part.samples:
            cls = smp["configuration"].split("[")[0]
            if cls not in best or _stress(tuple(smp["a_deepest_fault_sequence"])) > _stress(tuple(best[cls]["a_deepest_fault_sequence"])):
                best[cls] = smp
    ctx.samples = [best[k] for k in sorted(best)] + [x for x in ctx.samples if x not in best.values()][:3]
    ctx.count("subtree_units", len(subs))
    ctx.max("depth_completed", depth)
    r1 = [resource.getrusage(w) for w in (resource.RUSAGE_SELF, resource.RUSAGE_CHILDREN)]
    ctx.extra["cpu_s"] = round(sum((b.ru_utime + b.ru_stime) - (a.ru_utime + a.ru_stime) for a, b in zip(r0, r1)), 1)
    ctx.extra["standins_restored"] = seams_restored()
    if not seams_restored():
        raise RuntimeError("stand-ins left installed")
    ctx.rule = (
        f"per configuration ({len(idx)}: PersistentProcessRunner num_processes 1..3 / 0=cpu_count / min_parallel_slots; "
        "MultiThreadRunner (min,max)_processes over 1..3 and 0=cpu_count x enforce_max_processes on/off; ProcessRunner "
        "cpu_count 1..3 / min_parallel_slots; each with the queue empty and loaded): level-synchronous BFS to depth "
        f"{depth} over fault sequences; one round = "
        + ("every assignment of a fate to every live tracked worker (survive / die before the heartbeat report / die between "
           "report and iteration / ProcessRunner also: exit after finishing its invocation)" if ctx.thorough else
           "every subset of the live tracked workers (incl. none and all) x one kind of death for the subset (before the "
           "heartbeat report / between report and iteration / ProcessRunner also: exit after finishing its invocation)")
        + ", then the real report, the real loop iteration and the loop's sleep; after every "
        "round the observations are compared with the configured numbers, then one quiet round (2nd iteration) and a "
        "recoverability probe (clock + timeout, one report, recovery scan) on the discarded world. Levels are continued "
        f"fault sequence by fault sequence while they hold at most {KEEP_THOROUGH if ctx.thorough else KEEP_QUICK} sequences; "
        "a larger level is merged by state (flags of the tracked workers in tracking order, untracked live workers, queue "
        f"length) inside each sub-tree below the first level with >= {SPLIT} sequences, the representative being the "
        "sequence with the most deaths")
    ctx.assume("operating-system processes are stand-ins (start() records, is_alive() is the explorer's flag); the child entry "
               "points never run: the explorer performs their first steps (register runner context + heartbeat, claim one "
               "invocation, mark it RUNNING) through the real orchestrator with the ids the parent handed to Process(...)")
    ctx.assume("'tracked' = keys/values of runner.child_runner_ids, the attribute all three runners use to remember workers")
    ctx.assume("PersistentProcessRunner: live tracked workers == max(min_parallel_slots, num_processes or cpu_count) "
               "(docs: 'Dead workers are automatically respawned to maintain pool size')")
    ctx.assume("MultiThreadRunner, enforce_max_processes=True: live tracked workers == (max_processes or cpu_count) "
               "(docs: 'always runs max_processes workers'); False: >= min_processes (config docstring: 'ensure that the "
               "runner has a minimum number of ThreadRunner processes'), >= min(queued invocations, max) (docs: 'scales based "
               "on pending invocation count in the broker') and <= max; both: docs 'Dead processes are automatically cleaned up'")
    ctx.assume("ProcessRunner: capacity = max(min_parallel_slots, cpu_count) (docs: 'up to cpu_count() concurrent'); after an "
               "iteration live tracked == min(capacity, survivors + queued invocations); a dead process frees its slot")
    ctx.assume("'within the next loop iterations' is read as: a worker that died before iteration k is untracked and replaced "
               "after iteration k+1 at the latest; deaths that happen in between only lower the demanded number by the workers "
               "that died since the previous iteration")
    ctx.assume("atomic services (triggers, recovery tasks) are not run by the driver; the recovery scan is queried directly; "
               f"runner_considered_dead_after_minutes={T_MIN}; SQLite stack only (all three runners declare mem_compatible() False)")


def replay(payload: dict) -> bool:
    r = payload["replay"]
    cfg, hist = r["cfg"], tuple(r["history"])
    with standins():
        if hist:
            d = _run_history(cfg, hist[:-1], hist[-1])
        else:
            d = _run_history(cfg, (), None)
        found = list(d.found)
        d.settle_and_probe()
        found += d.found
    for sig, detail in found:
        print("  replayed:", sig, detail)
    return any(sig["clause"] == r.get("clause") for sig, _ in found) if r.get("clause") else bool(found)
