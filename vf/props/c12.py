"""C12 — global services authorised for at most one runner at any instant.

Exhaustive enumeration (E3) of runner counts x cycle lengths x margins x instants
through the real `can_run_atomic_service`, and through the real
`should_run_atomic_service` of both orchestrators under the virtual clock.
The oracle is the property itself (no re-implementation of the slot formula):
  A. at every instant at most one runner is authorised (N == 1: always exactly one);
  B. if margin < slot: whenever runner a is authorised at t and runner b != a at t' > t,
     then t' - t >= margin (tolerance: float resolution of the instants);
  C. every runner is authorised at >= 1 sampled instant of every cycle.
"""

from __future__ import annotations

import math
from datetime import UTC, datetime
from fractions import Fraction

from vf import env, par
from vf.report import Ctx, Partial

INTERVALS_MIN = [0.5, 1.0, 5.0, 7.0, 60.0]
OFFSETS = [0.0, 1.7e9, 4.0e9]


def _margins(slot_s: float) -> list[float]:
    # minutes; includes 0, small, just-below-slot (window = 0.1% of the slot: narrower windows are
    # below the resolution of a double clock at epoch 1e9 and cannot be observed), == slot, > slot,
    # the 1-minute default
    return sorted(
        {
            0.0,
            0.1 * slot_s / 60,
            slot_s * (1 - 1e-3) / 60,
            slot_s / 60,
            2 * slot_s / 60,
            1.0,
        }
    )


def _instants(n: int, interval_s: float, margin_s: float, grid: int, cycles: int, offset: float):
    """Sorted instants: a dense grid plus every slot boundary and its neighbours."""
    base = offset - (offset % interval_s) if offset else 0.0
    out: set[float] = set()
    slot = interval_s / n
    for c in range(cycles):
        cb = base + c * interval_s
        for g in range(grid):
            out.add(cb + g * interval_s / grid)
        for k in range(n):
            start = k * slot
            ends = [start + slot - margin_s, start + slot / 2, start + slot]
            for b in [start, *ends]:
                if not (0 <= b <= interval_s):
                    continue
                t = cb + b
                for cand in (
                    t,
                    math.nextafter(t, -math.inf),
                    math.nextafter(t, math.inf),
                    t - 1e-3,
                    t + 1e-3,
                ):
                    if cand >= base:
                        out.add(cand)
    return sorted(out)


def _runners(n: int, with_history: bool, ties: bool = False):
    from pynenc.orchestrator.atomic_service import ActiveRunnerInfo

    rs = []
    for k in range(n):
        # ties: runners registered in one batch share their creation time (the list order is their only order)
        t = datetime.fromtimestamp(1000.0 + (k // 2 if ties else k), tz=UTC)
        kw = {}
        if with_history:
            kw = dict(
                last_service_start=datetime.fromtimestamp(2000.0, tz=UTC),
                last_service_end=datetime.fromtimestamp(2000.0 + 3.0 * (k + 1), tz=UTC),
            )
        rs.append(ActiveRunnerInfo(f"r{k}", t, t, True, **kw))
    return rs


def _check_series(p: Partial, cfg: dict, series: list[tuple[float, tuple[int, ...]]], n: int,
                  interval_s: float, margin_s: float, cycles: int, base: float) -> None:
    """series: sorted (instant, authorised positions)."""
    slot = Fraction(interval_s) / n
    tol = 4e-6 if base > 1e9 else 1e-9
    last_auth: tuple[float, int] | None = None
    per_cycle: dict[int, set[int]] = {}
    for t, auth in series:
        p.count("transitions")
        if len(auth) > 1:
            p.violation(
                {"clause": "A:two-authorised", "n": n},
                {**cfg, "t": t, "authorised": list(auth)},
                {"kind": "pure", **cfg, "t": t},
            )
            return
        if n == 1 and auth != (0,):
            p.violation(
                {"clause": "A:single-runner-not-authorised", "n": 1},
                {**cfg, "t": t},
                {"kind": "pure", **cfg, "t": t},
            )
            return
        if auth:
            a = auth[0]
            cyc = int((t - base) // interval_s)
            per_cycle.setdefault(cyc, set()).add(a)
            if (
                n > 1
                and last_auth is not None
                and last_auth[1] != a
                and margin_s < interval_s / n
                and t - last_auth[0] < margin_s - tol
            ):
                p.violation(
                    {"clause": "B:gap-below-margin", "n": n},
                    {**cfg, "t_prev": last_auth[0], "prev": last_auth[1], "t": t, "cur": a,
                     "gap": t - last_auth[0], "margin_s": margin_s},
                    {"kind": "pure", **cfg, "t": t},
                )
                return
            last_auth = (t, a)
    for cyc in range(cycles):
        missing = set(range(n)) - per_cycle.get(cyc, set())
        if missing:
            p.violation(
                {"clause": "C:runner-never-authorised-in-cycle", "n": n},
                {**cfg, "cycle": cyc, "missing": sorted(missing)},
                {"kind": "pure", **cfg, "cycle": cyc},
            )
            return


def _pure_unit(item) -> Partial:
    from pynenc.orchestrator.atomic_service import can_run_atomic_service

    n, interval_min, grid, cycles = item[:4]
    p = Partial()
    interval_s = interval_min * 60
    slot_s = interval_s / n
    for margin_min in (item[4] if len(item) > 4 else _margins(slot_s)):
        margin_s = margin_min * 60
        for offset in OFFSETS:
            for hist in (False, True, "ties") if offset == 0.0 else (False,):
                runners = _runners(n, hist is True, ties=hist == "ties")
                base = offset - (offset % interval_s) if offset else 0.0
                cfg = dict(n=n, interval_min=interval_min, margin_min=margin_min, offset=offset,
                           history=hist)
                series = []
                for t in _instants(n, interval_s, margin_s, grid, cycles, offset):
                    auth = tuple(
                        k
                        for k in range(n)
                        if can_run_atomic_service(f"r{k}", runners, t, interval_min, margin_min)
                    )
                    p.count("evaluations", n)
                    p.add("distinct_outcomes", (n, auth))
                    series.append((t, auth))
                # unknown runner is never authorised (n>1), also with an empty list
                if n > 1 and can_run_atomic_service("nobody", runners, base + 1.0, interval_min, margin_min):
                    p.violation({"clause": "A:unknown-runner-authorised", "n": n}, cfg,
                                {"kind": "pure", **cfg})
                p.count("states")  # one configuration = one explored "state" of the input space
                p.add("configs", (n, interval_min, margin_min, offset, hist))
                _check_series(p, cfg, series, n, interval_s, margin_s, cycles, base)
                if len(p.samples) < 2:
                    p.sample({**cfg, "first_instants": [[t, list(a)] for t, a in series[:6]]})
    return p


POOL = "ABCD"


def _member_lists() -> list[str]:
    """every non-empty subset of <= 3 of the 4 pool runners, in creation order."""
    import itertools

    return ["".join(c) for k in (1, 2, 3) for c in itertools.combinations(POOL, k)]


def _member_series(members: str, interval_min: float, margin_min: float, grid: int):
    from pynenc.orchestrator.atomic_service import ActiveRunnerInfo, can_run_atomic_service

    rs = []
    for m in members:
        t = datetime.fromtimestamp(1000.0 + POOL.index(m), tz=UTC)
        rs.append(ActiveRunnerInfo(f"r{m}", t, t, True))
    n = len(members)
    series = []
    for t in _instants(n, interval_min * 60, margin_min * 60, grid, 1, 0.0):
        auth = tuple(k for k, m in enumerate(members) if can_run_atomic_service(f"r{m}", rs, t, interval_min, margin_min))
        series.append((t, auth))
    return series


def _member_unit(item) -> Partial:
    """Membership changes: the active set changes from one list to another (runners die, join, or both at once, so
    that survivors change position with or without a change of the count); every runner of the first list has asked
    during a whole cycle before the change, then the oracle is applied to a whole cycle under the second list."""
    interval_min, margin_min, grid = item
    p = Partial()
    lists = _member_lists()
    for first in lists:
        for second in lists:
            if first == second:
                continue
            _member_series(first, interval_min, margin_min, grid)
            series = _member_series(second, interval_min, margin_min, grid)
            n = len(second)
            cfg = dict(n=n, interval_min=interval_min, margin_min=margin_min, members_before=first, members_after=second)
            q = Partial()
            _check_series(q, cfg, series, n, interval_min * 60, margin_min * 60, 1, 0.0)
            for v in q.violations:
                v["signature"]["after"] = "membership-change"
                v["replay"]["kind"] = "membership"
            p.merge(q)
            p.count("states")
            p.count("membership_changes")
            p.count("evaluations", n * len(series))
            p.add("distinct_outcomes", ("m", n, tuple(sorted({a for _, a in series}))))
    return p


def _orch_unit(item) -> Partial:
    """Same oracle through should_run_atomic_service of a real orchestrator (virtual clock)."""
    backend, n, interval_min, margin_min = item[:4]
    batch = len(item) > 4 and item[4]
    from pynenc.runner.runner_context import RunnerContext

    p = Partial()
    env.reset_world()
    app = env.make_app(
        backend,
        app_id=f"c12{backend}",
        atomic_service_interval_minutes=interval_min,
        atomic_service_spread_margin_minutes=margin_min,
        runner_considered_dead_after_minutes=1e6,
    )
    ctxs = [RunnerContext("ThreadRunner", f"r{k}") for k in range(n)]
    if batch:
        # one heartbeat report for all of them (what a parent runner does for its children): one creation time
        env.CLOCK.frozen = True
        app.orchestrator.register_runner_heartbeats([c.runner_id for c in ctxs], can_run_atomic_service=True)
        env.CLOCK.frozen = False
    else:
        for c in ctxs:  # creation order = position
            app.orchestrator.register_runner_heartbeats([c.runner_id], can_run_atomic_service=True)
    interval_s = interval_min * 60
    margin_s = margin_min * 60
    base = env.CLOCK.now - (env.CLOCK.now % interval_s) + interval_s
    cfg = dict(backend=backend, n=n, interval_min=interval_min, margin_min=margin_min, **({"batch_registered": True} if batch else {}))
    series = []
    cycles = 2
    for t in _instants(n, interval_s, margin_s, 120, cycles, base):
        auth = []
        for k, c in enumerate(ctxs):
            # every runner asks "at the same instant": the clock is frozen at t
            env.CLOCK.frozen = True
            env.CLOCK.now = t
            before = env.CLOCK.reads
            ok = app.orchestrator.should_run_atomic_service(c)
            p.count("evaluations")
            if ok:
                auth.append(k)
            p.max("clock_reads_per_question", env.CLOCK.reads - before)
        series.append((t, tuple(auth)))
    p.count("states")
    _check_series(p, cfg, series, n, interval_s, margin_s, cycles, base)
    p.sample({**cfg, "first_instants": [[t, list(a)] for t, a in series[:4]]})
    return p


def _loop_unit(item) -> Partial:
    """The same oracle through the runners' own loop steps: at every instant each runner performs what BaseRunner.run
    does per iteration (report the heartbeats of its children, then the atomic-service check); who executed the
    services is what the recorder standing in for trigger_loop_iteration saw."""
    backend, n, interval_min, margin_min = item
    from pynenc.runner.thread_runner import ThreadRunner

    p = Partial()
    env.reset_world()
    conf = dict(atomic_service_interval_minutes=interval_min, atomic_service_spread_margin_minutes=margin_min,
                atomic_service_check_interval_minutes=0.0, runner_considered_dead_after_minutes=1e6)
    if backend == env.MEM:
        one = env.make_app(backend, app_id="c12loop", **conf)
        apps = [one] * n
    else:
        db = env.reuse_db("c12loop")
        apps = [env.make_app(backend, app_id="c12loop", db=db, **conf) for _ in range(n)]
    runners = []
    ran: list = []
    for k, app in enumerate(apps):
        keep = getattr(app, "_runner_instance", None)
        r = ThreadRunner(app)
        app._runner_instance = keep
        runners.append(r)
    for app in {id(a): a for a in apps}.values():
        app.trigger.trigger_loop_iteration = lambda: ran.append(env.CLOCK.now)  # type: ignore[method-assign]
    interval_s, margin_s = interval_min * 60, margin_min * 60
    base = env.CLOCK.now - (env.CLOCK.now % interval_s) + interval_s
    env.CLOCK.frozen = True
    env.CLOCK.now = base - 1.0
    for r in runners:  # creation order = position; every runner has asked once before the observed cycles start
        r.app.orchestrator.should_run_atomic_service(r.runner_context)
        env.CLOCK.now = round(env.CLOCK.now + 0.01, 6)
    cfg = dict(backend=backend, n=n, interval_min=interval_min, margin_min=margin_min, through="runner-loop")
    series = []
    cycles = 2
    for t in _instants(n, interval_s, margin_s, 60, cycles, base):
        env.CLOCK.now = t
        auth = []
        for k, r in enumerate(runners):
            before = len(ran)
            r._report_child_runner_heartbeats()
            r._last_atomic_service_check_time = 0.0
            r._check_atomic_services()
            # the loop goes on iterating; until the check interval has passed its iterations only report heartbeats
            r._report_child_runner_heartbeats()
            p.count("evaluations")
            if len(ran) > before:
                auth.append(k)
        series.append((t, tuple(auth)))
    env.CLOCK.frozen = False
    p.count("states")
    _check_series(p, cfg, series, n, interval_s, margin_s, cycles, base)
    return p


def run(ctx: Ctx) -> None:
    nmax = 16 if ctx.thorough else 8
    grid = 3000 if ctx.thorough else 600
    cycles = 3
    items = [(n, i, grid, cycles) for n in range(1, nmax + 1) for i in INTERVALS_MIN]
    if not ctx.thorough:
        # quick: larger pools only where consecutive windows touch (margin 0: start_k + slot vs start_k+1 in doubles),
        # boundaries and their neighbours on a coarse grid
        items += [(n, i, 16, cycles, [0.0]) for n in range(nmax + 1, 17) for i in INTERVALS_MIN]
    rot = ctx.seed % len(items)
    items = items[rot:] + items[:rot]
    for part in par.pmap(_pure_unit, items):
        ctx.merge(part)
    for part in par.pmap(_member_unit, [(i, m, 300 if ctx.thorough else 60)
                                        for i, m in ((1.0, 0.0), (1.0, 0.1), (6.0, 0.5), (1.0, 1.0))]):
        ctx.merge(part)
    oitems = [
        (b, n, i, m)
        for b in env.BACKENDS
        for n in ((1, 2, 3, 5) if ctx.thorough else (1, 2, 3))
        for i, m in ((1.0, 0.0), (1.0, 0.1), (5.0, 1.0), (1.0, 1.0))
    ]
    oitems += [(b, n, 1.0, 0.1, True) for b in env.BACKENDS for n in (2, 3)]
    for part in par.pmap(_orch_unit, oitems):
        ctx.merge(part)
    for part in par.pmap(_loop_unit, [(b, n, 1.0, 0.1) for b in env.BACKENDS for n in (2, 3)]):
        ctx.merge(part)
    ctx.rule = (
        "every (runner count, cycle length, margin, epoch offset) configuration x every instant of a "
        "dense grid plus all slot boundaries +-{0,1ulp,1ms}; all runners asked at the same instant; "
        "states = configurations, transitions = instants, evaluations = can_run_atomic_service calls; also through both "
        "orchestrators' should_run_atomic_service, after every change of the active set from one to another of the 14 "
        "subsets (<= 3) of 4 runners (a cycle of questions under the first, the oracle over a cycle under the second), and through the runners' own loop steps (heartbeat report + atomic-service check)"
    )
    ctx.extra["traces_validated_against_impl"] = ctx.counters.get("transitions", 0)
    ctx.extra["runner_counts"] = f"1..{nmax}" + ("" if ctx.thorough else " (+ 9..16 with margin 0 at the slot boundaries)")
    ctx.assume("IEEE double arithmetic; gap tolerance 1e-9 s (4e-6 s at epoch offsets > 1e9)")
    ctx.assume("instants are sampled (dense grid + all boundaries); between two samples the "
               "implementation is piecewise constant because it only compares t mod cycle with two bounds")


def replay(payload: dict) -> bool:
    from pynenc.orchestrator.atomic_service import can_run_atomic_service

    r = payload["replay"]
    if r.get("kind") == "membership":
        p = Partial()
        _member_series(r["members_before"], r["interval_min"], r["margin_min"], 60)
        series = _member_series(r["members_after"], r["interval_min"], r["margin_min"], 60)
        _check_series(p, r, series, r["n"], r["interval_min"] * 60, r["margin_min"] * 60, 1, 0.0)
        return bool(p.violations)
    if r.get("kind") != "pure":
        return False
    n = r["n"]
    runners = _runners(n, r.get("history", False) is True, ties=r.get("history") == "ties")
    p = Partial()
    interval_s = r["interval_min"] * 60
    margin_s = r["margin_min"] * 60
    offset = r["offset"]
    base = offset - (offset % interval_s) if offset else 0.0
    series = []
    for t in _instants(n, interval_s, margin_s, 600, 3, offset):
        auth = tuple(
            k for k in range(n)
            if can_run_atomic_service(f"r{k}", runners, t, r["interval_min"], r["margin_min"])
        )
        series.append((t, auth))
    _check_series(p, r, series, n, interval_s, margin_s, 3, base)
    return bool(p.violations)
