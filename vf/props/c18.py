"""C18 — workflow operations replay deterministically and never mix between workflows.

E2/E3 (histories): every program of 1..3 (thorough 1..4) workflow operations from {random, utc_now, uuid,
    execute_task(sub, 0), execute_task(sub, 1)} is run by ONE interpreter task (vf/tasks_c18.py) through the
    real path (task(...) -> get_invocations_to_run -> invocation.run), for every re-execution history:
      retry            A1 A2 A3           (RetryError, max_retries=3)
      kill@j           A1 dies before operation j (j = n: after the last one), ThreadRunner._kill_and_reroute, A2
      recover@j        A1 dies before operation j, runner silent, recover_running_invocations, A2
      two-sequential   A1 then B1         (B = the same task submitted again = a second workflow)
      two-alternating  A1 B1 A2 B2 A3 B3  (both retried twice, interleaved in one runner)
      two-seq-retry    A1 A2 A3 B1 B2 B3
    each in the same process image (one app object, the same Task objects; memory and SQLite), in fresh
    process images (a NEW Pynenc object + newly bound Task objects on the same SQLite file before every poll)
    and with two runner images on one SQLite file taking turns (execution 1, 3, .. in X, 2, 4, .. in Y).
E1 (schedules): two worker threads of one process run the same task for two workflows concurrently under the
    controlled scheduler (line points in workflow_deterministic / workflow_context / mem_state_backend, SQL
    statement points for SQLite; plus two simulated processes on one SQLite file as a control).

Oracle (all from harness-side observations: the values the bodies obtained, the launches seen at
orchestrator.route_call, the invocations read back through the state backend, a dump of the workflow-data store):
  per workflow W (= a top-level invocation):
    replay-diverges                     value i of execution k != value i of the first execution (random/utc_now/uuid)
    sub-invocation-differs-between-attempts   execute_task returned another invocation than on the first execution
    sub-task-launched-more-than-once / sub-task-not-launched-for-workflow   launches per (W, call) != 1
    sub-invocation-of-other-call        the invocation handed back has other arguments than the call
    sub-invocation-of-other-workflow    the invocation handed back was launched by / belongs to another workflow
  between workflows:
    record-under-wrong-workflow         a value first obtained by W is missing in W's stored data or present in W''s
    workflows-receive-same-value        W' obtains a value that W obtained before (random/uuid seeds come from the
                                        workflow id, timestamps from a per-workflow base time read from the strictly
                                        increasing virtual clock: equal values can only come from a shared record / seed)
    values-depend-on-process-history    the same world run twice in one process yields other values (schedule part)
Report, genuine defect, signatures, suggested fix, mutants: notes/c18.md
"""

from __future__ import annotations

import itertools
import types
from typing import Any

from vf import e1, env, par, sched, tasks
from vf import tasks_c18 as T
from vf.report import Ctx, Partial, canon
from vf.worlds import runner_ctx

MOD = "vf.props.c18"
VALUE_OPS = ("random", "utc_now", "uuid")
HISTORIES = ("retry", "kill", "recover", "two-sequential", "two-alternating", "two-seq-retry", "early-retry", "two-seq-early-retry")
# a violation of a composite history is attributed to the simplest sub-history of the same
# (program, backend, image) that shows the same (clause, op): history minimisation
SUB_HISTORIES = {"two-alternating": ("retry", "two-sequential"), "two-seq-retry": ("retry", "two-sequential")}


def programs(maxlen: int) -> list[tuple]:
    out: list[tuple] = []
    for n in range(1, maxlen + 1):
        out.extend(itertools.product(T.OPS, repeat=n))
    return out


# ---------------------------------------------------------------------------
# environment: the one clock read of the workflow code goes through `datetime.datetime.now`
# (module attribute access), which vf.env does not rebind: give that module a datetime shim.
# ---------------------------------------------------------------------------
class _DatetimeShim(types.ModuleType):
    _vf_datetime_shim = True

    def __init__(self) -> None:
        import datetime as _dt

        super().__init__("datetime")
        self._real = _dt
        self.datetime = env.VDatetime

    def __getattr__(self, name: str) -> Any:
        return getattr(self._real, name)


def prepare() -> None:
    import pynenc.workflow.workflow_deterministic as wd

    if not getattr(wd.datetime, "_vf_datetime_shim", False):
        wd.datetime = _DatetimeShim()


# ---------------------------------------------------------------------------
# one world: apps (process images), monitors, read-out
# ---------------------------------------------------------------------------
class Images:
    """Factory of process images on one backend instance."""

    def __init__(self, backend: str, app_id: str = "c18") -> None:
        prepare()
        env.reset_world()
        T.reset()
        self.backend = backend
        self.app_id = app_id
        self.db = env.reuse_db(app_id) if backend == env.SQLITE else None
        self.launches: list[dict] = []
        self.n_images = 0
        self.first: Any = None

    def new(self) -> Any:
        if self.backend == env.MEM and self.first is not None:
            return self.first  # the memory backend lives inside the app object: one image only
        app = env.make_app(self.backend, app_id=self.app_id, db=self.db, max_pending_seconds=5.0,
                           runner_considered_dead_after_minutes=1.0, cached_status_time=0.0)
        app.c18_prog = tasks.bind(app, T.wf_prog, max_retries=3)
        app.c18_sub = tasks.bind(app, T.wf_sub, max_retries=2)
        self._monitor(app)
        self.n_images += 1
        if self.first is None:
            self.first = app
        return app

    def _monitor(self, app: Any) -> None:
        from pynenc import context

        orch = app.orchestrator
        orig = orch.route_call
        launches = self.launches

        def route_call(call: Any) -> Any:
            inv = orig(call)
            cur = context.get_dist_invocation_context(app.app_id)
            launches.append({"by": str(cur.invocation_id) if cur is not None else None,
                             "task": call.task.task_id.func_name, "args": dict(call.arguments.kwargs),
                             "inv": str(inv.invocation_id)})
            return inv

        orch.route_call = route_call

    # -- read-out (observations) ------------------------------------------
    def store(self, app: Any) -> dict[str, list]:
        """workflow id -> list of stored values (a dump of the concrete store: an observation)."""
        sb = app.state_backend
        out: dict[str, list] = {}
        if self.backend == env.MEM:
            for wf, d in sb._workflow_data.items():
                out[str(wf)] = list(d.values())
            return out
        from pynenc.util.sqlite_utils import create_sqlite_connection

        with create_sqlite_connection(sb.sqlite_db_path) as conn:
            cur = conn.execute(f"SELECT workflow_id, data_key, data_value FROM {sb.tables.WORKFLOW_DATA} ORDER BY rowid")
            rows = cur.fetchall()
            cur.close()
        for wf, _k, v in rows:
            out.setdefault(str(wf), []).append(app.client_data_store.deserialize(v))
        return out

    def subs(self, app: Any, log: list) -> dict:
        """Every sub-task invocation handed to a body, seen at route_call, or known to the orchestrator."""
        from pynenc.identifiers.task_id import TaskId

        seen = {v for r in log for k, v in r["values"] if k.startswith("exec")}
        seen |= {l["inv"] for l in self.launches if l["task"] == "wf_sub"}
        known = {str(i) for i in app.orchestrator.get_task_invocation_ids(TaskId(T.__name__, "wf_sub"))}
        out = {i: self.invocation_info(app, i) for i in sorted(seen | known)}
        for i, info in out.items():
            if info is not None:
                info["in_orchestrator"] = i in known
        return out

    def invocation_info(self, app: Any, inv_id: str) -> dict | None:
        try:
            inv = app.state_backend.get_invocation(inv_id)
        except Exception as e:  # noqa: BLE001
            return {"error": type(e).__name__}
        if inv is None:
            return None
        return {"task": inv.task.task_id.func_name, "args": dict(inv.arguments.kwargs),
                "workflow": str(inv.workflow.workflow_id),
                "parent": str(inv.parent_invocation_id) if inv.parent_invocation_id else None}


def step(app: Any, rid: str, events: list) -> str | None:
    """One poll of a runner: claim at most one invocation through the real path and run it."""
    ctx = runner_ctx(rid)
    got = list(app.orchestrator.get_invocations_to_run(1, ctx))
    if not got:
        return None
    inv = got[0]
    inv_id = str(inv.invocation_id)
    try:
        inv.run(ctx)
        events.append(("ran", inv_id, inv.task.task_id.func_name, None))
    except T.Die:
        events.append(("died", inv_id, inv.task.task_id.func_name, None))
    except sched.Abort:
        raise
    except Exception as e:  # noqa: BLE001 - run re-raises what the body raised
        events.append(("raised", inv_id, inv.task.task_id.func_name, f"{type(e).__name__}: {e}"[:200]))
    return inv_id


def run_history(backend: str, image: str, prog: tuple, history: str, die_at: int = -1) -> dict:
    """Executes one history in a new world; returns the observations.
    image: 'same' (one image submits and runs everything), 'fresh' (a new image before every poll),
    'ping-pong' (a client image and two runner images X, Y: body execution number 1, 3, 5.. of the
    interpreter task in X, number 2, 4, .. in Y)."""
    im = Images(backend)
    fresh = image == "fresh"
    client = im.new()
    events: list = []
    two = history.startswith("two")
    fail_until = 2 if history in ("retry", "two-alternating", "two-seq-retry") else 0
    dj = die_at if history in ("kill", "recover") else -1
    # early retry: the first attempt asks for a retry *before* operation number die_at (what it had not reached is
    # performed for the first time on a retry attempt); in the two-workflow variant only the second workflow does
    rj = die_at if history in ("early-retry", "two-seq-early-retry") else -1
    ids: list[str] = [str(client.c18_prog(list(prog), fail_until, dj, 0, rj if history == "early-retry" else -1).invocation_id)]
    if history == "two-alternating":
        ids.append(str(client.c18_prog(list(prog), fail_until, dj, 1).invocation_id))
    pp: list = []

    def pick() -> Any:
        if fresh:
            return im.new()
        if image == "ping-pong":
            while len(pp) < 2:
                pp.append(im.new())
            return pp[len(T.LOG) % 2]
        return client

    submitted_b = len(ids) == 2
    for _ in range(60):
        app = pick()
        got = step(app, "r1", events)
        if got is not None and events[-1][0] == "died":
            app2 = im.new() if fresh else app
            if history == "kill":
                from pynenc.runner.thread_runner import ThreadRunner

                ThreadRunner(app2, runner_context=runner_ctx("r1"))._kill_and_reroute(got)
            else:
                from pynenc import context, core_tasks

                env.CLOCK.advance(120.0)  # r1 never sent a heartbeat: presumed dead
                context.set_current_app(app2)
                context.set_runner_context(app2.app_id, runner_ctx("rrec"))
                core_tasks.recover_running_invocations.func()
            continue
        if got is None:
            if two and not submitted_b:
                # the first workflow is finished: the same task is submitted again (second workflow)
                ids.append(str((im.new() if fresh else client).c18_prog(list(prog), fail_until, dj, 1, rj).invocation_id))
                submitted_b = True
                continue
            break
    else:
        events.append(("harness", "no-quiescence", None, None))
    reader = im.new() if fresh else client
    reader.state_backend.wait_for_all_async_operations()
    obs = {
        "ids": ids,
        "log": [dict(r) for r in T.LOG],
        "events": events,
        "launches": list(im.launches),
        "sub_log": [dict(r) for r in T.SUB_LOG],
        "store": im.store(reader),
        "status": {i: reader.orchestrator.get_invocation_status(i).name for i in ids},
        "images": im.n_images,
        "expected_runs": 3 if fail_until else (2 if dj >= 0 or history == "early-retry" else (None if rj >= 0 else 1)),
    }
    obs["subs"] = im.subs(reader, obs["log"])
    return obs


# ---------------------------------------------------------------------------
# oracle
# ---------------------------------------------------------------------------
def judge(obs: dict, prog: tuple) -> tuple[list[tuple], int]:
    """Returns ([(clause, op, detail)], number of attempt-vs-attempt comparisons)."""
    out: list[tuple] = []
    ids = obs["ids"]
    log = obs["log"]
    comparisons = 0
    by_wf: dict[str, list[dict]] = {i: [r for r in log if r["inv"] == i] for i in ids}
    # harness sanity / liveness
    for e in obs["events"]:
        if e[0] == "harness":
            out.append((f"harness:{e[1]}", "-", {}))
        if e[0] == "raised" and "RetryError" not in (e[3] or "") and "sub-task: fails for good" not in (e[3] or ""):
            out.append(("operation-raises", "-", {"event": e}))
    for i in ids:
        if obs["status"].get(i) != "SUCCESS":
            out.append(("workflow-did-not-finish", "-", {"workflow": i, "status": obs["status"].get(i),
                                                         "events": obs["events"][-6:]}))
        if obs.get("expected_runs") is not None and len(by_wf[i]) != obs["expected_runs"]:
            out.append(("harness:executions", "-", {"workflow": i, "runs": len(by_wf[i]), "expected": obs["expected_runs"]}))
    # --- per workflow: replay
    for i in ids:
        runs = by_wf[i]
        if not runs:
            continue
        first = runs[0]["values"]
        for r in runs[1:]:
            comparisons += 1
            kinds_done: set = set()
            for pos, (a, b) in enumerate(zip(first, r["values"])):
                kind = a[0] if a[0] in VALUE_OPS else "exec"
                if a[1] != b[1] and kind not in kinds_done:
                    kinds_done.add(kind)
                    clause = "replay-diverges" if kind != "exec" else "sub-invocation-differs-between-attempts"
                    out.append((clause, kind, {"workflow": i, "attempt": r["attempt"], "position": pos,
                                               "first_execution": a[1], "this_execution": b[1]}))
    # --- sub-tasks draw values inside their parent's workflow: their re-execution replays them too
    by_sub: dict = {}
    for r in obs.get("sub_log", []):
        by_sub.setdefault(r["inv"], []).append(r)
    for sid, runs in by_sub.items():
        for r in runs[1:]:
            comparisons += 1
            if tuple(r["values"]) != tuple(runs[0]["values"]):
                out.append(("sub-task-replay-diverges", "random+uuid",
                            {"sub_invocation": sid, "attempt": r["attempt"], "first_execution": runs[0]["values"],
                             "this_execution": r["values"]}))
                break
    # --- sub-tasks: launches per (workflow, call), what was handed back
    launched_by = {l["inv"]: l for l in obs["launches"] if l["task"] == "wf_sub"}
    for i in ids:
        for arg in (0, 1, 2):
            op = f"exec{arg}"
            reached = [v for r in by_wf[i] for k, v in r["values"] if k == op]
            if not reached:
                continue
            n = sum(1 for l in launched_by.values() if l["by"] == i and l["args"].get("x") == arg)
            # the same count read back: sub-task invocations the orchestrator knows for this workflow and call
            nb = sum(1 for info in obs["subs"].values() if info and info.get("in_orchestrator") and info.get("task") == "wf_sub"
                     and info.get("workflow") == i and info.get("args", {}).get("x") == arg)
            if n > 1 or nb > 1:
                out.append(("sub-task-launched-more-than-once", "exec",
                            {"workflow": i, "arg": arg, "launches": n, "invocations_in_orchestrator": nb}))
            elif n == 0 or nb == 0:
                out.append(("sub-task-not-launched-for-workflow", "exec",
                            {"workflow": i, "arg": arg, "handed_back": reached[0], "launches": n,
                             "invocations_in_orchestrator": nb}))
            for v in dict.fromkeys(reached):
                info = obs["subs"].get(v)
                if not info or "error" in info:
                    out.append(("sub-invocation-unknown", "exec", {"workflow": i, "inv": v, "info": info}))
                    continue
                if info["task"] != "wf_sub" or info["args"].get("x") != arg:
                    out.append(("sub-invocation-of-other-call", "exec", {"workflow": i, "call": op, "got": info}))
                l = launched_by.get(v)
                if info["workflow"] != i or (l is not None and l["by"] != i):
                    out.append(("sub-invocation-of-other-workflow", "exec",
                                {"workflow": i, "call": op, "inv": v, "belongs_to": info["workflow"],
                                 "launched_by": l["by"] if l else None}))
    # --- between workflows: who obtained a value first, where is it stored
    first_by: dict[Any, tuple[str, str]] = {}
    for r in log:
        for k, v in r["values"]:
            first_by.setdefault((("exec" if k.startswith("exec") else k), v), (r["inv"], k))
    store = obs["store"]
    for (kind, v), (w, _k) in first_by.items():
        own = v in store.get(w, [])
        others = [x for x in store if x != w and v in store[x]]
        if not own or others:
            out.append(("record-under-wrong-workflow", kind,
                        {"value": v, "obtained_first_by": w, "stored_for_own_workflow": own, "stored_under": others}))
    if len(ids) == 2:
        for r in log:
            for k, v in r["values"]:
                kind = "exec" if k.startswith("exec") else k
                w = first_by[(kind, v)][0]
                if w != r["inv"] and kind in VALUE_OPS:
                    out.append(("workflows-receive-same-value", kind,
                                {"value": v, "first_obtained_by": w, "also_obtained_by": r["inv"], "attempt": r["attempt"]}))
    # one entry per (clause, op)
    uniq: dict[tuple, tuple] = {}
    for c in out:
        uniq.setdefault((c[0], c[1]), c)
    return list(uniq.values()), comparisons


def cases_of(prog: tuple) -> list[tuple[str, int]]:
    n = len(prog)
    out: list[tuple[str, int]] = [("retry", -1)]
    out += [("kill", j) for j in range(0, n + 1)]
    out += [("recover", j) for j in range(0, n + 1)]
    out += [("two-sequential", -1), ("two-alternating", -1), ("two-seq-retry", -1)]
    out += [("early-retry", j) for j in range(0, n)]
    out += [("two-seq-early-retry", j) for j in range(0, n)]
    return out


def _unit(item: tuple) -> Partial:
    backend, image, prog = item
    p = Partial()
    explained: dict[tuple, list] = {}  # (clause, op) -> histories of this unit showing it
    for history, die_at in cases_of(prog):
        obs = run_history(backend, image, prog, history, die_at)
        found, comps = judge(obs, prog)
        p.add("states", (prog, history, die_at, backend, image))
        p.count("cases")
        p.count("transitions", len(obs["log"]))
        p.count("traces_validated_against_impl", comps)
        p.count("process_images", obs["images"])
        p.count("values_obtained", sum(len(r["values"]) for r in obs["log"]))
        p.count("sub_invocations_seen", len(obs["subs"]))
        if history == "two-alternating" and len(prog) == 3 and len(set(prog)) == 3:
            p.sample({"program": list(prog), "history": history, "backend": backend, "image": image,
                      "executions": [{"workflow": r["inv"][-4:], "attempt": r["attempt"],
                                      "values": [list(v) for v in r["values"]]} for r in obs["log"]]}, limit=1)
        for clause, op, detail in found:
            name = history
            for sub in SUB_HISTORIES.get(history, ()):
                if sub in explained.get((clause, op), ()):
                    name = sub
                    break
            explained.setdefault((clause, op), []).append(history)
            sig = {"clause": clause, "history": name, "image": image, "backend": backend, "op": op}
            detail = dict(detail, program=list(prog), history_run=history, die_at=die_at,
                          executions=[(r["inv"][-4:], r["attempt"], r["values"]) for r in obs["log"]][:8])
            p.violation(sig, detail, {"kind": "history", "backend": backend, "image": image, "prog": list(prog),
                                      "history": history, "die_at": die_at, "clause": clause, "op": op})
    return p


# ---------------------------------------------------------------------------
# E1: two workers, two workflows, concurrently
# ---------------------------------------------------------------------------
FILES = ["pynenc.workflow.workflow_deterministic", "pynenc.workflow.workflow_context",
         "pynenc.state_backend.mem_state_backend"]


class Scn:
    def __init__(self, desc: dict) -> None:
        self.desc = desc
        self.points = (FILES, "line") if desc["backend"] == env.MEM else None

    def execute(self, choices: list[int], expect: Any) -> sched.Execution:
        d = self.desc
        prog = tuple(d["prog"])
        im = Images(d["backend"], app_id="c18s")
        client = im.new()
        procs = d.get("procs", "threads")
        apps = [client, client] if procs == "threads" or d["backend"] == env.MEM else [im.new(), im.new()]
        fail_until = d.get("fail_until", 0)
        ids = [str(client.c18_prog(list(prog), fail_until, -1, tag).invocation_id) for tag in (0, 1)]
        events: list = []
        # both workers have claimed their invocation (real path) before they start running concurrently
        claimed = []
        for j in (0, 1):
            got = list(apps[j].orchestrator.get_invocations_to_run(1, runner_ctx(f"r{j}")))
            claimed.append(got[0])
        client.state_backend.wait_for_all_async_operations()
        T.HOOKS["tid"] = lambda: (sched.ACTIVE.me().tid if sched.ACTIVE is not None and sched.ACTIVE.me() else -1)

        def worker(j: int) -> Any:
            def f() -> None:
                # a runner thread: runs what it has claimed; in the retry scenario it then keeps polling until the
                # queue is empty (retries of either workflow and sub-invocations are run by whoever gets them)
                ctx = runner_ctx(f"r{j}")
                inv = claimed[j]
                for _ in range(12):
                    name = inv.task.task_id.func_name
                    try:
                        inv.run(ctx)
                        events.append(("ran", str(inv.invocation_id), name, None))
                    except sched.Abort:
                        raise
                    except Exception as e:  # noqa: BLE001
                        events.append(("raised", str(inv.invocation_id), name, f"{type(e).__name__}: {e}"[:200]))
                    if not fail_until:
                        return  # nothing is re-queued for this worker's workflow: the thread's job is done
                    got = list(apps[j].orchestrator.get_invocations_to_run(1, ctx))
                    if not got:
                        return
                    inv = got[0]
                events.append(("harness", "no-quiescence", None, None))
            return f

        s = sched.Scheduler(choices, expect, max_points=6000, lazy=("_add_histories",))
        ex = s.run([("w0", worker(0)), ("w1", worker(1))])
        client.state_backend.wait_for_all_async_operations()
        obs = {"ids": ids, "log": [dict(r) for r in T.LOG], "events": events, "launches": list(im.launches),
               "sub_log": [dict(r) for r in T.SUB_LOG],
               "store": im.store(client), "images": im.n_images,
               "status": {i: client.orchestrator.get_invocation_status(i).name for i in ids}}
        obs["subs"] = im.subs(client, obs["log"])
        ex.obs = obs
        return ex

    def digest(self, ex: sched.Execution) -> Any:
        o = ex.obs
        return (canon([(r["inv"], r["attempt"], r["values"]) for r in o["log"]]), canon(o["status"]),
                canon(sorted((k, sorted(map(repr, v))) for k, v in o["store"].items())), ex.outcome)

    def check(self, ex: sched.Execution, p: Partial) -> None:
        d = self.desc
        base = {"history": "two-" + d.get("procs", "threads"),
                "image": "same" if d.get("procs", "threads") == "threads" else "fresh", "backend": d["backend"]}
        if ex.outcome != "done":
            p.violation({"clause": f"no-progress:{ex.outcome}", **base, "op": "-", "_no_windows": True},
                        {"events": ex.obs["events"][-6:]}, {})
            return
        found, comps = judge(ex.obs, tuple(d["prog"]))
        p.count("attempt_comparisons_in_schedules", comps)
        # isolation under concurrency: what a workflow draws (random / uuid: functions of the workflow and the
        # position only) must not depend on how the other workflow's execution is interleaved with it; reference =
        # the same two workflows (same ids: the id source is a counter) under the default schedule, where the
        # workers never preempt each other inside an operation
        if ex.deviations > 0:
            ref = self._reference()
            for r in ex.obs["log"]:
                want = ref.get(r["inv"])
                if want is None:
                    continue
                p.count("cross_schedule_comparisons")
                for pos, (kind, val) in enumerate(r["values"]):
                    if kind in ("random", "uuid") and pos < len(want) and want[pos] != (kind, val):
                        found.append(("value-depends-on-concurrent-workflow", kind,
                                      {"workflow": r["inv"], "attempt": r["attempt"], "position": pos, "alone": want[pos][1],
                                       "interleaved": val}))
                        break
        # Exploration only (p is the explorer's accumulator, which has already counted this schedule; minimisation
        # and replay pass an empty Partial and get everything): a (clause, op) that the default schedule of this
        # scenario shows as well, or that this process has already reported for a preempting schedule, would get the
        # very same signature (see _fold: schedule = default | preempted) - it is counted, not minimised again.
        exploring = bool(p.counters.get("schedules")) and ex.deviations > 0
        key = canon(d)
        for clause, op, detail in found:
            p.count("violating_observations_in_schedules")
            if exploring:
                if (clause, op) in self._default_shows(key):
                    continue
                if (clause, op) in _SEEN_PREEMPTED.setdefault(key, set()):
                    continue
                _SEEN_PREEMPTED[key].add((clause, op))
            p.violation({"clause": clause, **base, "op": op, "_no_windows": True},
                        dict(detail, program=d["prog"],
                             executions=[(r["inv"][-4:], r["attempt"], r["thread"], r["values"]) for r in ex.obs["log"]][:8]), {})

    def _reference(self) -> dict:
        key = canon(self.desc)
        got = _REFERENCE.get(key)
        if got is None:
            ex0 = self.execute([], None)
            got = {}
            for r in ex0.obs["log"]:
                got.setdefault(r["inv"], [(k, v) for k, v in r["values"]])
            _REFERENCE[key] = got
        return got

    def _default_shows(self, key: str) -> set:
        got = _DEFAULT_SHOWS.get(key)
        if got is None:
            ex0 = self.execute([], None)
            got = _DEFAULT_SHOWS[key] = {(c, o) for c, o, _ in judge(ex0.obs, tuple(self.desc["prog"]))[0]}
        return got


_DEFAULT_SHOWS: dict[str, set] = {}
_REFERENCE: dict[str, dict] = {}
_SEEN_PREEMPTED: dict[str, set] = {}


def build(desc: dict) -> Scn:
    return Scn(desc)


def schedule_descs(ctx: Ctx) -> list[dict]:
    k = 1 if ctx.thorough else 0
    out = []
    for backend in env.BACKENDS:
        sq = backend == env.SQLITE
        out.append(dict(backend=backend, prog=["random"], bound=2 + k))
        out.append(dict(backend=backend, prog=["random", "uuid"], bound=(2 if sq else 1) + k))
        out.append(dict(backend=backend, prog=["utc_now", "exec0", "random"], bound=1 + k))
        out.append(dict(backend=backend, prog=["exec0", "exec1"], bound=1 + k))
        out.append(dict(backend=backend, prog=["random", "exec0"], fail_until=1, bound=1 + k))
    out.append(dict(backend=env.SQLITE, prog=["random", "exec0", "uuid"], procs="processes", bound=2 + k))
    return out


# ---------------------------------------------------------------------------
def _fold(ctx: Ctx) -> None:
    """One finding per (clause, history, image[, deviations]): the backends and operation kinds on which it
    was seen become part of the signature (`backend` = 'all' if both, `op` = the sorted kinds joined by '+')."""
    groups: dict[str, dict] = {}
    order: list[str] = []
    for v in ctx.violations:
        s = v["signature"]
        if "deviations" in s:
            # schedule-independent identity: does it need a preemption at all?
            s["schedule"] = "default" if s.pop("deviations") == 0 else "preempted"
        key = canon({k: x for k, x in s.items() if k not in ("backend", "op")})
        g = groups.get(key)
        if g is None:
            g = groups[key] = {"first": v, "backends": set(), "ops": set(), "n": 0}
            order.append(key)
        g["backends"].add(s.get("backend"))
        g["ops"].add(s.get("op"))
        g["n"] += 1
    folded = []
    for key in order:
        g = groups[key]
        v = g["first"]
        sig = dict(v["signature"])
        bs = sorted(x for x in g["backends"] if x)
        sig["backend"] = "all" if set(bs) == set(env.BACKENDS) else "+".join(bs)
        sig["op"] = "+".join(sorted(x for x in g["ops"] if x))
        v = {"signature": sig, "detail": v["detail"], "replay": v["replay"]}
        folded.append(v)
    ctx.violations[:] = folded


def _depends_on_process_history(d: dict, p: Partial) -> bool:
    """The same world is built and run twice in this process under the default schedule.  If the workflows obtain
    other values the second time, the operations depend on state that outlives the world (process-level state of the
    workflow code): a violation of 'the same every time ... in the same process', reported here because the schedule
    explorer (rightly) refuses scenarios that are not reproducible."""
    scn = build(d)
    e1._set_points(scn)
    try:
        a = scn.execute([], None)
        b = scn.execute([], None)
    finally:
        sched.clear_points()
    if scn.digest(a) == scn.digest(b):
        return False
    va = [(r["inv"], r["attempt"], r["values"]) for r in a.obs["log"]]
    vb = [(r["inv"], r["attempt"], r["values"]) for r in b.obs["log"]]
    kinds = sorted({("exec" if x[0].startswith("exec") else x[0]) for ra, rb in zip(va, vb)
                    for x, y in zip(ra[2], rb[2]) if x != y}) or ["-"]
    for k in kinds:
        p.violation({"clause": "values-depend-on-process-history", "history": "two-" + d.get("procs", "threads"),
                     "image": "same" if d.get("procs", "threads") == "threads" else "fresh",
                     "backend": d["backend"], "op": k},
                    {"program": d["prog"], "first_run": va[:4], "second_run_of_the_same_world": vb[:4]},
                    {"kind": "rerun", "desc": d})
    return True


MODES = ((env.MEM, "same"), (env.SQLITE, "same"), (env.SQLITE, "fresh"), (env.SQLITE, "ping-pong"))


def run(ctx: Ctx) -> None:
    prepare()
    only = getattr(ctx, "only", None)
    maxlen = 4 if ctx.thorough else 3
    progs = programs(maxlen)
    # execute_task(sub, 2): a sub-task that FAILS before its workflow's body is executed again
    progs += [("exec2",), ("exec2", "random"), ("random", "exec2"), ("exec2", "exec0"), ("uuid", "exec2", "exec2")]
    items = [(backend, image, prog) for prog in progs for backend, image in MODES]
    if only:
        items = [it for it in items if only in f"{it[0]}/{it[1]}/{'-'.join(it[2])}"]
    for part in par.pmap(_unit, items):
        ctx.merge(part)
    ctx.extra["programs"] = len(progs)
    ds = schedule_descs(ctx)
    if only:
        ds = [d for d in ds if only in e1.desc_key(d)]
    ds = [d for d in ds if not _depends_on_process_history(d, ctx)]
    if ds:
        e1.explore_all(ctx, MOD, ds, lambda d: d["bound"])
    _fold(ctx)
    ctx.rule = (f"{len(progs)} programs (all sequences of 1..{maxlen} operations over random|utc_now|uuid|execute_task(sub,0)|"
                "execute_task(sub,1), plus 5 programs with execute_task(sub,2), a sub-task that ends FAILED before the body is executed again) x {memory/same image, SQLite/same image, SQLite/fresh image per poll, SQLite/two runner "
                "images taking turns} x histories {retry x3, kill@j and recover@j for every death position j=0..n, two-sequential, "
                "two-alternating (A1 B1 A2 B2 A3 B3), two-seq-retry}, all through task() -> get_invocations_to_run -> "
                "invocation.run; schedules: two worker threads (and two simulated processes on SQLite) running the same task for "
                "two workflows, every schedule with <= bound deviations (extra.bounds), points at every line of "
                "workflow_deterministic/workflow_context/mem_state_backend or every SQL statement; states = distinct (program, "
                "history, death position, backend, image) cases + distinct schedule outcomes")
    ctx.assume("a fresh process image is a new Pynenc object with newly bound Task objects in the same OS process "
               "(module-level state of pynenc is shared, which is what a module-level counter mutant needs to be caught)")
    ctx.assume("equal random/uuid values in two workflows are treated as mixing: seeds are md5(workflow id : op : n); equal "
               "timestamps likewise (per-workflow base time read from the strictly increasing virtual clock)")
    ctx.assume("violations of composite histories are attributed to the simplest sub-history of the same program/backend/image "
               "showing the same clause and operation kind; signatures are folded over backends and operation kinds")
    ctx.assume("the explored set does not depend on VERIF_SEED (it only rotates the schedule work items inside e1)")


def replay(payload: dict) -> bool:
    prepare()
    r = payload["replay"]
    if r.get("kind") == "schedule":
        return e1.replay_schedule(r)
    if r.get("kind") == "rerun":
        e1.prepare()
        return _depends_on_process_history(r["desc"], Partial())
    obs = run_history(r["backend"], r["image"], tuple(r["prog"]), r["history"], r["die_at"])
    found, _ = judge(obs, tuple(r["prog"]))
    for clause, op, detail in found:
        print("  replayed:", clause, op, canon(detail)[:300])
    return any(c[0] == r["clause"] for c in found)
