"""C16 — the in-memory and the SQLite backends are observationally equivalent.

E2 only: one family of BFS runs (vf.bfs.explore) per component pair (orchestrator, state backend,
trigger store, client data store, broker).  Every run drives the in-memory implementation, the SQLite
implementation and a small reference model (written from the abstract base classes' docstrings and the
declared status lifecycle, never from a mem_* / sqlite_* module) with the same operation history and
compares, after every operation, the result / exception class and a full read-out (every public query
over the small universes).  States are merged only when the canonical concrete dumps of *both*
implementations are equal.

Two kinds of configurations:
  * main  configurations: the operations on which the contract is unambiguous; they must stay silent;
  * probe configurations (name starts with "probe/"): one tiny BFS around each behaviour suspected to
    diverge; whatever they report is a finding with its own signature (config is part of it).
"""

from __future__ import annotations

import itertools
import signal
from datetime import UTC, datetime, timedelta
from typing import Any, Callable

from vf import bfs, dumps, env, par, tasks, tasks_c16
from vf.report import Ctx, Partial
from vf.worlds import runner_ctx

U = 2.0 ** -6  # clock unit of the timed configurations (15625 us: exact as a double and as a datetime)
D = 0.9375  # = 60 U: runner dead-after, max pending and purge age in the timed configurations
TIMED_CONF = dict(auto_final_invocation_purge_hours=D / 3600, max_pending_seconds=D,
                  runner_considered_dead_after_minutes=1.0 / 64)
BASE_DT = datetime(2023, 1, 1, tzinfo=UTC)


def outcome(fn: Callable[[], Any]) -> Any:
    try:
        return fn()
    except Exception as e:  # noqa: BLE001 - the class is the observation
        return ("raise", type(e).__name__)


class Impl(bfs.System):
    """Common part of the real systems: fresh app per reset, one time line per implementation
    (the virtual clock is global), frozen dyadic clock in the timed configurations."""

    def __init__(self, backend: str, cfg: dict) -> None:
        self.backend = backend
        self.name = backend
        self.cfg = cfg
        self.timed = bool(cfg.get("timed"))

    def reset(self) -> None:
        from pynenc import context

        env.reset_world()
        conf = dict(TIMED_CONF) if self.timed else {}
        conf.update(self.cfg.get("conf", {}))
        if self.backend == env.MEM:
            self.app = env.make_app(env.MEM, app_id="c16", **conf)
        else:
            self.app = env.make_app(env.SQLITE, app_id="c16", db=env.reuse_db("c16"), **conf)
        context.set_runner_context(self.app.app_id, runner_ctx("client"))
        env.CLOCK.frozen = self.timed
        self.setup()
        self.now = env.CLOCK.now
        self.t0 = self.now

    def _clock(self) -> None:
        env.CLOCK.frozen = self.timed
        env.CLOCK.now = self.now

    def apply(self, op: tuple) -> Any:
        self._clock()
        try:
            res = self.do(op)
        except Exception as e:  # noqa: BLE001
            res = ("raise", type(e).__name__)
        if self.timed:
            env.CLOCK.now = round(env.CLOCK.now + U, 6)  # every operation takes one unit
        self.now = env.CLOCK.now
        return res

    def readout(self) -> Any:
        self._clock()
        skip = self.cfg.get("skip", ())
        out = tuple((name, outcome(lambda s=spec: self.q(s))) for name, spec in self.cfg["queries"]
                    if not name.startswith(skip))
        self.now = env.CLOCK.now
        return out

    def dump(self) -> Any:
        self._clock()
        d = self.concrete()
        self.now = env.CLOCK.now
        return d

    # -- per component -------------------------------------------------
    def setup(self) -> None:
        raise NotImplementedError

    def do(self, op: tuple) -> Any:
        raise NotImplementedError

    def q(self, spec: tuple) -> Any:
        raise NotImplementedError

    def concrete(self) -> Any:
        raise NotImplementedError


class Model(bfs.System):
    name = "model"

    def __init__(self, cfg: dict) -> None:
        self.cfg = cfg
        self.timed = bool(cfg.get("timed"))

    def apply(self, op: tuple) -> Any:
        try:
            res = self.do(op)
        except ModelRaise as e:
            res = ("raise", e.args[0])
        self.now = round(self.now + U, 6)
        return res

    def readout(self) -> Any:
        skip = self.cfg.get("skip", ())
        out = []
        for name, spec in self.cfg["queries"]:
            if name.startswith(skip):
                continue
            try:
                out.append((name, self.q(spec)))
            except ModelRaise as e:
                out.append((name, ("raise", e.args[0])))
        return tuple(out)

    def dump(self) -> Any:
        return None

    def enabled(self, op: tuple) -> bool:
        return True


class ModelRaise(Exception):
    pass


def _ranker(times: list, now: float, timed: bool) -> Callable[[Any], Any]:
    """timed: exact age w.r.t. now; untimed: rank among all the stamps of the dump."""
    if timed:
        return lambda t: None if t is None else round(now - t, 6)
    order = {t: k for k, t in enumerate(sorted({t for t in times if t is not None}))}
    return lambda t: None if t is None else order[t]


# =====================================================================================
# 1. orchestrator
# =====================================================================================
UNIVERSES = {
    "U1": [("A", 0), ("A", 1), ("B", 0)],  # two calls of one task + another task
    "U2": [("A", 0), ("A", 0), ("B", 1)],  # two invocations of one call + another task
}
STSETS = {"*": None, "REG": ["REGISTERED"], "ACT": ["PENDING", "RUNNING"], "FIN": ["SUCCESS", "FAILED"],
          "REGPEND": ["REGISTERED", "PENDING"], "RETRY": ["RETRY", "REROUTED", "KILLED"]}
RUNNERS = ("r1", "r2", "r3")

# the declared lifecycle (pynenc.invocation.status: the documented table of allowed transitions and
# ownership rules); the backends must apply exactly this table
_L = dict
LIFE = {
    "REGISTERED": _L(to={"PENDING", "CONCURRENCY_CONTROLLED", "CONCURRENCY_CONTROLLED_FINAL"}, avail=True, rel=True),
    "CONCURRENCY_CONTROLLED": _L(to={"REROUTED"}, rel=True),
    "REROUTED": _L(to={"PENDING", "CONCURRENCY_CONTROLLED"}, avail=True, rel=True),
    "PENDING": _L(to={"RUNNING", "KILLED", "REROUTED", "PENDING_RECOVERY"}, req=True, acq=True),
    "PENDING_RECOVERY": _L(to={"REROUTED"}, rel=True, over=True),
    "RUNNING": _L(to={"PAUSED", "KILLED", "RETRY", "SUCCESS", "FAILED", "RUNNING_RECOVERY"}, req=True),
    "RUNNING_RECOVERY": _L(to={"REROUTED"}, rel=True, over=True),
    "PAUSED": _L(to={"RESUMED", "KILLED"}, req=True),
    "RESUMED": _L(to={"PAUSED", "KILLED", "RETRY", "SUCCESS", "FAILED"}, req=True),
    "KILLED": _L(to={"REROUTED"}, rel=True),
    "RETRY": _L(to={"PENDING"}, avail=True, rel=True),
    "SUCCESS": _L(to=set(), final=True, rel=True),
    "FAILED": _L(to=set(), final=True, rel=True),
    "CONCURRENCY_CONTROLLED_FINAL": _L(to=set(), final=True, rel=True),
}
FINAL = {s for s, d in LIFE.items() if d.get("final")}
AVAIL = {s for s, d in LIFE.items() if d.get("avail")}


def orch_queries(cfg: dict) -> list[tuple[str, tuple]]:
    univ = UNIVERSES[cfg.get("universe", "U1")]
    qs: list[tuple[str, tuple]] = []
    for i in range(len(univ)):
        qs.append((f"record[{i}]", ("rec", i)))
    for t in ("A", "B"):
        for a in (None, 0, 1):
            for sk in ("*", "REG", "ACT", "FIN"):
                qs.append((f"existing[{t},a={a},{sk}]", ("existing", t, a, sk)))
    for t in ("A", "B"):
        qs.append((f"task_ids[{t}]", ("task_ids", t)))
    for i in range(len(univ)):
        qs.append((f"call_ids[{i}]", ("call_ids", i)))
    for t in (None, "A"):
        for sk in ("*", "REGPEND"):
            for lim, off in ((1, 0), (2, 0), (2, 1), (10, 0), (10, 2)):
                qs.append((f"page[{t},{sk},limit={lim},offset={off}]", ("page", t, sk, lim, off)))
    for t in (None, "A", "B"):
        for sk in ("*", "REG", "ACT", "FIN", "RETRY"):
            qs.append((f"count[{t},{sk}]", ("count", t, sk)))
    for sk in ("REG", "ACT"):
        qs.append((f"filter_by_status[{sk}]", ("filter", sk)))
    qs.append(("filter_final", ("final",)))
    for i in range(len(univ)):
        qs.append((f"retries[{i}]", ("retries", i)))
    for flag in (None, True, False):
        qs.append((f"active_runners[{flag}]", ("active", flag)))
    qs.append(("pending_for_recovery", ("pending_scan",)))
    qs.append(("running_for_recovery", ("running_scan",)))
    for n in cfg.get("blk_ns", (1, 2, 10)):
        qs.append((f"blocking[{n}]", ("blocking", n)))
    qs.append(("broker_count", ("queue",)))
    for i in range(len(univ)):
        qs.append((f"history[{i}]", ("hist", i)))
    return qs


class OrchImpl(Impl):
    def setup(self) -> None:
        from pynenc.arguments import Arguments
        from pynenc.call import Call
        from pynenc.identifiers.invocation_id import generate_invocation_id
        from pynenc.invocation.dist_invocation import DistributedInvocation
        from pynenc.workflow.workflow_identity import WorkflowIdentity

        app = self.app
        self.tasks = {"A": tasks.bind(app, tasks_c16.ta), "B": tasks.bind(app, tasks_c16.tb)}
        self.univ = UNIVERSES[self.cfg.get("universe", "U1")]
        self.invs = []
        for t, a in self.univ:
            iid = generate_invocation_id()
            task = self.tasks[t]
            self.invs.append(DistributedInvocation(
                Call(task, Arguments({"a": a})), iid, None, WorkflowIdentity.new_workflow(iid, task.task_id),
                stored_in_backend=True))
        self.ids = [i.invocation_id for i in self.invs]
        self.idx = {str(i): k for k, i in enumerate(self.ids)}
        self.ser = {a: app.client_data_store.serialize(a) for a in (0, 1)}
        self.unknown = generate_invocation_id()
        self.orch = app.orchestrator

    def _ix(self, inv_id: Any) -> Any:
        return self.idx.get(str(inv_id), f"?{inv_id}")

    def _id(self, i: int) -> Any:
        return self.unknown if i == "x" else self.ids[i]

    def do(self, op: tuple) -> Any:
        from pynenc.invocation.status import InvocationStatus as S

        o = self.orch
        k = op[0]
        if k == "reg":
            o.register_new_invocations([self.invs[i] for i in op[1:]])
        elif k == "st":
            o.set_invocation_status(self._id(op[1]), S[op[2]], runner_ctx(op[3]))
        elif k == "idx":
            o.index_arguments_for_concurrency_control(self.invs[op[1]])
        elif k == "retry":
            o.increment_invocation_retries(self._id(op[1]))
        elif k == "hb":
            o.register_runner_heartbeats([op[1]], can_run_atomic_service=op[2])
        elif k == "adv":
            env.CLOCK.now = round(env.CLOCK.now + op[1], 6)
        elif k == "rec":
            o.record_atomic_service_execution(op[1], BASE_DT + timedelta(seconds=op[2]),
                                              BASE_DT + timedelta(seconds=op[2] + 1))
        elif k == "wait":
            o.waiting_for_results(self._id(op[1]), [self._id(x) for x in op[2]])
        elif k == "setup":
            o.set_up_invocation_auto_purge(self._id(op[1]))
        elif k == "apurge":
            o.auto_purge()
        elif k == "purge":
            o.purge()
        else:
            raise ValueError(op)
        return ("ok",)

    def q(self, spec: tuple) -> Any:
        from pynenc.invocation.status import InvocationStatus as S

        o = self.orch
        k = spec[0]
        st = lambda sk: None if STSETS[sk] is None else [S[x] for x in STSETS[sk]]  # noqa: E731
        ids = lambda it: tuple(sorted(self._ix(x) for x in it))  # noqa: E731
        if k == "rec":
            r = o.get_invocation_status_record(self.ids[spec[1]])
            return (r.status.name, r.runner_id)
        if k == "existing":
            _, t, a, sk = spec
            return ids(o.get_existing_invocations(self.tasks[t], None if a is None else {"a": self.ser[a]}, st(sk)))
        if k == "task_ids":
            return ids(o.get_task_invocation_ids(self.tasks[spec[1]].task_id))
        if k == "call_ids":
            return ids(o.get_call_invocation_ids(self.invs[spec[1]].call.call_id))
        if k == "page":
            _, t, sk, lim, off = spec
            return tuple(self._ix(x) for x in o.get_invocation_ids_paginated(
                None if t is None else self.tasks[t].task_id, st(sk), lim, off))
        if k == "count":
            _, t, sk = spec
            return o.count_invocations(None if t is None else self.tasks[t].task_id, st(sk))
        if k in ("filter", "final"):
            pool = list(self.ids) + ([self.unknown] if self.cfg.get("unknown_ids") else [])
            if not self.cfg.get("unknown_ids"):
                # only ids the orchestrator knows (an unknown id is outside the documented contract)
                pool = [i for i in pool if outcome(lambda i=i: o.get_invocation_status(i).name)[0] != "raise"]
            if k == "final":
                return ids(o.filter_final(pool))
            return ids(o.filter_by_status(pool, frozenset(st(spec[1]))))
        if k == "retries":
            return o.get_invocation_retries(self.ids[spec[1]])
        if k == "active":
            return tuple((r.runner_id, r.allow_to_run_atomic_service,
                          None if r.last_service_start is None else (r.last_service_start - BASE_DT).total_seconds(),
                          None if r.last_service_end is None else (r.last_service_end - BASE_DT).total_seconds())
                         for r in o.get_active_runners(spec[1]))
        if k == "pending_scan":
            return ids(o.get_pending_invocations_for_recovery())
        if k == "running_scan":
            return ids(o.get_running_invocations_for_recovery())
        if k == "blocking":
            n = spec[1]
            full = [self._ix(x) for x in o.get_blocking_invocations(10)]
            got = [self._ix(x) for x in o.get_blocking_invocations(n)]
            if self.cfg.get("strict_order"):
                return tuple(got)
            if n < len(full):
                ok = set(got) <= set(full) and len(set(got)) == len(got)
                return ("some", len(got)) if ok else ("not-a-subset", tuple(got))
            return tuple(sorted(got, key=str))
        if k == "queue":
            return self.app.broker.count_invocations()
        if k == "hist":
            self.app.state_backend.wait_for_all_async_operations()
            return tuple(h.status_record.status.name for h in self.app.state_backend.get_history(self.ids[spec[1]]))
        raise ValueError(spec)

    def concrete(self) -> Any:
        self.app.state_backend.wait_for_all_async_operations()
        o = self.orch
        ix = self._ix
        if self.backend == env.MEM:
            recs = [(ix(i), r.status.name, r.runner_id, r.timestamp.timestamp()) for i, r in o.invocation_status_record.items()]
            tix = sorted((t.key, ix(i)) for t, s in o.task_id_to_inv_id.items() for i in s)
            cix = sorted((c.key, ix(i)) for c, s in o.call_id_to_inv_id.items() for i in s)
            six = sorted((s.name, ix(i)) for s, ss in o.status_index.items() for i in ss)
            args = sorted((ix(i), ap.key, str(ap.value)) for ap, s in o.args_index.items() for i in s)
            bc = o._blocking_control
            edges = (sorted((ix(w), ix(x)) for w, xs in bc.waiting_for.items() for x in xs),
                     sorted((ix(x), ix(w)) for x, ws in bc.waited_by.items() for w in ws),
                     sorted(ix(x) for x in bc._ready)) if bc else ([], [], [])
            retries = sorted((ix(i), n) for i, n in o.invocation_retries.items())
            hbs = [(r, o.runner_creation_time.get(r), t, o.runner_atomic_service_eligible.get(r),
                    str(o.runner_last_service_start.get(r))) for r, t in o.runner_last_heartbeat.items()]
            svc = sorted((r, str(v)) for r, v in o.runner_last_service_start.items())
            purge = [(ix(i), t) for t, i in o.invocations_to_purge]
            extra = (tix, cix, six, svc)
        else:
            t = o.tables
            db = o.sqlite_db_path
            raw = dumps._rows(db, f"SELECT invocation_id, status, status_runner_id, status_timestamp, retry_count, "
                                  f"auto_purge_timestamp, task_id_key, call_id_key FROM {t.INVOCATIONS}")
            recs = [(ix(r[0]), r[1].upper(), r[2], r[3]) for r in raw]
            retries = sorted((ix(r[0]), r[4]) for r in raw)
            purge = [(ix(r[0]), r[5]) for r in raw if r[5] is not None]
            args = sorted((ix(r[0]), r[1], str(r[2])) for r in dumps._rows(
                db, f"SELECT invocation_id, arg_key, arg_value FROM {t.INVOCATION_ARGS}"))
            edges = sorted((ix(r[0]), ix(r[1])) for r in dumps._rows(
                db, f"SELECT waiter_id, waited_id FROM {t.BLOCKING_EDGES}"))
            hbs = [(r[0], r[1], r[2], bool(r[3]), str(r[4])) for r in dumps._rows(
                db, f"SELECT runner_id, creation_timestamp, last_heartbeat, allow_to_run_atomic_service, "
                    f"last_service_start FROM {t.RUNNER_HEARTBEATS}")]
            extra = sorted((ix(r[0]), r[6], r[7]) for r in raw)
        rk = _ranker([r[3] for r in recs] + [h[1] for h in hbs] + [h[2] for h in hbs] + [p[1] for p in purge],
                     self.now, self.timed)
        return (tuple(sorted((i, s, own, rk(ts)) for i, s, own, ts in recs)), tuple(args), repr(edges), tuple(retries),
                tuple(sorted((r, rk(c), rk(h), f, s) for r, c, h, f, s in hbs)),
                tuple(sorted((i, rk(ts)) for i, ts in purge)), repr(extra),
                dumps.queue(self.app, self.backend, ix))


class OrchModel(Model):
    """Reference model of the orchestrator contract (base_orchestrator.py docstrings + the declared
    status lifecycle).  Options (probe configurations take the docstring literally where the two
    implementations agree with each other but not with the text):
      page_by_registration : pagination ordered by registration time (the docstring) instead of the
                             time of the last status change
      hb_flag_sticky       : a heartbeat of a known runner only refreshes the timestamp (the docstring)
    """

    def reset(self) -> None:
        self.now = 0.0
        self.univ = UNIVERSES[self.cfg.get("universe", "U1")]
        self.inv: dict[int, dict] = {}
        self.indexed: set = set()
        self.edges: set = set()
        self.hb: dict[str, dict] = {}
        self.queue = 0
        self.hist: dict[int, list] = {i: [] for i in range(len(self.univ))}
        self.svc: dict[str, int] = {}
        lim = D if self.timed else float("inf")
        self.L = self.T = self.H = lim

    # -- alphabet restrictions (listed in ctx.assume) ----------------------
    def enabled(self, op: tuple) -> bool:
        if self.cfg.get("unrestricted"):
            return True
        k = op[0]
        if k == "reg":
            return all(i not in self.inv for i in op[1:])
        if k in ("retry", "idx", "setup"):
            return op[1] in self.inv
        if k == "wait":
            return op[1] in self.inv and all(x in self.inv for x in op[2])
        if k == "rec":
            return op[1] in self.hb
        if k == "apurge":
            return len(self.purgeable()) <= 1
        return True

    def purgeable(self) -> list:
        return [i for i, v in self.inv.items() if v["purge"] is not None and self.now - v["purge"] >= self.H]

    def do(self, op: tuple) -> Any:
        k = op[0]
        if k == "reg":
            for i in op[1:]:
                if i not in self.inv:  # "if they don't exist yet"
                    self.inv[i] = dict(status="REGISTERED", owner="client", ts=self.now, reg=self.now, retries=0, purge=None)
                self.hist[i].append("REGISTERED")
                self.queue += 1
        elif k == "st":
            _, i, new, r = op
            v = self.inv.get(i)
            if v is None:
                raise ModelRaise("KeyError")
            cur = LIFE[v["status"]]
            nd = LIFE[new]
            if new not in cur["to"]:
                raise ModelRaise("InvocationStatusTransitionError")
            if not nd.get("over"):
                if cur.get("req") and r != v["owner"]:
                    raise ModelRaise("InvocationStatusOwnershipError")
                if nd.get("acq") and not r:
                    raise ModelRaise("InvocationStatusOwnershipError")
            owner = None if nd.get("rel") else (r if nd.get("acq") else v["owner"])
            v.update(status=new, owner=owner, ts=self.now)
            if new in FINAL:
                self.edges = {(w, x) for (w, x) in self.edges if x != i}  # waiters of i are released
                v["purge"] = self.now
            self.hist[i].append(new)
        elif k == "idx":
            self.indexed.add(op[1])
        elif k == "retry":
            if op[1] in self.inv:
                self.inv[op[1]]["retries"] += 1
        elif k == "hb":
            _, r, flag = op
            if r in self.hb:
                self.hb[r]["last"] = self.now
                if not self.cfg.get("hb_flag_sticky"):
                    self.hb[r]["flag"] = flag
            else:
                self.hb[r] = dict(created=self.now, last=self.now, flag=flag)
        elif k == "adv":
            self.now = round(self.now + op[1], 6)
        elif k == "rec":
            self.svc[op[1]] = op[2]  # "the latest execution window for a runner"
        elif k == "wait":
            for x in op[2]:
                self.edges.add((op[1], x))
        elif k == "setup":
            if op[1] in self.inv:
                self.inv[op[1]]["purge"] = self.now
        elif k == "apurge":
            for i in self.purgeable():
                self.edges = {(w, x) for (w, x) in self.edges if x != i}
                del self.inv[i]
                self.indexed.discard(i)
        elif k == "purge":
            self.inv.clear()
            self.indexed.clear()
            self.edges.clear()
            self.hb.clear()
            self.svc.clear()
        else:
            raise ValueError(op)
        return ("ok",)

    def _match(self, t: Any, sk: str) -> list:
        sts = STSETS[sk]
        return [i for i, v in self.inv.items() if (t is None or self.univ[i][0] == t) and (sts is None or v["status"] in sts)]

    def q(self, spec: tuple) -> Any:
        k = spec[0]
        if k == "rec":
            v = self.inv.get(spec[1])
            if v is None:
                raise ModelRaise("KeyError")
            return (v["status"], v["owner"])
        if k == "existing":
            _, t, a, sk = spec
            return tuple(sorted(i for i in self._match(t, sk) if a is None or (i in self.indexed and self.univ[i][1] == a)))
        if k == "task_ids":
            return tuple(sorted(self._match(spec[1], "*")))
        if k == "call_ids":
            return tuple(sorted(i for i in self.inv if self.univ[i] == self.univ[spec[1]]))
        if k == "page":
            _, t, sk, lim, off = spec
            key = "reg" if self.cfg.get("page_by_registration") else "ts"
            order = sorted(self._match(t, sk), key=lambda i: -self.inv[i][key])
            return tuple(order[off:off + lim])
        if k == "count":
            return len(self._match(spec[1], spec[2]))
        if k == "filter":
            return tuple(sorted(self._match(None, spec[1])))
        if k == "final":
            return tuple(sorted(i for i, v in self.inv.items() if v["status"] in FINAL))
        if k == "retries":
            v = self.inv.get(spec[1])
            return 0 if v is None else v["retries"]
        if k == "active":
            rows = [(r, h) for r, h in self.hb.items() if self.now - h["last"] <= self.T
                    and (spec[1] is None or h["flag"] == spec[1])]
            rows.sort(key=lambda x: x[1]["created"])
            return tuple((r, h["flag"], None if r not in self.svc else float(self.svc[r]),
                          None if r not in self.svc else float(self.svc[r] + 1)) for r, h in rows)
        if k == "pending_scan":
            return tuple(sorted(i for i, v in self.inv.items() if v["status"] == "PENDING" and self.now - v["ts"] >= self.L))
        if k == "running_scan":
            out = []
            for i, v in self.inv.items():
                if v["status"] == "RUNNING" and v["owner"]:
                    h = self.hb.get(v["owner"])
                    if h is None or self.now - h["last"] > self.T:
                        out.append(i)
            return tuple(sorted(out))
        if k == "blocking":
            n = spec[1]
            waiters = {w for w, _ in self.edges}
            ready = [x for x in {x for _, x in self.edges} if x not in waiters and x in self.inv
                     and self.inv[x]["status"] in AVAIL]
            ready.sort(key=lambda x: self.inv[x]["reg"])  # oldest first
            if self.cfg.get("strict_order"):
                return tuple(ready[:max(n, 0)])
            if n < len(ready):
                return ("some", n)
            return tuple(sorted(ready, key=str))
        if k == "queue":
            return self.queue
        if k == "hist":
            return tuple(self.hist[spec[1]])
        raise ValueError(spec)


def _st(i: int, names: str, r: str) -> list[tuple]:
    return [("st", i, n, r) for n in names.split()]


ORCH_CONFIGS: dict[str, dict] = {}


def _orch(name: str, ops: list, quick: int, thorough: int, seeds: dict | None = None, **kw: Any) -> None:
    cfg = dict(comp="orchestrator", name=name, ops=ops, depth=(quick, thorough), seeds=seeds or {"": []}, **kw)
    cfg["queries"] = orch_queries(cfg)
    ORCH_CONFIGS[name] = cfg


_REG3 = [("reg", 0), ("reg", 1), ("reg", 2)]
for _u in ("U1", "U2"):
    _orch(f"orch/lifecycle/{_u}",
          _REG3 + _st(0, "PENDING RUNNING SUCCESS RETRY", "r1") + _st(0, "PENDING RUNNING SUCCESS", "r2")
          + _st(1, "PENDING RUNNING FAILED", "r1") + [("idx", 0), ("idx", 1), ("retry", 0), ("purge",)],
          3, 4, universe=_u,
          seeds={"": [], "running": [("reg", 0), ("reg", 1), ("idx", 0), ("st", 0, "PENDING", "r1"), ("st", 0, "RUNNING", "r1")]})
_orch("orch/lifecycle-rare/U1",
      [("reg", 0), ("reg", 2)] + _st(0, "PENDING KILLED REROUTED PENDING_RECOVERY RUNNING RUNNING_RECOVERY PAUSED RESUMED "
                                        "CONCURRENCY_CONTROLLED CONCURRENCY_CONTROLLED_FINAL SUCCESS", "r1")
      + _st(0, "KILLED PENDING_RECOVERY RUNNING_RECOVERY REROUTED", "r2") + _st(2, "PENDING", "r2") + [("idx", 0), ("idx", 2)],
      3, 4, universe="U1", seeds={"": [], "pending": [("reg", 0), ("st", 0, "PENDING", "r1")],
                                  "running": [("reg", 0), ("st", 0, "PENDING", "r1"), ("st", 0, "RUNNING", "r1")]})
_orch("orch/wait-graph/U1",
      [("wait", 1, (0,)), ("wait", 2, (0,)), ("wait", 2, (1,)), ("wait", 2, (0, 1)), ("wait", 0, (2,)), ("wait", 0, (1,))]
      + _st(0, "PENDING RUNNING SUCCESS", "r1") + _st(1, "PENDING RUNNING FAILED RETRY", "r2") + [("purge",), ("reg", 0)],
      3, 5, universe="U1",
      seeds={"3reg": [("reg", 1), ("reg", 0), ("reg", 2)],
             "0-running": [("reg", 1), ("reg", 0), ("reg", 2), ("st", 0, "PENDING", "r1"), ("st", 0, "RUNNING", "r1")],
             "chain": [("reg", 2), ("reg", 1), ("reg", 0), ("wait", 2, (1,)), ("wait", 1, (0,)),
                       ("st", 0, "PENDING", "r1"), ("st", 0, "RUNNING", "r1")]})
_orch("orch/runners/U1",
      [("hb", "r1", False), ("hb", "r2", True), ("hb", "r3", False), ("adv", D - 3 * U), ("adv", U), ("rec", "r2", 5), ("rec", "r2", 7),
       ("reg", 1), ("st", 1, "PENDING", "r2"), ("st", 1, "RUNNING", "r2"), ("st", 0, "SUCCESS", "r1"), ("purge",)],
      3, 5, universe="U1", timed=True,
      seeds={"": [], "0-running": [("reg", 0), ("st", 0, "PENDING", "r1"), ("st", 0, "RUNNING", "r1")],
             "0-running-hb": [("reg", 0), ("st", 0, "PENDING", "r1"), ("hb", "r1", False), ("st", 0, "RUNNING", "r1"), ("adv", D - 3 * U)]})
_orch("orch/auto-purge/U1",
      [("adv", D - 3 * U), ("adv", U), ("apurge",), ("reg", 0), ("reg", 1), ("idx", 0), ("wait", 1, (0,)), ("wait", 0, (1,)),
       ("st", 0, "PENDING", "r1"), ("st", 1, "PENDING", "r1"), ("st", 1, "RUNNING", "r1"), ("st", 1, "FAILED", "r1"), ("retry", 0)],
      3, 5, universe="U1", timed=True,
      seeds={"one-final": [("reg", 0), ("idx", 0), ("st", 0, "PENDING", "r1"), ("st", 0, "RUNNING", "r1"), ("st", 0, "SUCCESS", "r1")],
             "final-waited": [("reg", 0), ("reg", 1), ("idx", 0), ("wait", 0, (1,)), ("st", 0, "PENDING", "r1"), ("st", 0, "RUNNING", "r1"),
                              ("wait", 1, (0,)), ("st", 0, "SUCCESS", "r1")],
             "one-final-one-running": [("reg", 0), ("reg", 1), ("st", 0, "PENDING", "r1"), ("st", 1, "PENDING", "r1"),
                                       ("st", 0, "RUNNING", "r1"), ("st", 1, "RUNNING", "r1"), ("st", 0, "SUCCESS", "r1"),
                                       ("adv", D - 3 * U)]})
_ALL_OPS = (_REG3 + _st(0, "PENDING RUNNING SUCCESS RETRY KILLED", "r1") + _st(0, "PENDING", "r2") + _st(1, "PENDING", "r2")
            + [("idx", 0), ("idx", 2), ("retry", 0), ("hb", "r1", False), ("hb", "r2", True), ("rec", "r2", 5),
               ("wait", 1, (0,)), ("wait", 0, (2,)), ("purge",)])
_orch("orch/all-pairs/U2", _ALL_OPS, 2, 3, universe="U2")

# ---- probes: suspected divergences, one tiny search each ----------------------------------
_orch("probe/orch/re-register-existing-id", [("reg", 0), ("st", 0, "PENDING", "r1"), ("retry", 0), ("idx", 0)], 3, 3,
      universe="U1", unrestricted=True)
_orch("probe/orch/blocking-limit-0", [("reg", 0), ("reg", 1), ("wait", 1, (0,))], 3, 3, universe="U1", blk_ns=(0,))
_orch("probe/orch/blocking-oldest-first", _REG3 + [("wait", 2, (0,)), ("wait", 2, (1,)), ("wait", 1, (0,)), ("wait", 0, (1, 2))],
      4, 5, universe="U1", strict_order=True, blk_ns=(1, 2, 10))
_orch("probe/orch/auto-purge-two-purgeable", [("apurge",), ("adv", U)], 2, 2, universe="U1", timed=True, unrestricted=True,
      seeds={"two-final": [("reg", 0), ("reg", 1), ("st", 0, "PENDING", "r1"), ("st", 1, "PENDING", "r1"),
                           ("st", 0, "RUNNING", "r1"), ("st", 1, "RUNNING", "r1"), ("st", 0, "SUCCESS", "r1"),
                           ("st", 1, "SUCCESS", "r1"), ("adv", D - 3 * U), ("adv", U)]})
_orch("probe/orch/heartbeat-keeps-eligibility", [("hb", "r1", False), ("hb", "r1", True), ("hb", "r2", True), ("hb", "r2", False)],
      2, 2, universe="U1", hb_flag_sticky=True)
_orch("probe/orch/service-window-before-heartbeat", [("rec", "r1", 5), ("hb", "r1", True)], 2, 2, universe="U1", unrestricted=True)
_orch("probe/orch/page-order-registration-time", [("reg", 0), ("reg", 1), ("st", 0, "PENDING", "r1"), ("st", 1, "PENDING", "r1")],
      3, 3, universe="U1", page_by_registration=True)
_orch("probe/orch/unknown-id-filter", [("reg", 0)], 1, 1, universe="U1", unknown_ids=True)
_orch("probe/orch/unknown-id-retries", [("retry", 0), ("reg", 0)], 2, 2, universe="U1", unrestricted=True)
_orch("probe/orch/purge-setup-twice", [("setup", 0), ("adv", D - 3 * U), ("adv", U), ("apurge",)], 4, 4, universe="U1", timed=True,
      seeds={"registered": [("reg", 0)]})

KINDS: dict[str, tuple] = {"orchestrator": (OrchImpl, OrchModel)}
CONFIGS: dict[str, dict] = dict(ORCH_CONFIGS)


# =====================================================================================
# driver
# =====================================================================================
def _alphabet(cfg: dict, model_cls: type) -> Callable[[list], list]:
    ops = cfg["ops"]

    def f(hist: list) -> list:
        m = model_cls(cfg)
        m.reset()
        for op in hist:
            m.apply(op)
        return [op for op in ops if m.enabled(op)]

    return f


def _watchdog(signum: int, frame: Any) -> None:
    raise TimeoutError("C16 unit exceeded its wall-clock guard (a backend call blocked)")


def _unit(item: tuple) -> Partial:
    name, seed, first, depth = item
    cfg = CONFIGS[name]
    impl_cls, model_cls = KINDS[cfg["comp"]]
    p = Partial()
    impls = [impl_cls(env.MEM, cfg), impl_cls(env.SQLITE, cfg)]
    model = model_cls(cfg)
    init = list(cfg["seeds"][seed]) + ([first] if first is not None else [])
    signal.signal(signal.SIGALRM, _watchdog)
    signal.alarm(1500)
    try:
        st = bfs.explore(p, impls, model, _alphabet(cfg, model_cls), depth, tag=name, init_history=init)
    finally:
        signal.alarm(0)
        env.CLOCK.frozen = False
    p.count("bfs_states", st["states"])
    p.count(f"states[{name}]", st["states"])
    p.count(f"transitions[{name}]", st["transitions"])
    p.max(f"depth[{name}]", st["depth"] + len(init))
    p.max("depth_completed", st["depth"] + len(init))
    p.count("traces_validated_against_impl", st["transitions"])
    return p


def _items(ctx: Ctx) -> list[tuple]:
    items = []
    only = getattr(ctx, "only", None)
    for name, cfg in CONFIGS.items():
        if only and only not in name:
            continue
        depth = cfg["depth"][1 if ctx.thorough else 0]
        impl_cls, model_cls = KINDS[cfg["comp"]]
        alpha = _alphabet(cfg, model_cls)
        for seed, hist in cfg["seeds"].items():
            items.append((name, seed, None, 1))  # validates every first operation from the seeded state
            if depth > 1:
                for first in alpha(list(hist)):
                    items.append((name, seed, first, depth - 1))
    return items


def run(ctx: Ctx) -> None:
    items = _items(ctx)
    rot = ctx.seed % max(1, len(items))
    for part in par.pmap(_unit, items[rot:] + items[:rot]):
        ctx.merge(part)
    ctx.rule = "BFS per component"


def replay(payload: dict) -> bool:
    r = payload["replay"]
    cfg = CONFIGS[r["config"]]
    impl_cls, model_cls = KINDS[cfg["comp"]]
    impls = [impl_cls(env.MEM, cfg), impl_cls(env.SQLITE, cfg)]
    model = model_cls(cfg)
    bad = False
    try:
        for s in impls + [model]:
            s.reset()
        for op in r["history"]:
            op = _detuple(op)
            res = [s.apply(op) for s in impls + [model]]
            outs = [s.readout() for s in impls + [model]]
            if any(x != res[-1] for x in res) or any(o != outs[-1] for o in outs):
                bad = True
    finally:
        env.CLOCK.frozen = False
    return bad


def _detuple(x: Any) -> Any:
    if isinstance(x, list):
        return tuple(_detuple(y) for y in x)
    return x
