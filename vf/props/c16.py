"""C16 — the in-memory and the SQLite backends are observationally equivalent.

E2 only: one family of BFS runs (vf.bfs.explore) per component pair (orchestrator, state backend,
trigger store, client data store, broker).  Every run drives the in-memory implementation, the SQLite
implementation and a small reference model (written from the abstract base classes' docstrings and the
declared status lifecycle, never from a mem_* / sqlite_* module) with the same operation history and
compares, after every operation, the result / exception class and a full read-out (every public query
over the small universes).  States are merged only when the canonical concrete dumps of *both*
implementations are equal.

Two kinds of configurations:
  * main  configurations: the operations on which the contract is unambiguous; they must stay silent;
  * probe configurations (name starts with "probe/"): one tiny BFS around each behaviour suspected to
    diverge; whatever they report is a finding with its own signature (config is part of it).
"""

from __future__ import annotations

import itertools
import signal
from datetime import UTC, datetime, timedelta
from typing import Any, Callable

from vf import bfs, dumps, env, par, tasks, tasks_c16
from vf.report import Ctx, Partial
from vf.worlds import runner_ctx

U = 2.0 ** -6  # clock unit of the timed configurations (15625 us: exact as a double and as a datetime)
D = 0.9375  # = 60 U: runner dead-after, max pending and purge age in the timed configurations
TIMED_CONF = dict(auto_final_invocation_purge_hours=D / 3600, max_pending_seconds=D,
                  runner_considered_dead_after_minutes=1.0 / 64)
BASE_DT = datetime(2023, 1, 1, tzinfo=UTC)


def outcome(fn: Callable[[], Any]) -> Any:
    try:
        return fn()
    except Exception as e:  # noqa: BLE001 - the class is the observation
        return ("raise", type(e).__name__)


class Impl(bfs.System):
    """Common part of the real systems: fresh app per reset, one time line per implementation
    (the virtual clock is global), frozen dyadic clock in the timed configurations."""

    def __init__(self, backend: str, cfg: dict) -> None:
        self.backend = backend
        self.name = backend
        self.cfg = cfg
        self.timed = bool(cfg.get("timed"))
        self.peer: Any = None  # single-implementation searches: the model's state is part of the merge key

    def reset(self) -> None:
        from pynenc import context

        env.reset_world()
        conf = dict(TIMED_CONF) if self.timed else {}
        conf.update(self.cfg.get("conf", {}))
        if self.backend == env.MEM:
            self.app = env.make_app(env.MEM, app_id="c16", **conf)
        else:
            self.app = env.make_app(env.SQLITE, app_id="c16", db=env.reuse_db("c16"), **conf)
        context.set_runner_context(self.app.app_id, runner_ctx("client"))
        env.CLOCK.frozen = self.timed
        self.setup()
        self.now = env.CLOCK.now
        self.t0 = self.now

    def _clock(self) -> None:
        env.CLOCK.frozen = self.timed
        env.CLOCK.now = self.now

    def apply(self, op: tuple) -> Any:
        self._clock()
        try:
            res = self.do(op)
        except Exception as e:  # noqa: BLE001
            res = ("raise", type(e).__name__)
        if self.timed:
            env.CLOCK.now = round(env.CLOCK.now + U, 6)  # every operation takes one unit
        self.now = env.CLOCK.now
        return res

    def readout(self) -> Any:
        self._clock()
        skip = self.cfg.get("skip", ())
        out = tuple((name, outcome(lambda s=spec: self.q(s))) for name, spec in self.cfg["queries"]
                    if not name.startswith(skip))
        self.now = env.CLOCK.now
        return out

    def dump(self) -> Any:
        self._clock()
        d = self.concrete()
        self.now = env.CLOCK.now
        if self.peer is not None:
            d = (d, self.peer.state_key())
        return d

    # -- per component -------------------------------------------------
    def setup(self) -> None:
        raise NotImplementedError

    def do(self, op: tuple) -> Any:
        raise NotImplementedError

    def q(self, spec: tuple) -> Any:
        raise NotImplementedError

    def concrete(self) -> Any:
        raise NotImplementedError


class Model(bfs.System):
    name = "model"

    def __init__(self, cfg: dict) -> None:
        self.cfg = cfg
        self.timed = bool(cfg.get("timed"))

    def apply(self, op: tuple) -> Any:
        try:
            res = self.do(op)
        except ModelRaise as e:
            res = ("raise", e.args[0])
        self.now = round(self.now + U, 6)
        return res

    def readout(self) -> Any:
        skip = self.cfg.get("skip", ())
        out = []
        for name, spec in self.cfg["queries"]:
            if name.startswith(skip):
                continue
            try:
                out.append((name, self.q(spec)))
            except ModelRaise as e:
                out.append((name, ("raise", e.args[0])))
        return tuple(out)

    def dump(self) -> Any:
        return None

    def state_key(self) -> str:
        skip = ("cfg", "cron_cond", "timed") + (() if self.timed else ("now",))
        return repr(sorted((k, repr(v)) for k, v in vars(self).items() if k not in skip))

    def enabled(self, op: tuple) -> bool:
        return True


class ModelRaise(Exception):
    pass


def _ranker(times: list, now: float, timed: bool) -> Callable[[Any], Any]:
    """timed: exact age w.r.t. now; untimed: rank among all the stamps of the dump."""
    if timed:
        return lambda t: None if t is None else round(now - t, 6)
    order = {t: k for k, t in enumerate(sorted({t for t in times if t is not None}))}
    return lambda t: None if t is None else order[t]


# =====================================================================================
# 1. orchestrator
# =====================================================================================
UNIVERSES = {
    "U1": [("A", 0), ("A", 1), ("B", 0)],  # two calls of one task + another task
    "U2": [("A", 0), ("A", 0), ("B", 1)],  # two invocations of one call + another task
}
STSETS = {"*": None, "REG": ["REGISTERED"], "ACT": ["PENDING", "RUNNING"], "FIN": ["SUCCESS", "FAILED"],
          "REGPEND": ["REGISTERED", "PENDING"], "RETRY": ["RETRY", "REROUTED", "KILLED"]}
RUNNERS = ("r1", "r2", "r3")

# the declared lifecycle (pynenc.invocation.status: the documented table of allowed transitions and
# ownership rules); the backends must apply exactly this table
_L = dict
LIFE = {
    "REGISTERED": _L(to={"PENDING", "CONCURRENCY_CONTROLLED", "CONCURRENCY_CONTROLLED_FINAL"}, avail=True, rel=True),
    "CONCURRENCY_CONTROLLED": _L(to={"REROUTED"}, rel=True),
    "REROUTED": _L(to={"PENDING", "CONCURRENCY_CONTROLLED"}, avail=True, rel=True),
    "PENDING": _L(to={"RUNNING", "KILLED", "REROUTED", "PENDING_RECOVERY"}, req=True, acq=True),
    "PENDING_RECOVERY": _L(to={"REROUTED"}, rel=True, over=True),
    "RUNNING": _L(to={"PAUSED", "KILLED", "RETRY", "SUCCESS", "FAILED", "RUNNING_RECOVERY"}, req=True),
    "RUNNING_RECOVERY": _L(to={"REROUTED"}, rel=True, over=True),
    "PAUSED": _L(to={"RESUMED", "KILLED"}, req=True),
    "RESUMED": _L(to={"PAUSED", "KILLED", "RETRY", "SUCCESS", "FAILED"}, req=True),
    "KILLED": _L(to={"REROUTED"}, rel=True),
    "RETRY": _L(to={"PENDING"}, avail=True, rel=True),
    "SUCCESS": _L(to=set(), final=True, rel=True),
    "FAILED": _L(to=set(), final=True, rel=True),
    "CONCURRENCY_CONTROLLED_FINAL": _L(to=set(), final=True, rel=True),
}
FINAL = {s for s, d in LIFE.items() if d.get("final")}
AVAIL = {s for s, d in LIFE.items() if d.get("avail")}


def orch_queries(cfg: dict) -> list[tuple[str, tuple]]:
    univ = UNIVERSES[cfg.get("universe", "U1")]
    qs: list[tuple[str, tuple]] = []
    for i in range(len(univ)):
        qs.append((f"record[{i}]", ("rec", i)))
    for t in ("A", "B"):
        for a in (None, 0, 1):
            for sk in ("*", "REG", "ACT", "FIN"):
                qs.append((f"existing[{t},a={a},{sk}]", ("existing", t, a, sk)))
    for t in ("A", "B"):
        qs.append((f"task_ids[{t}]", ("task_ids", t)))
    for i in range(len(univ)):
        qs.append((f"call_ids[{i}]", ("call_ids", i)))
    for t in (None, "A"):
        for sk in ("*", "REGPEND"):
            for lim, off in ((1, 0), (2, 0), (2, 1), (10, 0), (10, 2)):
                qs.append((f"page[{t},{sk},limit={lim},offset={off}]", ("page", t, sk, lim, off)))
    for t in (None, "A", "B"):
        for sk in ("*", "REG", "ACT", "FIN", "RETRY"):
            qs.append((f"count[{t},{sk}]", ("count", t, sk)))
    for sk in ("REG", "ACT"):
        qs.append((f"filter_by_status[{sk}]", ("filter", sk)))
    qs.append(("filter_final", ("final",)))
    for i in range(len(univ)):
        qs.append((f"retries[{i}]", ("retries", i)))
    for flag in (None, True, False):
        qs.append((f"active_runners[{flag}]", ("active", flag)))
    qs.append(("pending_for_recovery", ("pending_scan",)))
    qs.append(("running_for_recovery", ("running_scan",)))
    for n in cfg.get("blk_ns", (1, 2, 10)):
        qs.append((f"blocking[{n}]", ("blocking", n)))
    qs.append(("broker_count", ("queue",)))
    for i in range(len(univ)):
        qs.append((f"history[{i}]", ("hist", i)))
    return qs


class OrchImpl(Impl):
    def setup(self) -> None:
        from pynenc.arguments import Arguments
        from pynenc.call import Call
        from pynenc.identifiers.invocation_id import generate_invocation_id
        from pynenc.invocation.dist_invocation import DistributedInvocation
        from pynenc.workflow.workflow_identity import WorkflowIdentity

        app = self.app
        self.tasks = {"A": tasks.bind(app, tasks_c16.ta), "B": tasks.bind(app, tasks_c16.tb)}
        self.univ = UNIVERSES[self.cfg.get("universe", "U1")]
        self.invs = []
        for t, a in self.univ:
            iid = generate_invocation_id()
            task = self.tasks[t]
            self.invs.append(DistributedInvocation(
                Call(task, Arguments({"a": a})), iid, None, WorkflowIdentity.new_workflow(iid, task.task_id),
                stored_in_backend=True))
        self.ids = [i.invocation_id for i in self.invs]
        self.idx = {str(i): k for k, i in enumerate(self.ids)}
        self.ser = {a: app.client_data_store.serialize(a) for a in (0, 1)}
        self.unknown = generate_invocation_id()
        self.orch = app.orchestrator

    def _ix(self, inv_id: Any) -> Any:
        return self.idx.get(str(inv_id), f"?{inv_id}")

    def _id(self, i: int) -> Any:
        return self.unknown if i == "x" else self.ids[i]

    def do(self, op: tuple) -> Any:
        from pynenc.invocation.status import InvocationStatus as S

        o = self.orch
        k = op[0]
        if k == "reg":
            o.register_new_invocations([self.invs[i] for i in op[1:]])
        elif k == "st":
            o.set_invocation_status(self._id(op[1]), S[op[2]], runner_ctx(op[3]))
        elif k == "idx":
            o.index_arguments_for_concurrency_control(self.invs[op[1]])
        elif k == "retry":
            o.increment_invocation_retries(self._id(op[1]))
        elif k == "hb":
            o.register_runner_heartbeats([op[1]], can_run_atomic_service=op[2])
        elif k == "ask_active":
            # the query as an operation of the history: asking must not change what is stored
            list(o.get_active_runners())
        elif k == "adv":
            env.CLOCK.now = round(env.CLOCK.now + op[1], 6)
        elif k == "rec":
            o.record_atomic_service_execution(op[1], BASE_DT + timedelta(seconds=op[2]),
                                              BASE_DT + timedelta(seconds=op[2] + 1))
        elif k == "wait":
            o.waiting_for_results(self._id(op[1]), [self._id(x) for x in op[2]])
        elif k == "setup":
            o.set_up_invocation_auto_purge(self._id(op[1]))
        elif k == "apurge":
            o.auto_purge()
        elif k == "purge":
            o.purge()
        else:
            raise ValueError(op)
        return ("ok",)

    def q(self, spec: tuple) -> Any:
        from pynenc.invocation.status import InvocationStatus as S

        o = self.orch
        k = spec[0]
        st = lambda sk: None if STSETS[sk] is None else [S[x] for x in STSETS[sk]]  # noqa: E731
        ids = lambda it: tuple(sorted(self._ix(x) for x in it))  # noqa: E731
        if k == "rec":
            r = o.get_invocation_status_record(self.ids[spec[1]])
            return (r.status.name, r.runner_id)
        if k == "existing":
            _, t, a, sk = spec
            return ids(o.get_existing_invocations(self.tasks[t], None if a is None else {"a": self.ser[a]}, st(sk)))
        if k == "task_ids":
            return ids(o.get_task_invocation_ids(self.tasks[spec[1]].task_id))
        if k == "call_ids":
            return ids(o.get_call_invocation_ids(self.invs[spec[1]].call.call_id))
        if k == "page":
            _, t, sk, lim, off = spec
            return tuple(self._ix(x) for x in o.get_invocation_ids_paginated(
                None if t is None else self.tasks[t].task_id, st(sk), lim, off))
        if k == "count":
            _, t, sk = spec
            return o.count_invocations(None if t is None else self.tasks[t].task_id, st(sk))
        if k in ("filter", "final"):
            pool = list(self.ids)
            if not self.cfg.get("all_ids"):
                # only ids the orchestrator knows (an unknown id is outside the documented contract)
                pool = [i for i in pool if outcome(lambda i=i: o.get_invocation_status(i).name)[0] != "raise"]
            if k == "final":
                return ids(o.filter_final(pool))
            return ids(o.filter_by_status(pool, frozenset(st(spec[1]))))
        if k == "retries":
            return o.get_invocation_retries(self.ids[spec[1]])
        if k == "active":
            return tuple((r.runner_id, r.allow_to_run_atomic_service,
                          None if r.last_service_start is None else (r.last_service_start - BASE_DT).total_seconds(),
                          None if r.last_service_end is None else (r.last_service_end - BASE_DT).total_seconds())
                         for r in o.get_active_runners(spec[1]))
        if k == "pending_scan":
            return ids(o.get_pending_invocations_for_recovery())
        if k == "running_scan":
            return ids(o.get_running_invocations_for_recovery())
        if k == "blocking":
            n = spec[1]
            full = [self._ix(x) for x in o.get_blocking_invocations(10)]
            got = [self._ix(x) for x in o.get_blocking_invocations(n)]
            if self.cfg.get("strict_order"):
                return tuple(got)
            if n < len(full):
                ok = set(got) <= set(full) and len(set(got)) == len(got)
                return ("some", len(got)) if ok else ("not-a-subset", tuple(got))
            return tuple(sorted(got, key=str))
        if k == "queue":
            return self.app.broker.count_invocations()
        if k == "hist":
            self.app.state_backend.wait_for_all_async_operations()
            return tuple(h.status_record.status.name for h in self.app.state_backend.get_history(self.ids[spec[1]]))
        raise ValueError(spec)

    def concrete(self) -> Any:
        self.app.state_backend.wait_for_all_async_operations()
        o = self.orch
        ix = self._ix
        if self.backend == env.MEM:
            recs = [(ix(i), r.status.name, r.runner_id, r.timestamp.timestamp()) for i, r in o.invocation_status_record.items()]
            tix = sorted((t.key, ix(i)) for t, s in o.task_id_to_inv_id.items() for i in s)
            cix = sorted((c.key, ix(i)) for c, s in o.call_id_to_inv_id.items() for i in s)
            six = sorted((s.name, ix(i)) for s, ss in o.status_index.items() for i in ss)
            args = sorted((ix(i), ap.key, str(ap.value)) for ap, s in o.args_index.items() for i in s)
            bc = o._blocking_control
            edges = (sorted((ix(w), ix(x)) for w, xs in bc.waiting_for.items() for x in xs),
                     sorted((ix(x), ix(w)) for x, ws in bc.waited_by.items() for w in ws),
                     sorted(ix(x) for x in bc._ready)) if bc else ([], [], [])
            retries = sorted((ix(i), n) for i, n in o.invocation_retries.items())
            hbs = [(r, o.runner_creation_time.get(r), t, o.runner_atomic_service_eligible.get(r),
                    str(o.runner_last_service_start.get(r))) for r, t in o.runner_last_heartbeat.items()]
            svc = sorted((r, str(v)) for r, v in o.runner_last_service_start.items())
            purge = [(ix(i), t) for t, i in o.invocations_to_purge]
            extra = (tix, cix, six, svc)
        else:
            t = o.tables
            db = o.sqlite_db_path
            raw = dumps._rows(db, f"SELECT invocation_id, status, status_runner_id, status_timestamp, retry_count, "
                                  f"auto_purge_timestamp, task_id_key, call_id_key FROM {t.INVOCATIONS}")
            recs = [(ix(r[0]), r[1].upper(), r[2], r[3]) for r in raw]
            retries = sorted((ix(r[0]), r[4]) for r in raw)
            purge = [(ix(r[0]), r[5]) for r in raw if r[5] is not None]
            args = sorted((ix(r[0]), r[1], str(r[2])) for r in dumps._rows(
                db, f"SELECT invocation_id, arg_key, arg_value FROM {t.INVOCATION_ARGS}"))
            edges = sorted((ix(r[0]), ix(r[1])) for r in dumps._rows(
                db, f"SELECT waiter_id, waited_id FROM {t.BLOCKING_EDGES}"))
            hbs = [(r[0], r[1], r[2], bool(r[3]), str(r[4])) for r in dumps._rows(
                db, f"SELECT runner_id, creation_timestamp, last_heartbeat, allow_to_run_atomic_service, "
                    f"last_service_start FROM {t.RUNNER_HEARTBEATS}")]
            extra = sorted((ix(r[0]), r[6], r[7]) for r in raw)
        rk = _ranker([r[3] for r in recs] + [h[1] for h in hbs] + [h[2] for h in hbs] + [p[1] for p in purge],
                     self.now, self.timed)
        return (tuple(sorted((i, s, own, rk(ts)) for i, s, own, ts in recs)), tuple(args), repr(edges), tuple(retries),
                tuple(sorted((r, rk(c), rk(h), f, s) for r, c, h, f, s in hbs)),
                tuple(sorted((i, rk(ts)) for i, ts in purge)), repr(extra),
                dumps.queue(self.app, self.backend, ix))


class OrchModel(Model):
    """Reference model of the orchestrator contract (base_orchestrator.py docstrings + the declared
    status lifecycle).  Options (probe configurations take the docstring literally where the two
    implementations agree with each other but not with the text):
      page_by_registration : pagination ordered by registration time (the docstring) instead of the
                             time of the last status change
      hb_flag_sticky       : a heartbeat of a known runner only refreshes the timestamp (the docstring)
    """

    def reset(self) -> None:
        self.now = 0.0
        self.univ = UNIVERSES[self.cfg.get("universe", "U1")]
        self.inv: dict[int, dict] = {}
        self.indexed: set = set()
        self.edges: set = set()
        self.hb: dict[str, dict] = {}
        self.queue = 0
        self.hist: dict[int, list] = {i: [] for i in range(len(self.univ))}
        self.svc: dict[str, int] = {}
        lim = D if self.timed else float("inf")
        self.L = self.T = self.H = lim

    # -- alphabet restrictions (listed in ctx.assume) ----------------------
    def enabled(self, op: tuple) -> bool:
        k = op[0]
        if k == "reg":
            # an id is (re-)registered only while unknown, and never while the wait graph still holds an edge
            # of its previous life as a waiter (probe/orch/reused-id-still-a-waiter)
            return all(i not in self.inv for i in op[1:]) and (
                self.cfg.get("allow_waiter_reuse") or not any(w in op[1:] for w, _ in self.edges))
        if k in ("retry", "idx", "setup"):
            return op[1] in self.inv
        if k == "wait":
            return op[1] in self.inv and all(x in self.inv for x in op[2])
        if k == "rec":
            return op[1] in self.hb
        if k == "apurge":
            return len(self.purgeable()) <= 1
        return True

    def purgeable(self) -> list:
        return [i for i, v in self.inv.items() if v["purge"] is not None and self.now - v["purge"] >= self.H]

    def do(self, op: tuple) -> Any:
        k = op[0]
        if k == "reg":
            for i in op[1:]:
                if i not in self.inv:  # "if they don't exist yet"
                    self.inv[i] = dict(status="REGISTERED", owner="client", ts=self.now, reg=self.now, retries=0, purge=None)
                self.hist[i].append("REGISTERED")
                self.queue += 1
        elif k == "st":
            _, i, new, r = op
            v = self.inv.get(i)
            if v is None:
                raise ModelRaise("KeyError")
            cur = LIFE[v["status"]]
            nd = LIFE[new]
            if new not in cur["to"]:
                raise ModelRaise("InvocationStatusTransitionError")
            if not nd.get("over"):
                if cur.get("req") and r != v["owner"]:
                    raise ModelRaise("InvocationStatusOwnershipError")
                if nd.get("acq") and not r:
                    raise ModelRaise("InvocationStatusOwnershipError")
            owner = None if nd.get("rel") else (r if nd.get("acq") else v["owner"])
            v.update(status=new, owner=owner, ts=self.now)
            if new in FINAL:
                self.edges = {(w, x) for (w, x) in self.edges if x != i}  # waiters of i are released
                v["purge"] = self.now
            self.hist[i].append(new)
        elif k == "idx":
            self.indexed.add(op[1])
        elif k == "retry":
            if op[1] in self.inv:
                self.inv[op[1]]["retries"] += 1
        elif k == "ask_active":
            pass
        elif k == "hb":
            _, r, flag = op
            if r in self.hb:
                self.hb[r]["last"] = self.now
                if not self.cfg.get("hb_flag_sticky"):
                    self.hb[r]["flag"] = flag
            else:
                self.hb[r] = dict(created=self.now, last=self.now, flag=flag)
        elif k == "adv":
            self.now = round(self.now + op[1], 6)
        elif k == "rec":
            self.svc[op[1]] = op[2]  # "the latest execution window for a runner"
        elif k == "wait":
            for x in op[2]:
                self.edges.add((op[1], x))
        elif k == "setup":
            if op[1] in self.inv:
                self.inv[op[1]]["purge"] = self.now
        elif k == "apurge":
            for i in self.purgeable():
                self.edges = {(w, x) for (w, x) in self.edges if x != i}
                del self.inv[i]
                self.indexed.discard(i)
        elif k == "purge":
            self.inv.clear()
            self.indexed.clear()
            self.edges.clear()
            self.hb.clear()
            self.svc.clear()
        else:
            raise ValueError(op)
        return ("ok",)

    def _match(self, t: Any, sk: str) -> list:
        sts = STSETS[sk]
        return [i for i, v in self.inv.items() if (t is None or self.univ[i][0] == t) and (sts is None or v["status"] in sts)]

    def q(self, spec: tuple) -> Any:
        k = spec[0]
        if k == "rec":
            v = self.inv.get(spec[1])
            if v is None:
                raise ModelRaise("KeyError")
            return (v["status"], v["owner"])
        if k == "existing":
            _, t, a, sk = spec
            return tuple(sorted(i for i in self._match(t, sk) if a is None or (i in self.indexed and self.univ[i][1] == a)))
        if k == "task_ids":
            return tuple(sorted(self._match(spec[1], "*")))
        if k == "call_ids":
            return tuple(sorted(i for i in self.inv if self.univ[i] == self.univ[spec[1]]))
        if k == "page":
            _, t, sk, lim, off = spec
            key = "reg" if self.cfg.get("page_by_registration") else "ts"
            order = sorted(self._match(t, sk), key=lambda i: -self.inv[i][key])
            return tuple(order[off:off + lim])
        if k == "count":
            return len(self._match(spec[1], spec[2]))
        if k == "filter":
            return tuple(sorted(self._match(None, spec[1])))
        if k == "final":
            return tuple(sorted(i for i, v in self.inv.items() if v["status"] in FINAL))
        if k == "retries":
            v = self.inv.get(spec[1])
            return 0 if v is None else v["retries"]
        if k == "active":
            rows = [(r, h) for r, h in self.hb.items() if self.now - h["last"] <= self.T
                    and (spec[1] is None or h["flag"] == spec[1])]
            rows.sort(key=lambda x: x[1]["created"])
            return tuple((r, h["flag"], None if r not in self.svc else float(self.svc[r]),
                          None if r not in self.svc else float(self.svc[r] + 1)) for r, h in rows)
        if k == "pending_scan":
            return tuple(sorted(i for i, v in self.inv.items() if v["status"] == "PENDING" and self.now - v["ts"] >= self.L))
        if k == "running_scan":
            out = []
            for i, v in self.inv.items():
                if v["status"] == "RUNNING" and v["owner"]:
                    h = self.hb.get(v["owner"])
                    if h is None or self.now - h["last"] > self.T:
                        out.append(i)
            return tuple(sorted(out))
        if k == "blocking":
            n = spec[1]
            waiters = {w for w, _ in self.edges}
            ready = [x for x in {x for _, x in self.edges} if x not in waiters and x in self.inv
                     and self.inv[x]["status"] in AVAIL]
            ready.sort(key=lambda x: self.inv[x]["reg"])  # oldest first
            if self.cfg.get("strict_order"):
                return tuple(ready[:max(n, 0)])
            if n < len(ready):
                return ("some", n)
            return tuple(sorted(ready, key=str))
        if k == "queue":
            return self.queue
        if k == "hist":
            return tuple(self.hist[spec[1]])
        raise ValueError(spec)


def _st(i: int, names: str, r: str) -> list[tuple]:
    return [("st", i, n, r) for n in names.split()]


ORCH_CONFIGS: dict[str, dict] = {}


def _orch(name: str, ops: list, quick: int, thorough: int, seeds: dict | None = None, **kw: Any) -> None:
    cfg = dict(comp="orchestrator", name=name, ops=ops, depth=(quick, thorough), seeds=seeds or {"": []}, **kw)
    cfg["queries"] = orch_queries(cfg)
    ORCH_CONFIGS[name] = cfg


_REG3 = [("reg", 0), ("reg", 1), ("reg", 2)]
for _u in ("U1", "U2"):
    _orch(f"orch/lifecycle/{_u}",
          _REG3 + _st(0, "PENDING RUNNING SUCCESS RETRY", "r1") + _st(0, "PENDING RUNNING SUCCESS", "r2")
          + _st(1, "PENDING RUNNING FAILED", "r1") + [("idx", 0), ("idx", 1), ("retry", 0), ("purge",)],
          3, 4, universe=_u,
          seeds={"": [], "running": [("reg", 0), ("reg", 1), ("idx", 0), ("st", 0, "PENDING", "r1"), ("st", 0, "RUNNING", "r1")]})
_orch("orch/lifecycle-rare/U1",
      [("reg", 0), ("reg", 2)] + _st(0, "PENDING KILLED REROUTED PENDING_RECOVERY RUNNING RUNNING_RECOVERY PAUSED RESUMED "
                                        "CONCURRENCY_CONTROLLED CONCURRENCY_CONTROLLED_FINAL SUCCESS", "r1")
      + _st(0, "KILLED PENDING_RECOVERY RUNNING_RECOVERY REROUTED", "r2") + _st(2, "PENDING", "r2") + [("idx", 0), ("idx", 2)],
      3, 4, universe="U1", seeds={"": [], "pending": [("reg", 0), ("st", 0, "PENDING", "r1")],
                                  "running": [("reg", 0), ("st", 0, "PENDING", "r1"), ("st", 0, "RUNNING", "r1")]})
_orch("orch/wait-graph/U1",
      [("wait", 1, (0,)), ("wait", 2, (0,)), ("wait", 2, (1,)), ("wait", 2, (0, 1)), ("wait", 0, (2,)), ("wait", 0, (1,))]
      + _st(0, "PENDING RUNNING SUCCESS", "r1") + _st(1, "PENDING RUNNING FAILED RETRY", "r2") + [("purge",), ("reg", 0)],
      3, 5, universe="U1",
      seeds={"3reg": [("reg", 1), ("reg", 0), ("reg", 2)],
             "0-running": [("reg", 1), ("reg", 0), ("reg", 2), ("st", 0, "PENDING", "r1"), ("st", 0, "RUNNING", "r1")],
             "chain": [("reg", 2), ("reg", 1), ("reg", 0), ("wait", 2, (1,)), ("wait", 1, (0,)),
                       ("st", 0, "PENDING", "r1"), ("st", 0, "RUNNING", "r1")]})
_orch("orch/runners/U1",
      [("hb", "r1", False), ("hb", "r2", True), ("hb", "r3", False), ("ask_active",), ("adv", D - 3 * U), ("adv", U), ("rec", "r2", 5), ("rec", "r2", 7),
       ("reg", 1), ("st", 1, "PENDING", "r2"), ("st", 1, "RUNNING", "r2"), ("st", 0, "SUCCESS", "r1"), ("purge",)],
      3, 5, universe="U1", timed=True,
      seeds={"": [], "0-running": [("reg", 0), ("st", 0, "PENDING", "r1"), ("st", 0, "RUNNING", "r1")],
             # r1 is stale, r2 fresh, and somebody has asked for the active runners in that state
             "one-stale-asked": [("hb", "r1", False), ("rec", "r1", 5), ("hb", "r2", True), ("adv", D - 3 * U), ("hb", "r2", True),
                                 ("ask_active",)],
             "0-running-hb": [("reg", 0), ("st", 0, "PENDING", "r1"), ("hb", "r1", False), ("st", 0, "RUNNING", "r1"), ("adv", D - 3 * U)]})
_orch("orch/auto-purge/U1",
      [("adv", D - 3 * U), ("adv", U), ("apurge",), ("reg", 0), ("reg", 1), ("idx", 0), ("wait", 1, (0,)), ("wait", 0, (1,)),
       ("st", 0, "PENDING", "r1"), ("st", 1, "PENDING", "r1"), ("st", 1, "RUNNING", "r1"), ("st", 1, "FAILED", "r1"), ("retry", 0)],
      3, 5, universe="U1", timed=True,
      seeds={"one-final": [("reg", 0), ("idx", 0), ("st", 0, "PENDING", "r1"), ("st", 0, "RUNNING", "r1"), ("st", 0, "SUCCESS", "r1")],
             "one-final-aged": [("reg", 0), ("idx", 0), ("st", 0, "PENDING", "r1"), ("st", 0, "RUNNING", "r1"), ("st", 0, "SUCCESS", "r1"),
                                ("adv", D - 3 * U)],
             "final-waited": [("reg", 0), ("reg", 1), ("idx", 0), ("wait", 0, (1,)), ("st", 0, "PENDING", "r1"), ("st", 0, "RUNNING", "r1"),
                              ("wait", 1, (0,)), ("st", 0, "SUCCESS", "r1"), ("adv", D - 3 * U)],
             "one-final-one-running": [("reg", 0), ("reg", 1), ("st", 0, "PENDING", "r1"), ("st", 1, "PENDING", "r1"),
                                       ("st", 0, "RUNNING", "r1"), ("st", 1, "RUNNING", "r1"), ("st", 0, "SUCCESS", "r1"),
                                       ("adv", D - 3 * U)]})
_ALL_OPS = (_REG3 + _st(0, "PENDING RUNNING SUCCESS RETRY KILLED", "r1") + _st(0, "PENDING", "r2") + _st(1, "PENDING", "r2")
            + [("idx", 0), ("idx", 2), ("retry", 0), ("hb", "r1", False), ("hb", "r2", True), ("rec", "r2", 5),
               ("wait", 1, (0,)), ("wait", 0, (2,)), ("purge",)])
_orch("orch/all-pairs/U2", _ALL_OPS, 2, 3, universe="U2")

# ---- probes: suspected divergences, one tiny search each (each implementation alone against the model)
_orch("probe/orch/re-register-existing-id", [("reg", 0), ("st", 0, "PENDING", "r1")], 3, 3, universe="U1", free=("reg",))
_orch("probe/orch/blocking-limit-0", [("reg", 0), ("reg", 1), ("wait", 1, (0,))], 3, 3, universe="U1", blk_ns=(0,))
_orch("probe/orch/blocking-oldest-first", _REG3 + [("wait", 2, (0,)), ("wait", 2, (1,)), ("wait", 1, (0,)), ("wait", 0, (1, 2))],
      4, 5, universe="U1", strict_order=True, blk_ns=(1, 2, 10))
_orch("probe/orch/auto-purge-two-purgeable", [("apurge",), ("adv", U)], 2, 2, universe="U1", timed=True, free=("apurge",),
      seeds={"two-final": [("reg", 0), ("reg", 1), ("st", 0, "PENDING", "r1"), ("st", 1, "PENDING", "r1"),
                           ("st", 0, "RUNNING", "r1"), ("st", 1, "RUNNING", "r1"), ("st", 0, "SUCCESS", "r1"),
                           ("st", 1, "SUCCESS", "r1"), ("adv", D - 3 * U), ("adv", U)]})
_orch("probe/orch/heartbeat-keeps-eligibility", [("hb", "r1", False), ("hb", "r1", True), ("hb", "r2", True), ("hb", "r2", False)],
      2, 2, universe="U1", hb_flag_sticky=True)
_orch("probe/orch/service-window-before-heartbeat", [("rec", "r1", 5), ("hb", "r1", True)], 2, 2, universe="U1", free=("rec",))
_orch("probe/orch/page-order-registration-time", [("reg", 0), ("reg", 1), ("st", 0, "PENDING", "r1"), ("st", 1, "PENDING", "r1")],
      3, 3, universe="U1", page_by_registration=True)
_orch("probe/orch/filter-id-not-registered", [("reg", 0), ("reg", 1)], 2, 2, universe="U1", all_ids=True)
_orch("probe/orch/reused-id-still-a-waiter", [("apurge",), ("reg", 0), ("wait", 1, (0,))], 3, 3, universe="U1", timed=True, allow_waiter_reuse=True,
      seeds={"waiter-finished": [("reg", 0), ("reg", 1), ("wait", 0, (1,)), ("st", 0, "PENDING", "r1"), ("st", 0, "RUNNING", "r1"),
                                 ("st", 0, "SUCCESS", "r1"), ("adv", D - 2 * U)]})
_orch("probe/orch/purge-setup-twice", [("setup", 0), ("adv", D - 3 * U), ("adv", U), ("apurge",)], 4, 4, universe="U1", timed=True,
      seeds={"registered": [("reg", 0)]})


# =====================================================================================
# 2. state backend
# =====================================================================================
SB_VALUES = {"v1": 1, "vx": "x"}
SB_KEYS = ("k1", "k2")


def sb_queries(cfg: dict) -> list[tuple[str, tuple]]:
    qs: list[tuple[str, tuple]] = []
    for i in range(3):
        qs.append((f"invocation[{i}]", ("inv", i)))
        qs.append((f"children[{i}]", ("children", i)))
        qs.append((f"result[{i}]", ("result", i)))
        qs.append((f"exception[{i}]", ("exception", i)))
        qs.append((f"history[{i}]", ("history", i)))
    for w in (0, 2):
        for key in SB_KEYS:
            qs.append((f"workflow_data[{w},{key}]", ("wfget", w, key)))
        qs.append((f"workflow_sub_invocations[{w}]", ("wfsubs", w)))
    qs.append(("workflow_types", ("wftypes",)))
    qs.append(("workflow_runs", ("wfruns",)))
    for t in ("A", "B"):
        qs.append((f"workflow_runs_of[{t}]", ("wfruns_of", t)))
    for r in RUNNERS:
        qs.append((f"runner_context[{r}]", ("ctx", r)))
    qs.append(("runner_contexts[all]", ("ctxs",)))
    for part in cfg.get("partials", ("r", "r2", "zz")):
        qs.append((f"matching_runner_contexts[{part}]", ("match", part)))
    for which in cfg.get("range_windows", ("all", "first", "tail")):
        for batch in cfg.get("range_batches", (1, 100)):
            qs.append((f"invocations_in_timerange[{which},batch={batch}]", ("inv_range", which, batch)))
            qs.append((f"history_in_timerange[{which},batch={batch}]", ("hist_range", which, batch)))
    for w in (None, 0, 2):
        for t in (None, "A", "B"):
            qs.append((f"invocation_ids_by_workflow[{w},{t}]", ("by_wf", w, t)))
    qs.append(("app_info", ("appinfo",)))
    only = cfg.get("only_queries")
    if only:
        qs = [x for x in qs if x[0].startswith(only)]
    return qs


class SbImpl(Impl):
    def setup(self) -> None:
        from pynenc.arguments import Arguments
        from pynenc.call import Call
        from pynenc.identifiers.invocation_id import generate_invocation_id
        from pynenc.invocation.dist_invocation import DistributedInvocation
        from pynenc.workflow.workflow_identity import WorkflowIdentity

        app = self.app
        self.tasks = {"A": tasks.bind(app, tasks_c16.ta), "B": tasks.bind(app, tasks_c16.tb)}
        ids = [generate_invocation_id() for _ in range(3)]
        tA, tB = self.tasks["A"], self.tasks["B"]
        w0 = WorkflowIdentity.new_workflow(ids[0], tA.task_id)
        w2 = WorkflowIdentity.new_subworkflow(ids[2], tB.task_id, ids[0])
        self.wf = {0: w0, 2: w2}
        mk = lambda t, a, i, parent, wf: DistributedInvocation(  # noqa: E731
            Call(t, Arguments({"a": a})), i, parent, wf, stored_in_backend=True)
        self.invs = [mk(tA, 0, ids[0], None, w0), mk(tA, 1, ids[1], ids[0], w0), mk(tB, 0, ids[2], ids[0], w2)]
        self.ids = ids
        self.idx = {str(i): k for k, i in enumerate(ids)}
        self.sb = app.state_backend
        self.ctxs = {"r1": runner_ctx("r1"), "r3": runner_ctx("r3")}
        from pynenc.runner.runner_context import RunnerContext

        self.ctxs["r2"] = RunnerContext(runner_cls="VfChild", runner_id="r2", parent_ctx=self.ctxs["r1"])

    def _ix(self, x: Any) -> Any:
        return None if x is None else self.idx.get(str(x), f"?{x}")

    def _wf(self, w: Any) -> Any:
        return (self._ix(w.workflow_id), w.workflow_type.key.split(".")[-1], self._ix(w.parent_workflow_id))

    def do(self, op: tuple) -> Any:
        from pynenc.exceptions import RetryError
        from pynenc.invocation.status import InvocationStatus as S
        from pynenc.invocation.status import InvocationStatusRecord

        sb = self.sb
        k = op[0]
        if k == "up":
            sb.upsert_invocations([self.invs[i] for i in op[1:]])
        elif k == "res":
            sb.set_result(self.ids[op[1]], SB_VALUES[op[2]])
        elif k == "exc":
            sb.set_exception(self.ids[op[1]], ValueError("boom") if op[2] == "value" else RetryError("again"))
        elif k == "hist":
            sb.add_history(self.ids[op[1]], InvocationStatusRecord(S[op[2]], op[3]), self.ctxs[op[3]])
            sb.wait_for_all_async_operations()
        elif k == "hists":
            sb.add_histories([self.invs[i] for i in op[1]], InvocationStatusRecord(S[op[2]], op[3]), self.ctxs[op[3]])
            sb.wait_for_all_async_operations()
        elif k == "wfset":
            sb.set_workflow_data(self.wf[op[1]], op[2], SB_VALUES[op[3]])
        elif k == "wfrun":
            sb.store_workflow_run(self.wf[op[1]])
        elif k == "wfsub":
            sb.store_workflow_sub_invocation(self.ids[op[1]], self.ids[op[2]])
        elif k == "ctx":
            sb.store_runner_context(self.ctxs[op[1]])
        elif k == "purge":
            sb.purge()
        else:
            raise ValueError(op)
        return ("ok",)

    def _stamps(self) -> list:
        ts = set()
        for i in self.ids:
            for h in self.sb.get_history(i):
                ts.add(h.timestamp)
        return sorted(ts)

    def _range(self, which: str) -> tuple:
        ts = self._stamps()
        if which == "all" or not ts:
            return (BASE_DT, BASE_DT + timedelta(days=36500))
        if which == "first":
            return (ts[0], ts[0])
        return (ts[min(1, len(ts) - 1)], ts[-1])

    def q(self, spec: tuple) -> Any:
        sb = self.sb
        k = spec[0]
        ids = lambda it: tuple(sorted((self._ix(x) for x in it), key=str))  # noqa: E731
        ctx = lambda c: None if c is None else (c.runner_cls, c.runner_id, c.parent_ctx.runner_id if c.parent_ctx else None)  # noqa: E731
        if k == "inv":
            inv = sb.get_invocation(self.ids[spec[1]])
            return (self._ix(inv.invocation_id), inv.call.call_id.task_id.key.split(".")[-1],
                    tuple(sorted(inv.call.arguments.kwargs.items())), self._ix(inv.parent_invocation_id), self._wf(inv.workflow))
        if k == "children":
            return ids(sb.get_child_invocations(self.ids[spec[1]]))
        if k == "result":
            return sb.get_result(self.ids[spec[1]])
        if k == "exception":
            e = sb.get_exception(self.ids[spec[1]])
            return (type(e).__name__, tuple(str(a) for a in e.args))
        if k == "history":
            return tuple((h.status_record.status.name, h.status_record.runner_id, h.runner_context_id, self._ix(h.registered_by_inv_id))
                         for h in sb.get_history(self.ids[spec[1]]))
        if k == "wfget":
            return sb.get_workflow_data(self.wf[spec[1]], spec[2], "<default>")
        if k == "wfsubs":
            return ids(sb.get_workflow_sub_invocations(self.ids[spec[1]]))
        if k == "wftypes":
            return tuple(sorted(t.key.split(".")[-1] for t in sb.get_all_workflow_types()))
        if k == "wfruns":
            return tuple(sorted((self._wf(w) for w in sb.get_all_workflow_runs()), key=repr))
        if k == "wfruns_of":
            return tuple(sorted((self._wf(w) for w in sb.get_workflow_runs(self.tasks[spec[1]].task_id)), key=repr))
        if k == "ctx":
            return ctx(sb.get_runner_context(spec[1]))
        if k == "ctxs":
            return tuple(sorted(ctx(c) for c in sb.get_runner_contexts(list(RUNNERS) + ["zz"])))
        if k == "match":
            return tuple(sorted(ctx(c) for c in sb.get_matching_runner_contexts(spec[1])))
        if k == "inv_range":
            a, b = self._range(spec[1])
            batches = [list(x) for x in sb.iter_invocations_in_timerange(a, b, batch_size=spec[2])]
            return (tuple(len(x) for x in batches), ids(x for bt in batches for x in bt))
        if k == "hist_range":
            a, b = self._range(spec[1])
            batches = [list(x) for x in sb.iter_history_in_timerange(a, b, batch_size=spec[2])]
            return (tuple(len(x) for x in batches),
                    tuple(sorted((self._ix(h.invocation_id), h.status_record.status.name) for bt in batches for h in bt)))
        if k == "by_wf":
            _, w, t = spec
            return ids(sb.get_invocation_ids_by_workflow(
                workflow_id=None if w is None else str(self.ids[w]),
                workflow_type_key=None if t is None else self.tasks[t].task_id.key))
        if k == "appinfo":
            return sb.get_app_info().app_id
        raise ValueError(spec)

    def concrete(self) -> Any:
        sb = self.sb
        ix = self._ix
        cache = tuple(sorted(sb._runner_context_cache))
        if self.backend == env.MEM:
            hist = [(ix(i), h.timestamp.timestamp(), h.status_record.status.name, h.runner_context_id)
                    for i, hs in sb._history.items() for h in hs]
            rest = (
                sorted((ix(k), c.call_id.key, repr(sorted(c.serialized_arguments.items())), ix(d.parent_invocation_id),
                        self._wf(d.workflow)) for k, (d, c) in sb._cache.items()),
                sorted((ix(k), tuple(ix(c) for c in v)) for k, v in sb._parent_to_children.items() if v),
                sorted((r, c.runner_cls, c.parent_ctx.runner_id if c.parent_ctx else None) for r, c in sb._runner_contexts.items()),
                sorted((ix(k), v) for k, v in sb._results.items()), sorted((ix(k), v) for k, v in sb._exceptions.items()),
                sorted((ix(k), kk, repr(vv)) for k, d in sb._workflow_data.items() for kk, vv in d.items()),
                sorted(t.key for t in sb._workflow_types),
                sorted((self._wf(w) for ws in sb._workflow_runs.values() for w in ws), key=repr),
                sorted((ix(k), ix(s)) for k, ss in sb._workflow_sub_invocations.items() for s in ss))
        else:
            t = sb.tables
            db = sb.sqlite_db_path
            rows = lambda sql: dumps._rows(db, sql)  # noqa: E731
            hist = [(ix(r[0]), r[1], r[2].upper(), "") for r in rows(
                f"SELECT invocation_id, history_timestamp, history_status FROM {t.HISTORY}")]
            rest = (
                sorted((ix(r[0]), r[1], r[2], ix(r[3]), ix(r[4]), r[5], ix(r[6])) for r in rows(
                    f"SELECT invocation_id, call_id_key, serialized_arguments, parent_invocation_id, workflow_id, "
                    f"workflow_type_key, parent_workflow_id FROM {t.INVOCATIONS}")),
                sorted(rows(f"SELECT runner_id, runner_cls, parent_ctx_id FROM {t.RUNNER_CONTEXTS}")),
                sorted((ix(r[0]), r[1]) for r in rows(f"SELECT invocation_id, result_data FROM {t.RESULTS}")),
                sorted((ix(r[0]), r[1]) for r in rows(f"SELECT invocation_id, exception_data FROM {t.EXCEPTIONS}")),
                sorted((ix(r[0]), r[1], r[2]) for r in rows(f"SELECT workflow_id, data_key, data_value FROM {t.WORKFLOW_DATA}")),
                sorted((ix(r[0]), r[1], ix(r[2]) if r[2] else None) for r in rows(
                    f"SELECT workflow_id, workflow_type_key, parent_workflow_id FROM {t.WORKFLOWS}")),
                sorted((ix(r[0]), ix(r[1])) for r in rows(
                    f"SELECT parent_workflow_id, sub_invocation_id FROM {t.WORKFLOW_SUB_INVOCATIONS}")),
                len(rows(f"SELECT app_id FROM {t.APP_INFO}")))
        rk = _ranker([h[1] for h in hist], self.now, False)
        return (tuple(sorted((i, rk(ts), s, c) for i, ts, s, c in hist)), repr(rest), cache)


class SbModel(Model):
    """Reference model of base_state_backend.py: plain dictionaries; the documented process-local
    runner-context cache (store only when not cached, look up the cache first) is part of it."""

    UNIV = [("A", 0, None, 0), ("A", 1, 0, 0), ("B", 0, 0, 2)]  # task, a, parent, workflow
    WF = {0: (0, "ta", None), 2: (2, "tb", 0)}
    CTX = {"r1": ("VfRunner", "r1", None), "r2": ("VfChild", "r2", "r1"), "r3": ("VfRunner", "r3", None)}

    def reset(self) -> None:
        self.now = 0.0
        self.tick = 0
        self.invs: set = set()
        self.results: dict = {}
        self.excs: dict = {}
        self.hist: dict = {0: [], 1: [], 2: []}
        self.wfdata: dict = {}
        self.wfruns: set = set()
        self.wfsubs: set = set()
        self.ctx_store: set = set()
        self.ctx_cache: set = set()
        self.app_info = True

    def enabled(self, op: tuple) -> bool:
        return True  # purge is free everywhere since MemStateBackend.purge clears workflow data / runner contexts

    def _store_ctx(self, r: str) -> None:
        if r not in self.ctx_cache:
            self.ctx_store.add(r)
        self.ctx_cache.add(r)
        if self.CTX[r][2]:
            self._store_ctx(self.CTX[r][2])

    def _hist(self, i: int, status: str, r: str, reg_by: Any) -> None:
        self.tick += 1
        self.hist[i].append((self.tick, status, r, r, reg_by))

    def do(self, op: tuple) -> Any:
        k = op[0]
        if k == "up":
            self.invs.update(op[1:])
        elif k == "res":
            self.results[op[1]] = SB_VALUES[op[2]]
        elif k == "exc":
            self.excs[op[1]] = ("ValueError", ("boom",)) if op[2] == "value" else ("RetryError", ("again",))
        elif k == "hist":
            self._store_ctx(op[3])
            self._hist(op[1], op[2], op[3], None)
        elif k == "hists":
            self._store_ctx(op[3])
            for i in op[1]:
                self._hist(i, op[2], op[3], self.UNIV[i][2] if op[2] == "REGISTERED" else None)
        elif k == "wfset":
            self.wfdata[(op[1], op[2])] = SB_VALUES[op[3]]
        elif k == "wfrun":
            self.wfruns.add(op[1])
        elif k == "wfsub":
            self.wfsubs.add((op[1], op[2]))
        elif k == "ctx":
            self._store_ctx(op[1])
        elif k == "purge":  # "Purges all store state backend data for the current application"
            self.invs.clear()
            self.results.clear()
            self.excs.clear()
            self.hist = {0: [], 1: [], 2: []}
            self.wfdata.clear()
            self.wfruns.clear()
            self.wfsubs.clear()
            self.ctx_store.clear()
            self.ctx_cache.clear()  # the process-local runner-context cache is purged too (fix 267608d)
            self.app_info = False
        else:
            raise ValueError(op)
        return ("ok",)

    def _in_range(self, which: str) -> list:
        ents = sorted((e[0], i, e[1]) for i, es in self.hist.items() for e in es)
        if which == "all" or not ents:
            return ents
        stamps = [e[0] for e in ents]
        lo, hi = (stamps[0], stamps[0]) if which == "first" else (stamps[min(1, len(stamps) - 1)], stamps[-1])
        return [e for e in ents if lo <= e[0] <= hi]

    @staticmethod
    def _batches(n: int, size: int) -> tuple:
        return tuple(min(size, n - k) for k in range(0, n, size))

    def q(self, spec: tuple) -> Any:
        k = spec[0]
        if k == "inv":
            i = spec[1]
            if i not in self.invs:
                raise ModelRaise("InvocationNotFoundError")
            t, a, parent, w = self.UNIV[i]
            return (i, "ta" if t == "A" else "tb", (("a", a),), parent, self.WF[w])
        if k == "children":
            return tuple(sorted(i for i in self.invs if self.UNIV[i][2] == spec[1]))
        if k == "result":
            if spec[1] not in self.results:
                raise ModelRaise("KeyError")
            return self.results[spec[1]]
        if k == "exception":
            if spec[1] not in self.excs:
                raise ModelRaise("KeyError")
            return self.excs[spec[1]]
        if k == "history":
            return tuple(e[1:] for e in sorted(self.hist[spec[1]]))
        if k == "wfget":
            return self.wfdata.get((spec[1], spec[2]), "<default>")
        if k == "wfsubs":
            return tuple(sorted(s for w, s in self.wfsubs if w == spec[1]))
        if k == "wftypes":
            return tuple(sorted({self.WF[w][1] for w in self.wfruns}))
        if k == "wfruns":
            return tuple(sorted((self.WF[w] for w in self.wfruns), key=repr))
        if k == "wfruns_of":
            return tuple(sorted((self.WF[w] for w in self.wfruns if self.WF[w][1] == ("ta" if spec[1] == "A" else "tb")), key=repr))
        if k == "ctx":
            r = spec[1]
            if r in self.ctx_cache:
                return self.CTX[r]
            if r in self.ctx_store:
                self.ctx_cache.add(r)
                return self.CTX[r]
            return None
        if k == "ctxs":
            out = []
            for r in RUNNERS:
                if r in self.ctx_cache or r in self.ctx_store:
                    self.ctx_cache.add(r)
                    out.append(self.CTX[r])
            return tuple(sorted(out))
        if k == "match":
            return tuple(sorted(self.CTX[r] for r in self.ctx_store if spec[1] in r))
        if k == "inv_range":
            found = sorted({e[1] for e in self._in_range(spec[1])})
            return (self._batches(len(found), spec[2]), tuple(found))
        if k == "hist_range":
            ents = self._in_range(spec[1])
            return (self._batches(len(ents), spec[2]), tuple(sorted((e[1], e[2]) for e in ents)))
        if k == "by_wf":
            _, w, t = spec
            return tuple(sorted(i for i in self.invs if (w is None or self.UNIV[i][3] == w)
                                and (t is None or self.UNIV[self.UNIV[i][3]][0] == t)))
        if k == "appinfo":
            if not self.app_info:
                raise ModelRaise("KeyError")
            return "c16"
        raise ValueError(spec)


SB_CONFIGS: dict[str, dict] = {}


def _sb(name: str, ops: list, quick: int, thorough: int, seeds: dict | None = None, **kw: Any) -> None:
    cfg = dict(comp="state_backend", name=name, ops=ops, depth=(quick, thorough), seeds=seeds or {"": []}, **kw)
    cfg["queries"] = sb_queries(cfg)
    SB_CONFIGS[name] = cfg


_SB_INV = [("up", 0), ("up", 1), ("up", 2), ("up", 0, 1), ("res", 0, "v1"), ("res", 0, "vx"), ("res", 1, "v1"),
           ("exc", 0, "value"), ("exc", 0, "retry"), ("exc", 2, "value"), ("purge",)]
_SB_HIST = [("up", 0), ("up", 1), ("hist", 0, "REGISTERED", "r1"), ("hist", 0, "PENDING", "r2"), ("hist", 1, "REGISTERED", "r1"),
            ("hist", 2, "RUNNING", "r3"), ("hists", (0, 1), "REGISTERED", "r1"), ("hists", (1, 2), "PENDING", "r2"),
            ("ctx", "r1"), ("ctx", "r2"), ("ctx", "r3")]
_SB_WF = [("up", 0), ("up", 2), ("wfset", 0, "k1", "v1"), ("wfset", 0, "k1", "vx"), ("wfset", 2, "k2", "v1"), ("wfrun", 0), ("wfrun", 2),
          ("wfsub", 0, 1), ("wfsub", 0, 2), ("wfsub", 2, 1), ("purge",)]
_sb("sb/invocations-results", _SB_INV, 4, 5, only_queries=("invocation", "children", "result", "exception", "history", "workflow",
                                                           "runner", "matching", "invocations_in", "history_in", "invocation_ids"))
_sb("sb/history-contexts", _SB_HIST, 3, 4, only_queries=("invocation", "children", "result", "exception", "history", "workflow",
                                                         "runner", "matching", "invocations_in", "history_in", "invocation_ids"))
_sb("sb/workflows", _SB_WF, 4, 5, only_queries=("invocation", "children", "result", "exception", "history", "workflow",
                                               "runner", "matching", "invocations_in", "history_in", "invocation_ids"))
# history rows with equal time stamps (a clock coarser than the writes: frozen clock, a batch of ids gets one stamp), paged with
# small batch sizes: every (invocation, status) pair is written at most once (the SQLite key is invocation + stamp + status)
_sb("sb/history-equal-stamps", [("up", 0), ("up", 1), ("up", 2), ("hists", (0, 1, 2), "REGISTERED", "r1"),
                                ("hists", (0, 1), "PENDING", "r2"), ("hist", 2, "RUNNING", "r3")], 4, 6, timed=True,
    range_windows=("all",), range_batches=(1, 2, 100), only_queries=("history[", "history_in_timerange", "invocations_in_timerange"))
# purge from any state, every query except the three recorded purge divergences (their own probes below)
_sb("sb/purge-rest", [("up", 1), ("res", 1, "v1"), ("exc", 1, "value"), ("hist", 1, "PENDING", "r2"), ("wfset", 0, "k1", "v1"),
                      ("wfrun", 2), ("wfsub", 0, 1), ("purge",)], 4, 5, free_purge=True,
    only_queries=("invocation", "children", "result", "exception", "history", "workflow_sub", "workflow_types", "workflow_runs",
                  "runner_context", "invocations_in", "history_in", "invocation_ids"))
_sb("sb/all-pairs", sorted(set(_SB_INV + _SB_HIST + _SB_WF)), 2, 3,
    only_queries=("invocation", "children", "result", "exception", "history", "workflow", "runner", "matching", "invocations_in",
                  "history_in", "invocation_ids"))
_sb("probe/sb/purge-keeps-workflow-data", [("wfset", 0, "k1", "v1"), ("purge",)], 2, 2, free_purge=True, only_queries=("workflow_data",))
_sb("probe/sb/purge-keeps-runner-contexts", [("ctx", "r1"), ("purge",)], 2, 2, free_purge=True, only_queries=("matching", "runner"))
_sb("probe/sb/purge-app-info", [("purge",)], 1, 1, free_purge=True, only_queries=("app_info",))
_sb("probe/sb/matching-runner-contexts-like", [("ctx", "r1"), ("ctx", "r2")], 2, 2, only_queries=("matching",),
    partials=("R1", "_", "%", "r"))


# =====================================================================================
# 3. trigger store
# =====================================================================================
def trg_queries(cfg: dict) -> list[tuple[str, tuple]]:
    qs: list[tuple[str, tuple]] = []
    for c in ("S", "E", "C"):
        qs.append((f"condition[{c}]", ("cond", c)))
        qs.append((f"triggers_for_condition[{c}]", ("for_cond", c)))
        qs.append((f"last_cron_execution[{c}]", ("last_cron", c)))
    for t in ("t1", "t2", "t3"):
        qs.append((f"trigger[{t}]", ("trigger", t)))
    for task in ("A", "F"):
        for ct in (None, "StatusContext", "EventContext"):
            qs.append((f"conditions_sourced_from_task[{task},{ct}]", ("sourced", task, ct)))
    qs.append(("valid_conditions", ("valid",)))
    qs.append(("all_conditions", ("all_conds",)))
    only = cfg.get("only_queries")
    if only:
        qs = [x for x in qs if x[0].startswith(only)]
    return qs


class TrgImpl(Impl):
    def setup(self) -> None:
        from pynenc.trigger.conditions import CompositeLogic, CronContext, EventContext, ValidCondition
        from pynenc.trigger.trigger_builder import on_cron, on_event, on_status
        from pynenc.trigger.trigger_definitions import TriggerDefinition

        app = self.app
        self.tasks = {"A": tasks.bind(app, tasks_c16.ta), "F": tasks.bind(app, tasks_c16.fired), "G": tasks.bind(app, tasks_c16.tb)}
        self.builders = {"S": on_status(self.tasks["A"]), "E": on_event("ev"), "C": on_cron("*/5 * * * *")}
        self.conds = {k: b.conditions[0] for k, b in self.builders.items()}
        cid = {k: c.condition_id for k, c in self.conds.items()}
        self.cid = cid
        self.cname = {v: k for k, v in cid.items()}
        F, G = self.tasks["F"].task_id, self.tasks["G"].task_id
        self.trigs = {"t1": TriggerDefinition(F, [cid["S"]]).to_dto(app),
                      "t2": TriggerDefinition(F, [cid["E"], cid["C"]], CompositeLogic.OR).to_dto(app),
                      "t3": TriggerDefinition(G, [cid["E"]]).to_dto(app)}
        self.tname = {d.trigger_id: k for k, d in self.trigs.items()}
        self.vcs = {"vE1": ValidCondition(self.conds["E"], EventContext(event_id="e1", event_code="ev", payload={"k": 1})),
                    "vE2": ValidCondition(self.conds["E"], EventContext(event_id="e2", event_code="ev", payload={})),
                    "vC": ValidCondition(self.conds["C"], CronContext(timestamp=BASE_DT))}
        self.vname = {v.valid_condition_id: k for k, v in self.vcs.items()}
        self.events: list[str] = []
        self.trg = app.trigger

    def do(self, op: tuple) -> Any:
        t = self.trg
        k = op[0]
        if k == "cond":
            t.register_condition(self.conds[op[1]])
        elif k == "trig":
            t.register_trigger(self.trigs[op[1]])
        elif k == "rawcond":
            t._register_condition(self.conds[op[1]])
        elif k == "clean":
            t.clean_task_trigger_definitions(self.tasks[op[1]].task_id)
        elif k == "rtt":
            t.register_task_triggers(self.tasks[op[1]], [self.builders[b] for b in op[2]])
        elif k == "vc":
            t.record_valid_condition(self.vcs[op[1]])
        elif k == "vcs":
            t.record_valid_conditions([self.vcs[v] for v in op[1]])
        elif k == "clear":
            t.clear_valid_conditions([self.vcs[v] for v in op[1]])
        elif k == "emit":
            self.events.append(t.emit_event(op[1], {"k": op[2]}))
        elif k == "claim":
            return ("claimed", t.claim_trigger_run(op[1], op[2]))
        elif k == "cron":
            exp = None if op[2] is None else BASE_DT + timedelta(minutes=op[2])
            return ("stored", t.store_last_cron_execution(self.cid[op[3]] if len(op) > 3 else self.cid["C"],
                                                          BASE_DT + timedelta(minutes=op[1]), exp))
        elif k == "ctt":
            t.check_time_based_triggers(BASE_DT + timedelta(minutes=op[1]))
        elif k == "adv":
            env.CLOCK.now = round(env.CLOCK.now + op[1], 6)
        elif k == "purge":
            t.purge()
        else:
            raise ValueError(op)
        return ("ok",)

    def _vc_name(self, vid: str) -> str:
        if vid in self.vname:
            return self.vname[vid]
        for n, e in enumerate(self.events):
            vid = vid.replace(e, f"<event{n}>")
        for cid, c in self.cname.items():
            vid = vid.replace(cid, f"<{c}>")
        return vid

    def q(self, spec: tuple) -> Any:
        from pynenc.trigger import conditions as cmod

        t = self.trg
        k = spec[0]
        if k == "cond":
            c = t.get_condition(self.cid[spec[1]])
            return None if c is None else (type(c).__name__, self.cname.get(c.condition_id, c.condition_id))
        if k == "for_cond":
            return tuple(sorted(self.tname.get(d.trigger_id, d.trigger_id) for d in t.get_triggers_for_condition(self.cid[spec[1]])))
        if k == "last_cron":
            d = t.get_last_cron_execution(self.cid[spec[1]])
            return None if d is None else (d - BASE_DT).total_seconds() / 60
        if k == "trigger":
            d = t.get_trigger(self.trigs[spec[1]].trigger_id)
            return None if d is None else (self.tname.get(d.trigger_id), d.task_id.key.split(".")[-1],
                                           tuple(sorted(self.cname.get(c, c) for c in d.condition_ids)), d.logic.name)
        if k == "sourced":
            ct = None if spec[2] is None else getattr(cmod, spec[2])
            return tuple(sorted(self.cname.get(c.condition_id, c.condition_id)
                                for c in t.get_conditions_sourced_from_task(self.tasks[spec[1]].task_id, ct)))
        if k == "valid":
            return tuple(sorted((self._vc_name(vid), self.cname.get(v.condition.condition_id), type(v.context).__name__)
                                for vid, v in t.get_valid_conditions().items()))
        if k == "all_conds":
            return tuple(sorted(self.cname.get(c.condition_id, c.condition_id) for c in t._get_all_conditions()))
        raise ValueError(spec)

    def concrete(self) -> Any:
        t = self.trg
        base = (tuple(sorted(self.cname.get(c, c) for c in t._registered_conditions)),
                tuple(sorted((k.key, tuple(sorted(v))) for k, v in t._source_task_conditions.items() if v)),
                tuple(sorted((self.cname.get(c, c), str(v)) for c, v in t._last_cron_execution_cache.items())))
        stamps: list = []
        if self.backend == env.MEM:
            claims = [(k, v.timestamp()) for k, v in t._trigger_run_claims.items()]
            rest = (sorted(t._conditions), sorted(t._triggers), sorted((c, tuple(v)) for c, v in t._condition_triggers.items() if v),
                    sorted(self._vc_name(v) for v in t._valid_conditions), sorted((k, str(v)) for k, v in t._last_cron_executions.items()))
        else:
            tb = t.tables
            rows = lambda sql: dumps._rows(t.sqlite_db_path, sql)  # noqa: E731
            claims = [(r[0], datetime.fromisoformat(r[1]).timestamp()) for r in rows(
                f"SELECT trigger_run_id, expiration FROM {tb.TRIGGER_RUN_CLAIMS}")]
            rest = (sorted(rows(f"SELECT condition_id, last_cron_execution FROM {tb.CONDITIONS}")),
                    sorted(rows(f"SELECT trigger_id, task_id_key, logic_value FROM {tb.TRIGGERS}")),
                    sorted(rows(f"SELECT condition_id, trigger_id FROM {tb.CONDITION_TRIGGERS}")),
                    sorted(self._vc_name(r[0]) for r in rows(f"SELECT valid_condition_id FROM {tb.VALID_CONDITIONS}")),
                    sorted(rows(f"SELECT task_id_key, condition_id FROM {tb.SOURCE_TASK_CONDITIONS}")))
        rk = _ranker(stamps, self.now, True)
        return (base, repr(rest), tuple(sorted((k, rk(v)) for k, v in claims)), len(self.events))


class TrgModel(Model):
    """Reference model of base_trigger.py: condition / trigger / valid-condition tables, the documented
    once-per-process registration cache, the cron bookkeeping with its local cache, expiring claims."""

    SRC = {"S": "A"}  # condition -> source task
    CTYPE = {"S": "StatusContext", "E": "EventContext", "C": "CronContext"}
    CLS = {"S": "StatusCondition", "E": "EventCondition", "C": "CronCondition"}
    TRIGS = {"t1": ("fired", ("S",), "AND"), "t2": ("fired", ("C", "E"), "OR"), "t3": ("tb", ("E",), "AND")}
    TASK_OF = {"F": "fired", "G": "tb", "A": "ta"}

    def reset(self) -> None:
        from pynenc.trigger.conditions import CronCondition

        self.now = 0.0
        self.conds: set = set()
        self.seen: set = set()  # process-local: already registered by this app object
        self.trigs: dict = {}
        self.links: list = []  # (condition, trigger)
        self.valid: dict = {}
        self.cron: dict = {}
        self.cron_cache: dict = {}
        self.claims: dict = {}
        self.nevents = 0
        self.cron_cond = CronCondition("*/5 * * * *")  # shared pure schedule arithmetic (not a backend)

    def enabled(self, op: tuple) -> bool:
        if op[0] == "cron" and "cron" not in self.cfg.get("free", ()):
            return (op[3] if len(op) > 3 else "C") in self.conds
        if op[0] == "trig" and "trig" not in self.cfg.get("free", ()):
            return op[1] not in self.trigs
        if op[0] == "rawcond":
            return op[1] in self.seen
        return True

    def _reg_cond(self, c: str) -> None:
        if c not in self.seen:
            self.seen.add(c)
            self.conds.add(c)

    def _reg_trig(self, t: str) -> None:
        self.trigs[t] = self.TRIGS[t]
        for c in self.TRIGS[t][1]:
            if (c, t) not in self.links:
                self.links.append((c, t))

    def _clean(self, task: str) -> None:
        gone = [t for t, d in self.trigs.items() if d[0] == self.TASK_OF[task]]
        for t in gone:
            del self.trigs[t]
        self.links = [(c, t) for c, t in self.links if t not in gone]

    def _sat(self, minute: int, last: Any) -> bool:
        from pynenc.trigger.conditions import CronContext

        return self.cron_cond.is_satisfied_by(CronContext(
            timestamp=BASE_DT + timedelta(minutes=minute),
            last_execution=None if last is None else BASE_DT + timedelta(minutes=last)))

    def do(self, op: tuple) -> Any:
        k = op[0]
        if k == "cond":
            self._reg_cond(op[1])
        elif k == "rawcond":
            self.conds.add(op[1])
        elif k == "trig":
            self._reg_trig(op[1])
        elif k == "clean":
            self._clean(op[1])
        elif k == "rtt":
            self._clean(op[1])
            for b in op[2]:
                self._reg_cond(b)
                t = {("F", "S"): "t1", ("G", "E"): "t3"}[(op[1], b)]
                self._reg_trig(t)
        elif k == "vc":
            self.valid[op[1]] = op[1]
        elif k == "vcs":
            for v in op[1]:
                self.valid[v] = v
        elif k == "clear":
            for v in op[1]:
                self.valid.pop(v, None)
        elif k == "emit":
            n = self.nevents
            self.nevents += 1
            if "E" in self.conds and op[1] == "ev":  # only conditions on this event code
                self.valid[f"valid_condition_<E>_context_event_{op[1]}_<event{n}>"] = "E"
        elif k == "claim":
            exp = self.claims.get(op[1])
            if exp is not None and exp > self.now:
                return ("claimed", False)
            self.claims[op[1]] = self.now + op[2]
            return ("claimed", True)
        elif k == "cron":
            c = op[3] if len(op) > 3 else "C"
            if op[2] is not None and self.cron.get(c) != op[2]:
                return ("stored", False)
            self.cron[c] = op[1]
            return ("stored", True)
        elif k == "ctt":
            if "C" in self.conds:
                m = op[1]
                cached = self.cron_cache.get("C")
                if cached is not None and not self._sat(m, cached):
                    return ("ok",)
                stored = self.cron.get("C")
                if stored is not None:
                    self.cron_cache["C"] = stored
                    if not self._sat(m, stored):
                        return ("ok",)
                elif not self._sat(m, cached):
                    return ("ok",)  # never executed: the schedule still decides (repo fix da5f365)
                self.cron["C"] = m
                self.cron_cache["C"] = m
                self.valid[f"valid_condition_<C>_context_cron_{(BASE_DT + timedelta(minutes=m)).isoformat()}"] = "C"
        elif k == "adv":
            self.now = round(self.now + op[1], 6)
        elif k == "purge":
            self.conds.clear()
            self.seen.clear()
            self.trigs.clear()
            self.links = []
            self.valid.clear()
            self.cron.clear()
            self.cron_cache.clear()
            self.claims.clear()
        else:
            raise ValueError(op)
        return ("ok",)

    def q(self, spec: tuple) -> Any:
        k = spec[0]
        if k == "cond":
            return (self.CLS[spec[1]], spec[1]) if spec[1] in self.conds else None
        if k == "for_cond":
            return tuple(sorted(t for c, t in self.links if c == spec[1] and t in self.trigs))
        if k == "last_cron":
            v = self.cron.get(spec[1])
            return None if v is None else float(v)
        if k == "trigger":
            d = self.trigs.get(spec[1])
            return None if d is None else (spec[1], d[0], tuple(sorted(d[1])), d[2])
        if k == "sourced":
            return tuple(sorted(c for c in self.conds if c in self.seen_src() and self.SRC.get(c) == spec[1]
                                and (spec[2] is None or self.CTYPE[c] == spec[2])))
        if k == "valid":
            name = lambda key, c: key if key.startswith("valid_condition") else key  # noqa: E731
            return tuple(sorted((name(key, c), c if c in ("S", "E", "C") else {"vE1": "E", "vE2": "E", "vC": "C"}[c],
                                 self.CTYPE[c if c in ("S", "E", "C") else {"vE1": "E", "vE2": "E", "vC": "C"}[c]])
                                for key, c in self.valid.items()))
        if k == "all_conds":
            return tuple(sorted(self.conds))
        raise ValueError(spec)

    def seen_src(self) -> set:
        # the source-task link is written by register_condition (public path) only
        return self.seen


TRG_CONFIGS: dict[str, dict] = {}


def _trg(name: str, ops: list, quick: int, thorough: int, seeds: dict | None = None, **kw: Any) -> None:
    cfg = dict(comp="trigger", name=name, ops=ops, depth=(quick, thorough), seeds=seeds or {"": []}, **kw)
    cfg["queries"] = trg_queries(cfg)
    TRG_CONFIGS[name] = cfg


_trg("trg/definitions", [("cond", "S"), ("cond", "E"), ("cond", "C"), ("trig", "t1"), ("trig", "t2"), ("trig", "t3"),
                         ("clean", "F"), ("clean", "G"), ("rtt", "F", ("S",)), ("rtt", "G", ("E",)), ("rtt", "F", ()), ("purge",)],
     4, 5)
_trg("trg/valid-conditions", [("cond", "E"), ("cond", "C"), ("trig", "t2"), ("vc", "vE1"), ("vc", "vC"), ("vcs", ("vE1", "vE2")),
                              ("vcs", ()), ("clear", ("vE1",)), ("clear", ("vE2", "vC")), ("emit", "ev", 1), ("emit", "other", 1),
                              ("purge",)], 4, 5)
_trg("trg/cron", [("cond", "C"), ("cron", 5, None), ("cron", 10, 5), ("cron", 10, 0), ("cron", 0, None), ("ctt", 5), ("ctt", 6),
                  ("ctt", 10), ("ctt", 12), ("purge",)], 4, 6)
_trg("trg/claims", [("claim", "x", 1), ("claim", "y", 1), ("claim", "x", 2), ("adv", 1 - 2 * U), ("adv", U), ("purge",)], 4, 6,
     timed=True, only_queries=("valid", "all_conditions"))
_trg("trg/all-pairs", [("cond", "S"), ("cond", "E"), ("cond", "C"), ("trig", "t1"), ("trig", "t2"), ("clean", "F"), ("rtt", "F", ("S",)),
                       ("vc", "vE1"), ("vcs", ("vE2", "vC")), ("clear", ("vE1",)), ("emit", "ev", 1), ("cron", 5, None), ("cron", 10, 5),
                       ("ctt", 5), ("ctt", 10), ("claim", "x", 60), ("purge",)], 2, 3)
_trg("probe/trg/register-trigger-twice", [("cond", "E"), ("trig", "t3")], 3, 3, free=("trig",), only_queries=("triggers_for",))
_trg("probe/trg/raw-condition-write-keeps-cron", [("cond", "C"), ("cron", 5, None), ("rawcond", "C")], 3, 3,
     only_queries=("last_cron", "condition", "all_conditions"))
_trg("probe/trg/cron-store-unregistered-condition", [("cron", 5, None), ("cond", "C")], 2, 2, free=("cron",),
     only_queries=("last_cron",))


# =====================================================================================
# 4. client data store
# =====================================================================================
CDS_VALUES = {"a": [1, 2, 3], "b": "text"}


def cds_queries(cfg: dict) -> list[tuple[str, tuple]]:
    return ([(f"resolve[{v}]", ("resolve", v)) for v in CDS_VALUES] + [(f"retrieve[{k}]", ("retrieve", k)) for k in ("a", "b", "free")]
            + [(f"inline[{v}]", ("inline", v)) for v in CDS_VALUES])


class CdsImpl(Impl):
    def setup(self) -> None:
        import hashlib

        from pynenc.serializer.constants import ReservedKeys

        self.ds = self.app.client_data_store
        ser = self.app.serializer
        self.blob = {v: ser.serialize(x) for v, x in CDS_VALUES.items()}
        # the documented key: reserved prefix + SHA-256 of the serialised content
        self.key = {v: f"{ReservedKeys.CLIENT_DATA.value}:{hashlib.sha256(b.encode()).hexdigest()}" for v, b in self.blob.items()}
        self.key["free"] = f"{ReservedKeys.CLIENT_DATA.value}:free"

    def do(self, op: tuple) -> Any:
        ds = self.ds
        k = op[0]
        if k == "ser":
            r = ds.serialize(CDS_VALUES[op[1]])
            return ("ref", r == self.key[op[1]], ds.is_reference(r))
        if k == "ser_inline":
            return ("inline", ds.serialize(CDS_VALUES[op[1]], disable_cache=True) == self.blob[op[1]])
        if k == "store":
            ds._store(self.key[op[1]], self.blob[op[2]])
        elif k == "purge":
            ds.purge()
        else:
            raise ValueError(op)
        return ("ok",)

    def q(self, spec: tuple) -> Any:
        if spec[0] == "resolve":
            return repr(self.ds.resolve(self.key[spec[1]]))
        if spec[0] == "retrieve":
            b = self.ds._retrieve(self.key[spec[1]])
            return next((v for v, x in self.blob.items() if x == b), b)
        if spec[0] == "inline":
            return repr(self.ds.resolve(self.blob[spec[1]]))
        raise ValueError(spec)

    def concrete(self) -> Any:
        names = {v: k for k, v in self.key.items()}
        if self.backend == env.MEM:
            rows = sorted((names.get(k, k), v) for k, v in self.ds._storage.items())
        else:
            rows = sorted((names.get(r[0], r[0]), r[1].decode()) for r in dumps._rows(
                self.ds.sqlite_db_path, f"SELECT data_key, data_value FROM {self.ds.tables.STORE}"))
        return (tuple(rows), tuple(names.get(k, k) for k in self.ds._deserialized_cache))


class CdsModel(Model):
    """Content-addressed store + the documented process-local cache of deserialised objects."""

    def reset(self) -> None:
        self.now = 0.0
        self.store: dict = {}
        self.cache: dict = {}

    def do(self, op: tuple) -> Any:
        k = op[0]
        if k == "ser":
            self.store[op[1]] = op[1]
            self.cache[op[1]] = op[1]
            return ("ref", True, True)
        if k == "ser_inline":
            return ("inline", True)
        if k == "store":
            self.store[op[1]] = op[2]
        elif k == "purge":
            self.store.clear()
            self.cache.clear()
        return ("ok",)

    def q(self, spec: tuple) -> Any:
        if spec[0] == "resolve":
            v = spec[1]
            if v not in self.cache:
                if v not in self.store:
                    raise ModelRaise("KeyError")
                self.cache[v] = self.store[v]
            return repr(CDS_VALUES[self.cache[v]])
        if spec[0] == "retrieve":
            if spec[1] not in self.store:
                raise ModelRaise("KeyError")
            return self.store[spec[1]]
        if spec[0] == "inline":
            return repr(CDS_VALUES[spec[1]])
        raise ValueError(spec)


CDS_CONFIGS = {"cds/store": dict(
    comp="client_data_store", name="cds/store", depth=(6, 8), seeds={"": []}, conf=dict(min_size_to_cache=1),
    ops=[("ser", "a"), ("ser", "b"), ("ser_inline", "a"), ("store", "a", "a"), ("store", "a", "b"), ("store", "free", "b"), ("purge",)])}
CDS_CONFIGS["cds/store"]["queries"] = cds_queries(CDS_CONFIGS["cds/store"])


# =====================================================================================
# 5. broker (C08 explores it in depth; here the same systems, a short search)
# =====================================================================================
class BrokerImpl(Impl):
    def setup(self) -> None:
        self.b = self.app.broker

    def do(self, op: tuple) -> Any:
        b = self.b
        if op[0] == "route":
            b.route_invocation(op[1])
        elif op[0] == "batch":
            b.route_invocations(list(op[1]))
        elif op[0] == "retrieve":
            r = b.retrieve_invocation()
            return ("got", None if r is None else str(r))
        elif op[0] == "purge":
            b.purge()
        return ("ok",)

    def q(self, spec: tuple) -> Any:
        return self.b.count_invocations()

    def concrete(self) -> Any:
        return dumps.queue(self.app, self.backend)


class BrokerModel(Model):
    def reset(self) -> None:
        self.now = 0.0
        self.fifo: list = []

    def do(self, op: tuple) -> Any:
        if op[0] == "route":
            self.fifo.append(op[1])
        elif op[0] == "batch":
            self.fifo.extend(op[1])
        elif op[0] == "retrieve":
            return ("got", self.fifo.pop(0) if self.fifo else None)
        elif op[0] == "purge":
            self.fifo.clear()
        return ("ok",)

    def q(self, spec: tuple) -> Any:
        return len(self.fifo)


BROKER_CONFIGS = {"broker/fifo": dict(
    comp="broker", name="broker/fifo", depth=(5, 7), seeds={"": []}, queries=[("count", ("count",))],
    ops=[("route", "a"), ("route", "b"), ("batch", ("a", "b")), ("batch", ("b", "b")), ("batch", ()), ("retrieve",), ("purge",)])}


KINDS: dict[str, tuple] = {"orchestrator": (OrchImpl, OrchModel), "state_backend": (SbImpl, SbModel), "trigger": (TrgImpl, TrgModel),
                           "client_data_store": (CdsImpl, CdsModel), "broker": (BrokerImpl, BrokerModel)}
CONFIGS: dict[str, dict] = {**ORCH_CONFIGS, **SB_CONFIGS, **TRG_CONFIGS, **CDS_CONFIGS, **BROKER_CONFIGS}


# =====================================================================================
# driver
# =====================================================================================
def _alphabet(cfg: dict, model_cls: type) -> Callable[[list], list]:
    ops = cfg["ops"]
    free = cfg.get("free", ())

    def f(hist: list) -> list:
        m = model_cls(cfg)
        m.reset()
        for op in hist:
            m.apply(op)
        return [op for op in ops if op[0] in free or m.enabled(op)]

    return f


def _watchdog(signum: int, frame: Any) -> None:
    raise TimeoutError("C16 unit exceeded its wall-clock guard (a backend call blocked)")


def _unit(item: tuple) -> Partial:
    name, seed, first, depth, backends = item
    cfg = CONFIGS[name]
    impl_cls, model_cls = KINDS[cfg["comp"]]
    p = Partial()
    impls = [impl_cls(b, cfg) for b in backends]
    model = model_cls(cfg)
    if len(impls) == 1:
        impls[0].peer = model
    init = list(cfg["seeds"][seed]) + ([first] if first is not None else [])
    signal.signal(signal.SIGALRM, _watchdog)
    signal.alarm(7200)
    try:
        st = bfs.explore(p, impls, model, _alphabet(cfg, model_cls), depth, tag=name, init_history=init)
    finally:
        signal.alarm(0)
        env.CLOCK.frozen = False
    p.count("bfs_states", st["states"])
    p.count(f"states[{name}]", st["states"])
    p.count(f"transitions[{name}]", st["transitions"])
    p.max(f"depth[{name}]", st["depth"] + len(init))
    p.max("depth_completed", st["depth"] + len(init))
    p.count("traces_validated_against_impl", st["transitions"] * len(backends))
    if st["transitions"] and first is None:
        p.sample({"config": name, "seed": seed, "implementations": list(backends), "depth": st["depth"],
                  "states": st["states"], "transitions": st["transitions"]})
    return p


def _items(ctx: Ctx) -> list[tuple]:
    items = []
    only = getattr(ctx, "only", None)
    for name, cfg in CONFIGS.items():
        if only and only not in name:
            continue
        depth = cfg["depth"][1 if ctx.thorough else 0]
        impl_cls, model_cls = KINDS[cfg["comp"]]
        alpha = _alphabet(cfg, model_cls)
        for seed, hist in cfg["seeds"].items():
            if name.startswith("probe/"):
                # a probe stops at the first disagreement: one search per implementation, never split
                for b in env.BACKENDS:
                    items.append((name, seed, None, depth, (b,)))
                continue
            items.append((name, seed, None, 1, env.BACKENDS))  # validates every first operation from the seeded state
            if depth > 1:
                for first in alpha(list(hist)):
                    items.append((name, seed, first, depth - 1, env.BACKENDS))
    return items


def run(ctx: Ctx) -> None:
    from vf.props import c16_keys

    only = getattr(ctx, "only", None)
    if not only or "key-lookups" in only:
        c16_keys.run_part(ctx)
        if only:
            ctx.rule = "key-lookup part only (see vf/props/c16_keys.py)"
            return
    items = _items(ctx)
    # longest units first (deterministic), rotated by the seed: the explored set never depends on it
    rot = ctx.seed % max(1, len(items))
    for part in par.pmap(_unit, items[rot:] + items[:rot]):
        ctx.merge(part)
    ctx.samples = ctx.samples[:8]
    tier = 1 if ctx.thorough else 0
    ctx.rule = ("per configuration (component x theme): explicit-state BFS (vf.bfs.explore) over the theme's mutating operations on "
                "the in-memory implementation, the SQLite implementation and a reference model; after every operation the result / "
                "exception class and the full read-out (every public query of the component over the small universes) are compared; "
                "states merged on the pair of concrete dumps; depth from the seeded histories: "
                + ", ".join(f"{n}={c['depth'][tier]}" for n, c in CONFIGS.items() if not n.startswith("probe/"))
                + "; probe/* configurations: one search per implementation against the model around each suspected divergence"
                + "; key-lookup part (c16_keys): look-ups with 1-2 key pairs over four overlapping calls of a two-argument task as "
                "operations of the history (a look-up must not change what a later look-up returns), all sequences to depth "
                + ("5" if ctx.thorough else "4"))
    for a in ASSUMPTIONS:
        ctx.assume(a)


ASSUMPTIONS = [
    "only the exhaustive part of the quantifier is built: no seeded random sequences of a few hundred operations",
    "the alphabet is partitioned into themes per component (lifecycle, rare statuses, wait graph, runners/recovery, auto-purge; "
    "invocations/results, history/contexts, workflows, purge; definitions, valid conditions, cron, claims); cross-theme sequences are "
    "only explored to depth 2-3 (the all-pairs configurations)",
    "orders are compared only where the base class promises one (pagination newest first, history by time, active runners by creation "
    "time); everything else as sorted tuples (multisets); get_blocking_invocations(n) with n below the number of candidates must "
    "return n distinct candidates (which ones is only checked by probe/orch/blocking-oldest-first)",
    "main-model choices where the text is silent or both implementations contradict it (each contradicted text has its probe): "
    "pagination is ordered by the time of the last status change; a heartbeat of a known runner also rewrites its atomic-service "
    "eligibility; key-argument look-ups only see invocations whose arguments were indexed",
    "operations outside the documented contract are not in the main alphabets: registering an id that is already registered (probe), "
    "retry increments / argument indexing / auto-purge set-up / wait edges on ids the orchestrator does not know, an explicit second "
    "auto-purge set-up (probe), release_waiters on a non-final invocation, an atomic-service window of a runner without heartbeat (probe), "
    "auto_purge with two or more purgeable invocations (probe: SQLite raises), store_last_cron_execution for an unregistered "
    "condition (probe), registering one trigger definition twice without the documented clean-up (probe), filter_by_status over ids "
    "that are not registered (probe), re-registering an auto-purged id that still is a waiter in the wait graph (probe), purge of the state backend after workflow data / runner contexts were stored (probes + sb/purge-rest)",
    "timed configurations: frozen dyadic clock (unit 2^-6 s, all three limits 0.9375 s, one time line per implementation, every "
    "operation takes one unit) so that both sides of 'age >= limit' / 'age > timeout' are states of the search; untimed configurations: "
    "the clock ticks 1 us per read, limits are the defaults",
    "stamps are distinct (the SQLite history key is (invocation, timestamp, status)); batched heartbeats of several new runners "
    "(equal creation time) are not in the alphabet",
    "the trigger loop (trigger_loop_iteration) and task execution are not driven here (C12/C13); the model evaluates cron schedules "
    "with pynenc's own CronCondition arithmetic (shared, not a backend)",
]


def replay(payload: dict) -> bool:
    r = payload["replay"]
    if r.get("config") == "orch/key-lookups":
        from vf.props import c16_keys

        return c16_keys.replay_part(payload)
    cfg = CONFIGS[r["config"]]
    impl_cls, model_cls = KINDS[cfg["comp"]]
    impls = [impl_cls(b, cfg) for b in env.BACKENDS]
    model = model_cls(cfg)
    bad = False
    try:
        for s in impls + [model]:
            s.reset()
        for op in r["history"]:
            op = _detuple(op)
            res = [s.apply(op) for s in impls + [model]]
            outs = [s.readout() for s in impls + [model]]
            if any(x != res[-1] for x in res) or any(o != outs[-1] for o in outs):
                bad = True
    finally:
        env.CLOCK.frozen = False
    return bad


def _detuple(x: Any) -> Any:
    if isinstance(x, list):
        return tuple(_detuple(y) for y in x)
    return x
