"""C15 — arguments and results round-trip unchanged; call identity is canonical; externalised
values are content-addressed.

E3 (exhaustive enumeration of explicit finite domains, no sampling) in three parts:

(a) VALUES.  Every value of a recursively generated domain (atoms per serializer, lists and
    str-keyed dicts to depth 2 / width 2) x serializer {Json, JsonPickle, Pickle}
    x min_size_to_cache {1, L-1, L, L+1, 1024} (L = length of the value's serialized form)
    x disable_client_data_store x task option disable_cache_args {(), ("x",), ("*",)}
    x store {mem, sqlite}.  The value travels  task(x=value) -> orchestrator.route_call ->
    state backend -> get_invocation(id).arguments.kwargs on the worker side (cold LRU, and for
    SQLite another app object), and  set_result / get_result  (+ set_exception / get_exception
    for exception values).  Oracle: type-aware, NaN-aware deep equality with the original;
    inline/external decision exactly as documented (external <=> enabled and L >= min_size);
    reference <-> content is a bijection; everything is read a second time after all writes.
(b) STORE HISTORIES.  All sequences up to depth 4 over {serialize(v), resolve(ref of v),
    mutate the object returned by resolve, mutate the caller's original, purge, cold cache /
    new app object} for 2-3 values, against a content-addressed model: a reference resolves to
    a deep copy of what it was created from (KeyError after purge), equal content <=> equal key.
(c) IDENTITY.  All spellings of f(a, b=1, *, c=2), g(x), h() (positional / keyword / defaults
    omitted / keyword order / parallelize tuple, dict, Arguments, common_args) => one call id
    per bound assignment and distinct ids for distinct assignments; all pairs of serialized
    argument dicts over adversarial keys and values, every insertion order: the bytes fed to
    SHA-256 (recorded by a wrapper bound to `pynenc.call.hashlib` from outside) are equal
    <=> the dicts are equal, and the ids are equal <=> the pre-images are equal.
"""

from __future__ import annotations

import copy
import itertools
import math
from enum import Enum
from typing import Any

from vf import env, par, tasks_c15 as T
from vf.report import Ctx, Partial

# Documented in docs/reference/serializers.md ("Reserved Keys"): prefix of data-store references.
PREFIX = "__pynenc__client_data__"
SERIALIZERS = ("JsonSerializer", "JsonPickleSerializer", "PickleSerializer")
DCA_TASKS = (("()", "rt0", ()), ("(x)", "rtx", ("x",)), ("(*)", "rtstar", ("*",)))


# ---------------------------------------------------------------------------
# oracle: type-aware, NaN-aware deep equality + canonical text
# ---------------------------------------------------------------------------
def deq(a: Any, b: Any) -> bool:
    if type(a) is not type(b):
        return False
    if isinstance(a, Enum):
        return a is b
    if isinstance(a, float):
        if math.isnan(a) or math.isnan(b):
            return math.isnan(a) and math.isnan(b)
        return a == b and math.copysign(1.0, a) == math.copysign(1.0, b)
    if isinstance(a, (list, tuple)):
        return len(a) == len(b) and all(deq(x, y) for x, y in zip(a, b))
    if isinstance(a, dict):
        if len(a) != len(b):
            return False
        kb = {(type(k), k): k for k in b}
        for k, v in a.items():
            k2 = kb.get((type(k), k), _MISSING)
            if k2 is _MISSING or not deq(v, b[k2]):
                return False
        return True
    if isinstance(a, (set, frozenset)):
        return {(type(x), x) for x in a} == {(type(x), x) for x in b}
    if isinstance(a, BaseException):
        return deq(a.args, b.args)
    if hasattr(a, "__dict__") and not isinstance(a, type):
        return deq(vars(a), vars(b))
    return a == b


_MISSING = object()


def crep(v: Any) -> str:
    """Canonical, type-aware text of a value (samples, details, state dumps)."""
    if isinstance(v, Enum):
        return f"{type(v).__name__}.{v.name}"
    if isinstance(v, float):
        return "float:" + repr(v)
    if isinstance(v, str):
        return ascii(v)
    if isinstance(v, list):
        return "[" + ", ".join(crep(x) for x in v) + "]"
    if isinstance(v, tuple):
        return type(v).__name__ + "(" + ", ".join(crep(x) for x in v) + ")"
    if isinstance(v, dict):
        return "{" + ", ".join(f"{crep(k)}: {crep(x)}" for k, x in v.items()) + "}"
    if isinstance(v, (set, frozenset)):
        return type(v).__name__ + "{" + ", ".join(sorted(crep(x) for x in v)) + "}"
    if isinstance(v, BaseException):
        return f"{type(v).__name__}{crep(v.args)}"
    if hasattr(v, "__dict__") and not isinstance(v, type):
        return f"{type(v).__name__}{crep(vars(v))}"
    return f"{type(v).__name__}:{v!r}"


def vclass(v: Any) -> str:
    """Coarse class of a value: the stable part of a violation signature."""
    if isinstance(v, str) and type(v) is str and v.startswith(PREFIX):
        return "str-with-reference-prefix"
    if isinstance(v, float):
        return "float-nan" if math.isnan(v) else ("float-inf" if math.isinf(v) else "float")
    if isinstance(v, (list, dict)):
        return f"{type(v).__name__}-depth{_depth(v)}"
    if isinstance(v, BaseException):
        return "exception"
    return type(v).__name__


def _depth(v: Any) -> int:
    if isinstance(v, (list, tuple)):
        return 1 + max((_depth(x) for x in v), default=0)
    if isinstance(v, dict):
        return 1 + max((_depth(x) for x in v.values()), default=0)
    return 0


# ---------------------------------------------------------------------------
# (a) value domains
# ---------------------------------------------------------------------------
HEX64 = "0123456789abcdef" * 4


def atoms_json() -> list:
    """Atoms in the documented domain of JsonSerializer (docs/reference/serializers.md):
    JSON-native scalars, Enum/IntEnum/StrEnum, builtin and custom exceptions, JsonSerializable."""
    return [
        None, True, False, 0, 1, -1, 2**63, -(2**63) - 1, 10**30,
        0.5, 1.0, -0.0, 1e-320, 1.7976931348623157e308, float("inf"), float("-inf"), float("nan"),
        "", "a", "1", "é", " ", "\udc80", "\x00", "=", ";", '"', "\\", "\\u00e9", "null",
        PREFIX, PREFIX + ":" + HEX64, PREFIX + "x", " " + PREFIX,
        T.Color.RED, T.Color.NONE, T.Color.ZERO, T.Color.TXT, T.Prio.LOW, T.Prio.HIGH, T.Mode.ON, T.Mode.EMPTY,
        ValueError("x"), ValueError(), KeyError("k", 1), T.UserError("u", 2), T.UserError(),
        T.Money(5, "EUR"), T.Money(0.5, "é"), T.Falsy(),
    ]


def atoms_extra_jsonpickle() -> list:
    """Python types that jsonpickle claims and plain JSON does not (non-string dict keys need
    jsonpickle's keys=True, which pynenc does not set: outside the domain)."""
    return [(), (1, "a"), (1, (2,)), {1, 2}, frozenset({"a"}), b"", b"\x00\xff", 1 + 2j,
            T.Point(1, "p"), T.Point(0, None), T.Pair(1, "r")]


def atoms_extra_pickle() -> list:
    return atoms_extra_jsonpickle() + [{1: "a"}, {(1, 2): None, None: 0}, {True: 1, "1": 2}]


SMALL_IDX = {"JsonSerializer": None}  # filled lazily


def atoms_small() -> list:
    """Atoms that also appear inside the depth-2 layer (one of each shape that is encoded differently)."""
    return [None, 1, float("nan"), "é", PREFIX + "x", T.Color.RED, T.Prio.HIGH, ValueError("x"), T.Money(5, "EUR")]


KEYS = ("k", "é")


def _containers(elems: list, keys: tuple = KEYS) -> list:
    """All lists of length 0..2 and all str-keyed dicts of size 0..2 over `elems`."""
    out: list = [[]]
    out += [[a] for a in elems]
    out += [[a, b] for a in elems for b in elems]
    out.append({})
    out += [{k: a} for k in keys for a in elems]
    out += [{keys[0]: a, keys[1]: b} for a in elems for b in elems]
    return out


def domain(serializer: str, level: int) -> list:
    """level 0: atoms; 1: + depth-1 containers over all atoms; 2: + depth-2 containers whose
    elements are small atoms or depth-1 containers over the 4 smallest atoms."""
    atoms = atoms_json()
    if serializer == "JsonPickleSerializer":
        atoms += atoms_extra_jsonpickle()
    elif serializer == "PickleSerializer":
        atoms += atoms_extra_pickle()
    vals = list(atoms)
    if level >= 1:
        vals += _containers(atoms)
    if level >= 2:
        small = atoms_small()
        if serializer != "JsonSerializer":
            small = small + [(1, "a")]
        tiny = small[:4]
        inner = _containers(tiny)
        vals += [c for c in _containers(small + inner) if _depth(c) == 2]
    return vals
