"""C15 — arguments and results round-trip unchanged; call identity is canonical; externalised
values are content-addressed.

E3 (exhaustive enumeration of explicit finite domains, no sampling) in three parts:

(a) VALUES.  Every value of a recursively generated domain (atoms per serializer, lists and
    str-keyed dicts to depth 2 / width 2) x serializer {Json, JsonPickle, Pickle}
    x min_size_to_cache {1, L-1, L, L+1, 1024} (L = length of the value's serialized form)
    x disable_client_data_store x task option disable_cache_args {(), ("x",), ("*",)}
    x store {mem, sqlite}.  The value travels  task(x=value) -> orchestrator.route_call ->
    state backend -> get_invocation(id).arguments.kwargs on the worker side (cold LRU, and for
    SQLite another app object), and  set_result / get_result  (+ set_exception / get_exception
    for exception values).  Oracle: type-aware, NaN-aware deep equality with the original;
    inline/external decision exactly as documented (external <=> enabled and L >= min_size);
    reference <-> content is a bijection; everything is read a second time after all writes.
(b) STORE HISTORIES.  All sequences up to depth 4 over {serialize(v), resolve(ref of v),
    mutate the object returned by resolve, mutate the caller's original, purge, cold cache /
    new app object} for 2-3 values, against a content-addressed model: a reference resolves to
    a deep copy of what it was created from (KeyError after purge), equal content <=> equal key.
(c) IDENTITY.  All spellings of f(a, b=1, *, c=2), g(x), h() (positional / keyword / defaults
    omitted / keyword order / parallelize tuple, dict, Arguments, common_args) => one call id
    per bound assignment and distinct ids for distinct assignments; all pairs of serialized
    argument dicts over adversarial keys and values, every insertion order: the bytes fed to
    SHA-256 (recorded by a wrapper bound to `pynenc.call.hashlib` from outside) are equal
    <=> the dicts are equal, and the ids are equal <=> the pre-images are equal.
"""

from __future__ import annotations

import copy
import itertools
import math
from enum import Enum
from typing import Any

from vf import env, par, tasks_c15 as T
from vf.report import Ctx, Partial

# Documented in docs/reference/serializers.md ("Reserved Keys"): prefix of data-store references.
PREFIX = "__pynenc__client_data__"
SERIALIZERS = ("JsonSerializer", "JsonPickleSerializer", "PickleSerializer")
DCA_TASKS = (("()", "rt0", ()), ("(x)", "rtx", ("x",)), ("(*)", "rtstar", ("*",)))


# ---------------------------------------------------------------------------
# oracle: type-aware, NaN-aware deep equality + canonical text
# ---------------------------------------------------------------------------
def deq(a: Any, b: Any) -> bool:
    if type(a) is not type(b):
        return False
    if isinstance(a, Enum):
        return a is b
    if isinstance(a, float):
        if math.isnan(a) or math.isnan(b):
            return math.isnan(a) and math.isnan(b)
        return a == b and math.copysign(1.0, a) == math.copysign(1.0, b)
    if isinstance(a, (list, tuple)):
        return len(a) == len(b) and all(deq(x, y) for x, y in zip(a, b))
    if isinstance(a, dict):
        if len(a) != len(b):
            return False
        kb = {(type(k), k): k for k in b}
        for k, v in a.items():
            k2 = kb.get((type(k), k), _MISSING)
            if k2 is _MISSING or not deq(v, b[k2]):
                return False
        return True
    if isinstance(a, (set, frozenset)):
        return {(type(x), x) for x in a} == {(type(x), x) for x in b}
    if isinstance(a, BaseException):
        return deq(a.args, b.args)
    if hasattr(a, "__dict__") and not isinstance(a, type):
        return deq(vars(a), vars(b))
    return a == b


_MISSING = object()


def crep(v: Any) -> str:
    """Canonical, type-aware text of a value (samples, details, state dumps)."""
    if isinstance(v, Enum):
        return f"{type(v).__name__}.{v.name}"
    if isinstance(v, float):
        return "float:" + repr(v)
    if isinstance(v, str):
        return ascii(v)
    if isinstance(v, list):
        return "[" + ", ".join(crep(x) for x in v) + "]"
    if isinstance(v, tuple):
        return type(v).__name__ + "(" + ", ".join(crep(x) for x in v) + ")"
    if isinstance(v, dict):
        return "{" + ", ".join(f"{crep(k)}: {crep(x)}" for k, x in v.items()) + "}"
    if isinstance(v, (set, frozenset)):
        return type(v).__name__ + "{" + ", ".join(sorted(crep(x) for x in v)) + "}"
    if isinstance(v, BaseException):
        return f"{type(v).__name__}{crep(v.args)}"
    if hasattr(v, "__dict__") and not isinstance(v, type):
        return f"{type(v).__name__}{crep(vars(v))}"
    return f"{type(v).__name__}:{v!r}"


def vclass(v: Any) -> str:
    """Coarse class of a value: the stable part of a violation signature."""
    if isinstance(v, str) and type(v) is str and v.startswith(PREFIX):
        return "str-with-reference-prefix"
    if isinstance(v, float):
        return "float-nan" if math.isnan(v) else ("float-inf" if math.isinf(v) else "float")
    if isinstance(v, (list, dict)):
        return f"{type(v).__name__}-depth{_depth(v)}"
    if isinstance(v, BaseException):
        return "exception"
    return type(v).__name__


def _depth(v: Any) -> int:
    if isinstance(v, (list, tuple)):
        return 1 + max((_depth(x) for x in v), default=0)
    if isinstance(v, dict):
        return 1 + max((_depth(x) for x in v.values()), default=0)
    return 0


# ---------------------------------------------------------------------------
# (a) value domains
# ---------------------------------------------------------------------------
HEX64 = "0123456789abcdef" * 4


def atoms_json() -> list:
    """Atoms in the documented domain of JsonSerializer (docs/reference/serializers.md):
    JSON-native scalars, Enum/IntEnum/StrEnum, builtin and custom exceptions, JsonSerializable."""
    return [
        None, True, False, 0, 1, -1, 2**63, -(2**63) - 1, 10**30,
        0.5, 1.0, -0.0, 1e-320, 1.7976931348623157e308, float("inf"), float("-inf"), float("nan"),
        "", "a", "1", "é", " ", "\udc80", "\x00", "=", ";", '"', "\\", "\\u00e9", "null",
        PREFIX, PREFIX + ":" + HEX64, PREFIX + "x", " " + PREFIX,
        T.Color.RED, T.Color.NONE, T.Color.ZERO, T.Color.TXT, T.Prio.LOW, T.Prio.HIGH, T.Mode.ON, T.Mode.EMPTY,
        ValueError("x"), ValueError(), KeyError("k", 1), T.UserError("u", 2), T.UserError(),
        T.Money(5, "EUR"), T.Money(0.5, "é"), T.Falsy(),
    ]


def atoms_extra_jsonpickle() -> list:
    """Python types that jsonpickle claims and plain JSON does not (non-string dict keys need
    jsonpickle's keys=True, which pynenc does not set: outside the domain)."""
    return [(), (1, "a"), (1, (2,)), {1, 2}, frozenset({"a"}), b"", b"\x00\xff", 1 + 2j,
            T.Point(1, "p"), T.Point(0, None), T.Pair(1, "r")]


def atoms_extra_pickle() -> list:
    return atoms_extra_jsonpickle() + [{1: "a"}, {(1, 2): None, None: 0}, {True: 1, "1": 2}]




def atoms_small() -> list:
    """Atoms that also appear inside the depth-2 layer (one of each shape that is encoded differently)."""
    return [None, 1, float("nan"), "é", PREFIX + "x", T.Color.RED, T.Prio.HIGH, ValueError("x"), T.Money(5, "EUR")]


KEYS = ("k", "é")


def _containers(elems: list, keys: tuple = KEYS) -> list:
    """All lists of length 0..2 and all str-keyed dicts of size 0..2 over `elems`."""
    out: list = [[]]
    out += [[a] for a in elems]
    out += [[a, b] for a in elems for b in elems]
    out.append({})
    out += [{k: a} for k in keys for a in elems]
    out += [{keys[0]: a, keys[1]: b} for a in elems for b in elems]
    return out


def domain(serializer: str, level: int) -> list:
    """level 0: atoms; 1: + depth-1 containers over all atoms; 2: + depth-2 containers whose
    elements are small atoms or depth-1 containers over the 4 smallest atoms."""
    atoms = atoms_json()
    if serializer == "JsonPickleSerializer":
        atoms += atoms_extra_jsonpickle()
    elif serializer == "PickleSerializer":
        atoms += atoms_extra_pickle()
    vals = list(atoms)
    if level >= 1:
        vals += _containers(atoms)
    if level >= 2:
        small = atoms_small()
        if serializer != "JsonSerializer":
            small = small + [(1, "a")]
        tiny = small[:4]
        inner = _containers(tiny)
        vals += [c for c in _containers(small + inner) if _depth(c) == 2]
    return vals


_DOMAINS: dict = {}


def values_for(serializer: str, level: str) -> list:
    """Named, deterministic value lists (regenerated identically in every process / replay).
    'atoms' | 'l1' | 'l2' as in domain(); 'lite' = atoms + containers over the small atoms +
    singleton containers over every atom (used where one case costs milliseconds)."""
    key = (serializer, level)
    if key not in _DOMAINS:
        if level == "atoms":
            v = domain(serializer, 0)
        elif level == "l1":
            v = domain(serializer, 1)
        elif level == "l2":
            v = domain(serializer, 2)
        elif level == "lite":
            atoms = domain(serializer, 0)
            v = atoms + _containers(atoms_small()) + [[a] for a in atoms] + [{"k": a} for a in atoms]
        else:
            raise ValueError(level)
        _DOMAINS[key] = v
    return _DOMAINS[key]


# ---------------------------------------------------------------------------
# (a) worlds and cases
# ---------------------------------------------------------------------------
class RTWorld:
    """Client app + worker-side app for one (serializer, store, data-store switch)."""

    def __init__(self, serializer: str, backend: str, cds_off: bool, thr: int | None = None) -> None:
        env.reset_world()
        conf: dict = dict(serializer_cls=serializer, disable_client_data_store=cds_off)
        if thr is not None:
            conf["min_size_to_cache"] = thr
        self.backend = backend
        self.conf = conf
        if backend == env.MEM:
            # the in-memory store lives in the app object: the worker side is the same app object
            # with an emptied LRU of deserialised objects
            self.app = env.make_app(env.MEM, app_id="c15", **conf)
            self.wapp = self.app
        else:
            self.db = env.reuse_db("c15")
            self.app = env.make_app(env.SQLITE, app_id="c15", db=self.db, **conf)
            self.wapp = env.make_app(env.SQLITE, app_id="c15", db=self.db, **conf)
        self.tasks = {}
        for dname, fn, dca in DCA_TASKS:
            self.tasks[dname] = self.app.task(getattr(T, fn), disable_cache_args=dca)
            if self.wapp is not self.app:
                self.wapp.task(getattr(T, fn), disable_cache_args=dca)

    def set_threshold(self, thr: int) -> None:
        self.app.client_data_store.conf.min_size_to_cache = thr
        if self.wapp is not self.app:
            self.wapp.client_data_store.conf.min_size_to_cache = thr

    def worker(self, fresh: bool):
        """The reading side: cold LRU; with `fresh` (SQLite) a brand-new app object."""
        if fresh and self.backend == env.SQLITE:
            w = env.make_app(env.SQLITE, app_id="c15", db=self.db, **self.conf)
            for _, fn, dca in DCA_TASKS:
                w.task(getattr(T, fn), disable_cache_args=dca)
            return w
        self.wapp.client_data_store._deserialized_cache.clear()
        return self.wapp

    def client_cold(self):
        self.app.client_data_store._deserialized_cache.clear()
        return self.app


def thresholds(L: int) -> list[int]:
    return sorted({1, L - 1, L, L + 1, 1024})


def _viol(p: Partial, clause: str, value: Any, cfg: dict, detail: dict, rp: dict, **sig: Any) -> None:
    p.violation({"clause": clause, "value": vclass(value), **sig},
                {**cfg, "value": crep(value)[:300], **detail}, rp)


def run_case(p: Partial, w: RTWorld, value: Any, thr: int, cfg: dict, rp: dict, fresh: bool,
             refs: dict, later: list) -> None:
    """One value under one (serializer, store, switch, threshold): three argument round trips
    (one per disable_cache_args option) and one result round trip."""
    app = w.app
    s0 = app.serializer.serialize(value)
    L = len(s0)
    content = crep(value)
    last_inv = None
    for dname, _fn, dca in DCA_TASKS:
        c = {**cfg, "thr": thr, "L": L, "disable_cache_args": dname}
        p.count("states")
        p.count("value_cases")
        try:
            inv = w.tasks[dname](x=value)
            p.count("transitions")
            sa = inv.call.serialized_arguments
            got = w.worker(fresh).state_backend.get_invocation(inv.invocation_id).arguments.kwargs
            p.count("transitions")
        except Exception as e:  # noqa: BLE001 - any failure of the trip is the observation
            _viol(p, "argument-roundtrip-raises", value, c, {"error": f"{type(e).__name__}: {e}"[:300]}, rp,
                  error=type(e).__name__)
            continue
        last_inv = inv
        p.count("traces_validated_against_impl")
        if set(got) != {"x"} or not deq(value, got["x"]):
            _viol(p, "argument-not-restored", value, c, {"got": crep(got)[:300], "stored": repr(sa)[:200]}, rp)
            continue
        later.append((inv.invocation_id, value, c, "arg"))
        sx = sa.get("x", "")
        ext = sx.startswith(PREFIX)
        ext_expected = (not cfg["cds_off"]) and not dca and L >= thr
        if ext != ext_expected:
            _viol(p, "externalisation-differs-from-documented-threshold", value, c,
                  {"externalised": ext, "expected": ext_expected, "stored": sx[:120]}, rp, path="argument")
            continue
        p.count("externalised" if ext else "inline")
        if ext:
            _bijection(p, refs, sx, content, value, c, rp)
            if not p.samples and L > 8:
                p.sample({**c, "value": content[:120], "stored_argument": sx, "worker_read_back": crep(got["x"])[:120]})
    if last_inv is None:
        return
    # ---- result (written by the worker side, read by the client side)
    c = {**cfg, "thr": thr, "L": L}
    iid = last_inv.invocation_id
    p.count("states")
    p.count("value_cases")
    try:
        w.wapp.state_backend.set_result(iid, value)
        raw = w.wapp.state_backend._get_result(iid)
        got = w.client_cold().state_backend.get_result(iid)
        p.count("transitions", 2)
    except Exception as e:  # noqa: BLE001
        _viol(p, "result-roundtrip-raises", value, c, {"error": f"{type(e).__name__}: {e}"[:300]}, rp,
              error=type(e).__name__)
        return
    p.count("traces_validated_against_impl")
    if not deq(value, got):
        _viol(p, "result-not-restored", value, c, {"got": crep(got)[:300], "stored": repr(raw)[:200]}, rp)
        return
    later.append((iid, value, c, "res"))
    ext = raw.startswith(PREFIX)
    ext_expected = (not cfg["cds_off"]) and L >= thr
    if ext != ext_expected:
        _viol(p, "externalisation-differs-from-documented-threshold", value, c,
              {"externalised": ext, "expected": ext_expected, "stored": raw[:120]}, rp, path="result")
        return
    if ext:
        _bijection(p, refs, raw, content, value, c, rp)
    if isinstance(value, Exception):
        try:
            w.wapp.state_backend.set_exception(iid, value)
            got = w.client_cold().state_backend.get_exception(iid)
            p.count("transitions", 2)
        except Exception as e:  # noqa: BLE001
            _viol(p, "exception-roundtrip-raises", value, c, {"error": f"{type(e).__name__}: {e}"[:300]}, rp,
                  error=type(e).__name__)
            return
        p.count("traces_validated_against_impl")
        if not deq(value, got):
            _viol(p, "exception-not-restored", value, c, {"got": crep(got)[:300]}, rp)


def _bijection(p: Partial, refs: dict, ref: str, content: str, value: Any, c: dict, rp: dict) -> None:
    """Content addressing over everything this world has externalised so far."""
    r2c, c2r = refs.setdefault("r2c", {}), refs.setdefault("c2r", {})
    if r2c.setdefault(ref, content) != content:
        _viol(p, "one-reference-for-two-contents", value, c, {"reference": ref, "other": r2c[ref][:200]}, rp)
    if c2r.setdefault(content, ref) != ref:
        _viol(p, "two-references-for-equal-content", value, c, {"reference": ref, "other": c2r[content]}, rp)
    p.count("reference_checks")


def reread(p: Partial, w: RTWorld, later: list, rp_of, fresh: bool) -> None:
    """Second reading after every write of the world has happened (a later write must not change
    what an earlier reference resolves to)."""
    for iid, value, c, kind in later:
        try:
            if kind == "arg":
                got = w.worker(fresh).state_backend.get_invocation(iid).arguments.kwargs.get("x", _MISSING)
            else:
                got = w.client_cold().state_backend.get_result(iid)
            p.count("transitions")
        except Exception as e:  # noqa: BLE001
            _viol(p, "second-read-raises", value, c, {"error": f"{type(e).__name__}: {e}"[:300], "path": kind},
                  rp_of(value, c), error=type(e).__name__)
            continue
        p.count("traces_validated_against_impl")
        if got is _MISSING or not deq(value, got):
            _viol(p, "second-read-differs", value, c, {"got": crep(got)[:300], "path": kind}, rp_of(value, c))


def _values_unit(item: tuple) -> Partial:
    serializer, backend, cds_off, level, lo, hi, fresh = item
    p = Partial()
    vals = values_for(serializer, level)
    cfg = {"serializer": serializer, "store": backend, "cds_off": cds_off}

    def rp(idx: int, thr: int) -> dict:
        return {"kind": "value", "serializer": serializer, "store": backend, "cds_off": cds_off,
                "level": level, "index": idx, "thr": thr, "fresh": fresh}

    if not fresh:
        w = RTWorld(serializer, backend, cds_off)
        refs: dict = {}
        later: list = []
        for idx in range(lo, min(hi, len(vals))):
            v = vals[idx]
            L = len(w.app.serializer.serialize(v))
            for thr in thresholds(L):
                w.set_threshold(thr)
                run_case(p, w, v, thr, {**cfg, "index": idx}, rp(idx, thr), False, refs, later)
        reread(p, w, later, lambda v, c: rp(c["index"], c["thr"]), False)
    else:
        # configuration through config_values (the public path), new app objects for every case,
        # and a brand-new app object for every worker-side read on SQLite
        measure = RTWorld(serializer, backend, cds_off).app.serializer  # only to learn L
        for idx in range(lo, min(hi, len(vals))):
            v = vals[idx]
            L = len(measure.serialize(v))
            for thr in thresholds(L):
                w = RTWorld(serializer, backend, cds_off, thr)
                later = []
                run_case(p, w, v, thr, {**cfg, "index": idx, "fresh_apps": True}, rp(idx, thr), True, {}, later)
                reread(p, w, later, lambda v, c: rp(c["index"], c["thr"]), True)
                p.count("fresh_app_cases")
    return p


# ---------------------------------------------------------------------------
# (b) store histories
# ---------------------------------------------------------------------------
def _store_values(n: int) -> list:
    # v0 and v1: equal content, distinct objects; v2: different content of the same serialized length
    return [[1, 2], [1, 2], [3, 4]][:n]


class StoreWorld:
    """Real data store + content-addressed model, driven by one operation history."""

    def __init__(self, serializer: str, backend: str, n: int) -> None:
        self.serializer, self.backend, self.n = serializer, backend, n

    def _new_app(self):
        conf = dict(serializer_cls=self.serializer, min_size_to_cache=1)
        if self.backend == env.MEM:
            return env.make_app(env.MEM, app_id="c15s", **conf)
        return env.make_app(env.SQLITE, app_id="c15s", db=self.db, **conf)

    def reset(self) -> None:
        env.reset_world()
        if self.backend == env.SQLITE:
            self.db = env.reuse_db("c15s")
        self.cds = self._new_app().client_data_store
        # SQLite: a second process on the same database (purges behind the first one's back; reads with a cold cache)
        self.other = self._new_app().client_data_store if self.backend == env.SQLITE else None
        self.stale: dict = {}  # references purged by the other process: may still be served from the first one's cache
        self.vals = _store_values(self.n)
        self.model: dict = {}  # reference -> deep copy of the content it was created from
        self.issued: list = []  # (reference, snapshot) in order of creation
        self.last_ref: list = [None] * self.n
        self.returned: list = [None] * self.n
        self.mutated_returned: list = []

    def enabled(self) -> list[tuple]:
        ops: list[tuple] = []
        for i in range(self.n):
            ops.append(("ser", i))
            if self.last_ref[i] is not None:
                ops.append(("res", i))
            if self.returned[i] is not None:
                ops.append(("mret", i))
            ops.append(("morig", i))
        ops += [("purge",), ("cold",)]
        if self.backend == env.SQLITE:
            ops.append(("opurge",))
        return ops

    def _alias(self, obj: Any) -> str:
        if any(obj is v for v in self.vals):
            return "callers-live-object"
        if any(obj is r for r in self.mutated_returned):
            return "object-returned-earlier"
        return "none"

    def _check_resolve(self, ref: str, cds: Any = None) -> tuple | None:
        try:
            obj = (cds or self.cds).resolve(ref)
        except KeyError:
            if ref in self.model:
                return ({"clause": "store:live-reference-does-not-resolve"}, {"reference": ref}), None
            return None, None
        except Exception as e:  # noqa: BLE001
            return ({"clause": "store:resolve-raises", "error": type(e).__name__}, {"error": str(e)[:200]}), None
        if ref not in self.model and ref in self.stale and cds is None:
            # purged by the other process; this one may still hold the object in its cache: the content must be right
            if not deq(obj, self.stale[ref]):
                return ({"clause": "store:reference-resolves-to-changed-content", "alias": self._alias(obj)},
                        {"got": crep(obj), "created_from": crep(self.stale[ref])}), obj
            return None, obj
        if ref not in self.model:
            return ({"clause": "store:purged-reference-still-resolves"}, {"got": crep(obj)}), obj
        if not deq(obj, self.model[ref]):
            return ({"clause": "store:reference-resolves-to-changed-content", "alias": self._alias(obj)},
                    {"got": crep(obj), "created_from": crep(self.model[ref])}), obj
        return None, obj

    def apply(self, op: tuple) -> tuple | None:
        """Execute one operation; returns (signature, detail) on a violation."""
        kind = op[0]
        if kind == "ser":
            i = op[1]
            snap = copy.deepcopy(self.vals[i])
            ref = self.cds.serialize(self.vals[i])
            if not ref.startswith(PREFIX):
                return {"clause": "store:not-externalised-at-min-size-1"}, {"got": ref[:80]}
            for ref2, snap2 in self.issued:
                if deq(snap, snap2) != (ref == ref2):
                    clause = "store:two-references-for-equal-content" if deq(snap, snap2) else "store:one-reference-for-two-contents"
                    return {"clause": clause}, {"a": crep(snap), "b": crep(snap2), "ref_a": ref, "ref_b": ref2}
            self.issued.append((ref, snap))
            self.model[ref] = snap
            self.stale.pop(ref, None)
            self.last_ref[i] = ref
            return None
        if kind == "res":
            i = op[1]
            bad, obj = self._check_resolve(self.last_ref[i])
            self.returned[i] = obj
            return bad
        if kind == "mret":
            obj = self.returned[op[1]]
            obj.append(9)
            if not any(obj is r for r in self.mutated_returned):
                self.mutated_returned.append(obj)
            return None
        if kind == "morig":
            self.vals[op[1]].append(9)
            return None
        if kind == "purge":
            self.cds.purge()
            self.model.clear()
            self.stale.clear()
            return None
        if kind == "opurge":
            self.other.purge()
            self.stale.update(self.model)
            self.model.clear()
            return None
        if kind == "cold":
            if self.backend == env.MEM:
                self.cds._deserialized_cache.clear()  # the store lives in the object: only the LRU goes cold
            else:
                self.cds = self._new_app().client_data_store  # another process's view of the same database
                self.stale.clear()
            return None
        raise ValueError(op)

    def readout(self) -> tuple | None:
        seen = set()
        for ref, _snap in self.issued:
            if ref in seen:
                continue
            seen.add(ref)
            bad, _ = self._check_resolve(ref)
            if bad:
                return bad
        if self.other is not None:
            # every live reference resolves for a reader in another process as well (cold cache)
            for ref in seen:
                self.other._deserialized_cache.clear()
                bad, _ = self._check_resolve(ref, self.other)
                if bad:
                    bad[0]["reader"] = "other-process"
                    return bad
        return None

    def dump(self) -> str:
        cds = self.cds
        if self.backend == env.MEM:
            stored = tuple(sorted(cds._storage.items()))
        else:
            import sqlite3

            with sqlite3.connect(cds.sqlite_db_path) as conn:
                stored = tuple(conn.execute(f"SELECT data_key, data_value FROM {cds.tables.STORE} ORDER BY data_key").fetchall())
            conn.close()
        lru = tuple((k, crep(o)) for k, o in cds._deserialized_cache.items())
        return repr((self.serializer, self.backend, stored, lru, crep(self.vals), self.last_ref))


def _run_history(w: StoreWorld, hist: tuple, p: Partial | None) -> tuple | None:
    """Replay `hist` on a fresh world; returns (signature, detail, failing op index) or None."""
    w.reset()
    for k, op in enumerate(hist):
        if op not in w.enabled():
            raise ValueError(f"operation {op} not enabled in {hist}")
        bad = w.apply(op)
        if p is not None:
            p.count("transitions")
        if bad:
            return bad[0], bad[1], k
    if p is not None:
        p.add("store_states", w.dump())
    bad = w.readout()
    if p is not None:
        p.count("transitions", len({r for r, _ in w.issued}))
    if bad:
        return bad[0], bad[1], len(hist)
    return None


def _store_unit(item: tuple) -> Partial:
    serializer, backend, n, depth, first = item
    p = Partial()
    w = StoreWorld(serializer, backend, n)
    cfg = {"serializer": serializer, "store": backend, "values": n}
    frontier = [(first,)]
    reported: set = set()
    for d in range(1, depth + 1):  # breadth first: the first history reported for a signature is a shortest one
        nxt: list = []
        for hist in frontier:
            res = _run_history(w, hist, p)
            p.count("store_histories")
            p.count("traces_validated_against_impl")
            if res is not None:
                sig, detail, _k = res
                key = repr(sorted(sig.items()))
                if key not in reported:
                    reported.add(key)
                    p.violation(sig, {**cfg, **detail, "history": list(hist)},
                                {"kind": "store", **cfg, "history": [list(o) for o in hist]})
                continue  # never extend a history that already violates
            if d < depth:
                # the enabled set after `hist` is the world's current one (the read-out does not change it)
                nxt.extend(hist + (op,) for op in w.enabled())
            elif len(p.samples) < 1:
                p.sample({**cfg, "a_history_that_held": [list(o) for o in hist]})
        frontier = nxt
    return p


# ---------------------------------------------------------------------------
# (c) identity
# ---------------------------------------------------------------------------
class _RecHash:
    def __init__(self, real: Any, sink: list) -> None:
        self._h, self._sink = real, sink

    def update(self, data: bytes) -> None:
        self._sink.append(bytes(data))
        self._h.update(data)

    def hexdigest(self) -> str:
        return self._h.hexdigest()

    def digest(self) -> bytes:
        return self._h.digest()


class RecHashlib:
    """Stand-in for the `hashlib` name inside pynenc.call: records, per sha256 object, every byte fed."""

    def __init__(self, real: Any) -> None:
        self._real = real
        self.log: list[list[bytes]] = []

    def sha256(self, data: bytes = b"", **kw: Any) -> _RecHash:
        sink: list[bytes] = [bytes(data)] if data else []
        self.log.append(sink)
        return _RecHash(self._real.sha256(data, **kw), sink)

    def __getattr__(self, name: str) -> Any:
        return getattr(self._real, name)

    def take(self) -> bytes | None:
        """Pre-image of the single hash computed since the last take (None: nothing was hashed)."""
        if not self.log:
            return None
        if len(self.log) != 1:
            raise AssertionError(f"{len(self.log)} hashes for one identity")
        out = b"".join(self.log[0])
        self.log.clear()
        return out


class recording:
    def __enter__(self) -> RecHashlib:
        import pynenc.call as pc

        self.pc = pc
        self.saved = pc.hashlib
        self.rec = RecHashlib(self.saved)
        pc.hashlib = self.rec
        return self.rec

    def __exit__(self, *exc: Any) -> None:
        self.pc.hashlib = self.saved


ID_KEYS_QUICK = ("a", "b", "a=b", "a;")
ID_KEYS_THOROUGH = ("a", "b", "a=b", "a;", 'a"')
ID_VALUES = ("1", "2", "1;b=2", '1";"b"="2', "\\", '"', "é")


def id_dicts(keys: tuple) -> list[dict]:
    """Every dict over `keys` (each key absent or bound to one of ID_VALUES), insertion order = key order."""
    out = []
    for combo in itertools.product((None,) + ID_VALUES, repeat=len(keys)):
        out.append({k: v for k, v in zip(keys, combo) if v is not None})
    return out


def _find(seq: list, x: Any, start: int) -> int | None:
    try:
        return seq.index(x, start)
    except ValueError:
        return None


def _pairs_unit(item: tuple) -> Partial:
    """All pairs (i, j), i in [lo, hi), j > i, of the dict domain through compute_args_id, plus every
    insertion order of dict i."""
    keys, start, step = item
    from pynenc.call import compute_args_id

    p = Partial()
    ds = id_dicts(keys)
    with recording() as rec:
        pre: list = []
        ids: list = []
        for d in ds:
            ids.append(compute_args_id(d))
            pre.append(rec.take())
            p.count("transitions")
        for i in range(start, len(ds), step):
            d = ds[i]
            p.count("states")
            p.count("identity_dicts")
            # insertion orders
            for perm in itertools.permutations(list(d.items())):
                d2 = dict(perm)
                i2 = compute_args_id(d2)
                pre2 = rec.take()
                p.count("transitions")
                p.count("identity_orders")
                if pre2 != pre[i] or i2 != ids[i]:
                    p.violation({"clause": "identity:depends-on-argument-order"},
                                {"order_a": list(d), "order_b": list(d2), "preimage_a": repr(pre[i]), "preimage_b": repr(pre2)},
                                {"kind": "pair", "a": d, "b": d2, "order_a": list(d), "order_b": list(d2)})
                    break
            # pairs with every later (different) dict: list.index scans with the C-level == of bytes / str
            npairs = len(ds) - i - 1
            p.count("identity_pairs", npairs)
            p.count("traces_validated_against_impl", npairs)
            j = _find(pre, pre[i], i + 1)
            if j is not None:
                p.violation({"clause": "identity:equal-preimage-for-different-arguments"},
                            {"a": ds[i], "b": ds[j], "preimage": repr(pre[i])},
                            {"kind": "pair", "a": ds[i], "b": ds[j]})
            else:
                j = _find(ids, ids[i], i + 1)
                if j is not None:
                    p.violation({"clause": "identity:equal-id-for-different-preimages"},
                                {"a": ds[i], "b": ds[j], "id": ids[i]},
                                {"kind": "pair", "a": ds[i], "b": ds[j]})
            if (pre[i] is None) != (not d):
                p.violation({"clause": "identity:nothing-hashed-for-non-empty-arguments"}, {"a": d},
                            {"kind": "pair", "a": d, "b": {}})
    if start == 0:
        a, b = {"a": "1;b=2"}, {"a": "1", "b": "2"}
        p.sample({"separator_shifting_pair": [a, b],
                  "preimages": [repr(pre[ds.index(a)]), repr(pre[ds.index(b)])]})
    return p


def spellings_f() -> list[tuple]:
    """(assignment, positional, keywords-in-order) for f(a, b=1, *, c=2)."""
    out = []
    for a, b, c in itertools.product((0, "0", None), (1, 5), (2, 7)):
        for npos in (0, 1, 2):
            pos = (a, b)[:npos]
            kws = {}
            if npos < 1:
                kws["a"] = a
            if npos < 2:
                kws["b"] = b
            kws["c"] = c
            optional = [k for k, dflt in (("b", 1), ("c", 2)) if k in kws and kws[k] == dflt and type(kws[k]) is int]
            for r in range(len(optional) + 1):
                for omit in itertools.combinations(optional, r):
                    given = [k for k in kws if k not in omit]
                    for order in itertools.permutations(given):
                        out.append(((a, b, c), pos, tuple((k, kws[k]) for k in order)))
    return out


def _call_ids_of_spelling(app: Any, task: Any, pos: tuple, kws: dict, p: Partial, full: dict | None = None) -> list[tuple]:
    """Every way of writing this one call -> [(how, call_id key, bound kwargs read back)]."""
    from pynenc.call import Call

    out = []
    inv = task(*pos, **kws)
    back = app.state_backend.get_invocation(inv.invocation_id)
    out.append(("call", inv.call.call_id.key, inv.call.arguments.kwargs))
    out.append(("call:read-back", back.call.call_id.key, back.call.arguments.kwargs))
    c = Call(task, task.args(*pos, **kws))
    out.append(("Call(args)", c.call_id.key, c.arguments.kwargs))
    p.count("transitions", 3)
    forms: list[tuple] = [("parallelize:Arguments", task.args(*pos, **kws), None)]
    if not kws:
        forms.append(("parallelize:tuple", tuple(pos), None))
    if not pos:
        forms.append(("parallelize:dict", dict(kws), None))
        names = list(kws)
        for r in range(1, len(names) + 1):
            for common in itertools.combinations(names, r):
                forms.append((f"parallelize:common_args({','.join(common)})",
                              {k: v for k, v in kws.items() if k not in common},
                              {k: kws[k] for k in common}))
    for how, param, common in forms:
        for copies in (1, 2):  # 1: one call at a time; 2: the batch path (PreSerializedCall, route_calls)
            grp = task.parallelize([param] * copies, common) if common is not None else task.parallelize([param] * copies)
            p.count("transitions")
            for gi in grp.invocations:
                back = app.state_backend.get_invocation(gi.invocation_id)
                out.append((f"{how}x{copies}", gi.call.call_id.key, gi.call.arguments.kwargs))
                out.append((f"{how}x{copies}:read-back", back.call.call_id.key, back.call.arguments.kwargs))
        if common is not None and full is not None:
            # a heterogeneous batch: the same call twice, first with every parameter spelled out, then as written here
            # (possibly leaving defaults out), and the other way round
            leader = {k: v for k, v in full.items() if k not in common}
            for order, batch in (("explicit-first", [leader, param]), ("explicit-last", [param, leader])):
                grp = task.parallelize(batch, common)
                p.count("transitions")
                for gi in grp.invocations:
                    back = app.state_backend.get_invocation(gi.invocation_id)
                    out.append((f"{how}:mixed-batch:{order}", gi.call.call_id.key, gi.call.arguments.kwargs))
                    out.append((f"{how}:mixed-batch:{order}:read-back", back.call.call_id.key, back.call.arguments.kwargs))
    return out


def _spelling_unit(item: tuple) -> Partial:
    serializer, backend = item
    p = Partial()
    env.reset_world()
    db = {"db": env.reuse_db("c15i")} if backend == env.SQLITE else {}
    app = env.make_app(backend, app_id="c15i", serializer_cls=serializer, **db)
    tf, tg, tg2, th = (app.task(fn) for fn in (T.f, T.g, T.g2, T.h))
    cfg = {"serializer": serializer, "store": backend}
    by_assignment: dict = {}  # (task, canonical assignment) -> {call id: first spelling}
    with recording() as rec:
        def one(tname: str, task: Any, assignment: dict, pos: tuple, kws: dict) -> None:
            akey = (tname, crep(assignment))
            spelled = f"{tname}({', '.join([crep(x) for x in pos] + [f'{k}={crep(v)}' for k, v in kws.items()])})"
            p.count("states")
            p.count("identity_spellings")
            try:
                results = _call_ids_of_spelling(app, task, pos, kws, p, full=dict(assignment))
            except Exception as e:  # noqa: BLE001
                p.violation({"clause": "identity:spelling-raises", "error": type(e).__name__},
                            {**cfg, "spelling": spelled, "error": str(e)[:300]},
                            {"kind": "spelling", **cfg, "task": tname, "pos": list(pos), "kws": kws})
                return
            rec.log.clear()
            for how, cid, bound in results:
                p.count("traces_validated_against_impl")
                ids = by_assignment.setdefault(akey, {})
                if cid not in ids:
                    ids[cid] = f"{spelled} via {how}"
                if len(ids) > 1:
                    first = next(iter(ids.values()))
                    p.violation({"clause": "identity:spellings-of-one-call-get-different-ids", "via": how.split("x")[0].split("(")[0]},
                                {**cfg, "spelling": f"{spelled} via {how}", "other": first, "ids": list(ids),
                                 "bound_arguments": crep(bound)},
                                {"kind": "spelling", **cfg, "task": tname, "pos": list(pos), "kws": kws})
                    del ids[cid]  # keep the canonical one; report every deviating route once per signature
                    continue
                if not deq(dict(bound), assignment):
                    p.violation({"clause": "identity:bound-arguments-differ", "via": how.split("x")[0].split("(")[0]},
                                {**cfg, "spelling": f"{spelled} via {how}", "bound": crep(bound), "expected": crep(assignment)},
                                {"kind": "spelling", **cfg, "task": tname, "pos": list(pos), "kws": kws})

        for (a, b, c), pos, kwl in spellings_f():
            one("f", tf, {"a": a, "b": b, "c": c}, pos, dict(kwl))
        for v in (0, "0", None, [1, {"k": "é"}], '1";"x"="2'):
            for tname, task in (("g", tg), ("g2", tg2)):
                one(tname, task, {"x": v}, (v,), {})
                one(tname, task, {"x": v}, (), {"x": v})
        one("h", th, {}, (), {})
    # different assignments (or tasks) => different ids
    owner: dict = {}
    for akey, ids in by_assignment.items():
        for cid in ids:
            if cid in owner and owner[cid] != akey:
                p.violation({"clause": "identity:different-calls-get-one-id"},
                            {**cfg, "a": owner[cid], "b": akey, "id": cid}, {"kind": "spelling-all", **cfg})
            owner.setdefault(cid, akey)
    p.count("identity_assignments", len(by_assignment))
    p.sample({**cfg, "assignment": "f(a=0,b=1,c=2)", "spellings_with_one_id": sum(1 for s in spellings_f() if s[0] == (0, 1, 2)),
              "id": next(iter(by_assignment[("f", crep({"a": 0, "b": 1, "c": 2}))]))})
    return p


def _call_pairs_unit(item: tuple) -> Partial:
    """Real Call objects: raw string arguments under adversarial keys, two tasks, one serializer.
    Pre-image of a call identity = (task id, bytes hashed). All pairs."""
    from pynenc.arguments import Arguments
    from pynenc.call import Call
    from pynenc.identifiers.call_id import CallId

    (serializer,) = item
    p = Partial()
    env.reset_world()
    app = env.make_app(env.MEM, app_id="c15p", serializer_cls=serializer)
    tg, tg2 = app.task(T.g), app.task(T.g2)
    ds = id_dicts(("a", "b", "a;"))
    rows = []  # (task name, raw dict, serialized dict, preimage, call id)
    with recording() as rec:
        for tname, task in (("g", tg), ("g2", tg2)):
            for d in ds:
                orders = list(itertools.permutations(list(d.items())))
                first = None
                for perm in orders:
                    call = Call(task, Arguments(kwargs=dict(perm)))
                    cid = call.call_id
                    pre = (task.task_id.key, rec.take())
                    ser = dict(call.serialized_arguments)
                    p.count("transitions")
                    if CallId.from_key(cid.key) != cid:
                        p.violation({"clause": "identity:call-id-key-does-not-parse-back"}, {"key": cid.key},
                                    {"kind": "callpair", "serializer": serializer})
                    if first is None:
                        first = (pre, cid.key)
                        rows.append((tname, d, ser, pre, cid.key))
                    elif (pre, cid.key) != first:
                        p.violation({"clause": "identity:depends-on-argument-order"},
                                    {"serializer": serializer, "task": tname, "order_a": list(d), "order_b": [k for k, _ in perm]},
                                    {"kind": "callpair", "serializer": serializer})
                p.count("states")
    for i in range(len(rows)):
        ti, di, si, pi, ci = rows[i]
        for j in range(i + 1, len(rows)):
            tj, dj, sj, pj, cj = rows[j]
            same_input = ti == tj and si == sj
            p.count("identity_pairs")
            p.count("traces_validated_against_impl")
            if (pi == pj) != same_input:
                p.violation({"clause": "identity:preimage-equality-differs-from-(task,serialized-args)-equality"},
                            {"serializer": serializer, "a": [ti, di], "b": [tj, dj], "preimage_a": repr(pi), "preimage_b": repr(pj)},
                            {"kind": "callpair", "serializer": serializer})
                break
            if (ci == cj) != (pi == pj):
                p.violation({"clause": "identity:id-equality-differs-from-preimage-equality"},
                            {"serializer": serializer, "a": [ti, di], "b": [tj, dj], "ids": [ci, cj]},
                            {"kind": "callpair", "serializer": serializer})
                break
            if same_input != (ti == tj and di == dj):
                p.violation({"clause": "identity:serialized-arguments-equal-for-different-raw-arguments"},
                            {"serializer": serializer, "a": [ti, di], "b": [tj, dj]},
                            {"kind": "callpair", "serializer": serializer})
                break
    return p


# ---------------------------------------------------------------------------
# driver
# ---------------------------------------------------------------------------
def _chunks(n: int, size: int) -> list[tuple[int, int]]:
    return [(lo, min(lo + size, n)) for lo in range(0, n, size)]


def _value_items(thorough: bool) -> list[tuple]:
    """quick: data store on: memory 'l2', SQLite 'lite'; data store off (the store is not on the path): memory
    'lite', SQLite atoms; thorough: memory 'l2', SQLite 'l1'. Fresh-app cases: every atom (memory thorough: 'lite')."""
    items: list[tuple] = []
    # SQLite first (a case costs ~10 ms there, ~0.2 ms in memory): better balance of the pool
    for ser in SERIALIZERS:
        for cds_off in (False, True):
            sq_level = "l1" if thorough else ("atoms" if cds_off else "lite")
            n = len(values_for(ser, sq_level))
            items += [(ser, env.SQLITE, cds_off, sq_level, lo, hi, False) for lo, hi in _chunks(n, 40)]
    for ser in SERIALIZERS:
        for backend in env.BACKENDS:
            for cds_off in (False, True):
                level = "lite" if (thorough and backend == env.MEM) else "atoms"
                n = len(values_for(ser, level))
                size = 8 if backend == env.SQLITE else 32
                items += [(ser, backend, cds_off, level, lo, hi, True) for lo, hi in _chunks(n, size)]
    for ser in SERIALIZERS:
        for cds_off in (False, True):
            level = "l2" if (thorough or not cds_off) else "lite"
            n = len(values_for(ser, level))
            items += [(ser, env.MEM, cds_off, level, lo, hi, False) for lo, hi in _chunks(n, 200)]
    return items


def _store_items(thorough: bool) -> list[tuple]:
    items = []
    for backend in env.BACKENDS:
        for ser in SERIALIZERS:
            n = 3 if (thorough or backend == env.MEM) else 2
            depth = 5 if (thorough and backend == env.MEM) else 4
            w = StoreWorld(ser, backend, n)
            w.vals, w.last_ref, w.returned = _store_values(n), [None] * n, [None] * n
            for first in w.enabled():
                items.append((ser, backend, n, depth, first))
    return items


def _dispatch(item: tuple) -> Partial:
    return UNITS[item[0]](item[1])


def run(ctx: Ctx) -> None:
    only = getattr(ctx, "only", None)
    keys = ID_KEYS_THOROUGH if ctx.thorough else ID_KEYS_QUICK
    work: list[tuple] = []
    if not only or "values" in only:
        work += [("values", it) for it in _value_items(ctx.thorough)]
    if not only or "store" in only:
        work += [("store", it) for it in _store_items(ctx.thorough)]
    if not only or "identity" in only:
        step = 64 if ctx.thorough else 16
        work += [("pairs", (keys, s, step)) for s in range(step)]
        work += [("spelling", (ser, b)) for ser in SERIALIZERS for b in env.BACKENDS]
        work += [("callpairs", (ser,)) for ser in SERIALIZERS]
    # VERIF_SEED is not used: the units are independent and merged in item order
    parts = par.pmap(_dispatch, work)
    by_kind: dict = {}
    for (kind, _it), part in zip(work, parts):
        by_kind.setdefault(kind, []).extend(part.samples)
        part.samples = []
        ctx.merge(part)
    for k in range(3):  # a mix of real cases of every part
        for kind in UNITS:
            if len(by_kind.get(kind, [])) > k:
                ctx.sample({"part": kind, **by_kind[kind][k]}, limit=8)
    if "store_states" in ctx.sets:
        ctx.count("states", len(ctx.sets["store_states"]))
        ctx.extra["store_states"] = len(ctx.sets.pop("store_states"))
    ctx.extra["values_per_serializer"] = {s: len(values_for(s, "l2")) for s in SERIALIZERS}
    ctx.extra["identity_dict_domain"] = len(id_dicts(keys))
    ctx.rule = (
        "values: every value of the generated domain (atoms; all lists of length <=2 and str-keyed dicts of size <=2 over "
        "all atoms; all such containers over small atoms and depth-1 containers) x 3 serializers x min_size_to_cache "
        "{1,L-1,L,L+1,1024} x disable_client_data_store x disable_cache_args {(),(x),(*)} x {mem,sqlite}, each read back "
        "on the worker side with a cold LRU and read again after all writes; store: every enabled operation sequence up "
        "to the depth bound over serialize/resolve/mutate-returned/mutate-original/purge/cold/purge-by-a-second-process (SQLite; the final read-out also from that process) for 2-3 values against a "
        "content-addressed model; identity: every spelling of f(a,b=1,*,c=2), g(x), h() incl. parallelize forms, every "
        "pair and every insertion order of all dicts over the adversarial key and value sets through compute_args_id "
        "with the SHA-256 pre-image recorded, and all pairs of real Call objects of two tasks. "
        "states = (value, configuration) cases + distinct store states + identity dicts/spellings; transitions = "
        "operations executed; traces = round trips / histories / pairs compared"
    )
    ctx.assume("JsonSerializer domain (docs/reference/serializers.md): None, bool, int, float incl. nan/inf/-0.0 (Python's json "
               "writes and reads them), str incl. lone surrogates and NUL, list, dict with str keys not equal to a reserved "
               "key, Enum/IntEnum/StrEnum, builtin and user exceptions with JSON-native args, JsonSerializable objects whose "
               "to_json() is JSON-native; tuples, sets, bytes and non-string keys are outside it")
    ctx.assume("JsonPickleSerializer domain: the above + tuple, NamedTuple, set, frozenset, bytes, complex, dataclass; non-string "
               "dict keys are outside (pynenc does not enable jsonpickle's keys=True) and so are dict keys starting with 'py/'; "
               "PickleSerializer: the above + dicts with int/tuple/None/bool keys")
    ctx.assume("dict equality ignores insertion order; objects without __eq__ are compared by type and attributes")
    ctx.assume("worker side = state_backend.get_invocation(id).arguments.kwargs with an emptied LRU of deserialised objects; "
               "for SQLite on a second app object on the same file (a brand-new one per read in the fresh-app cases); the "
               "in-memory store lives inside the app object, so there the same object is read with an emptied LRU")
    ctx.assume("thresholds are set by assigning client_data_store.conf.min_size_to_cache between cases; every atom is "
               "additionally run with all configuration given through config_values to new app objects")
    ctx.assume("max_size_to_cache = 0 (no upper limit), local_cache_size default, compression off")
    ctx.assume("argument names are valid UTF-8 (a lone surrogate in a *key* cannot be hashed: not a Python identifier)")
    ctx.assume("SHA-256 is trusted: injectivity is decided on the recorded pre-image")


UNITS = {"values": _values_unit, "store": _store_unit, "pairs": _pairs_unit, "spelling": _spelling_unit,
         "callpairs": _call_pairs_unit}


def replay(payload: dict) -> bool:
    r = payload["replay"]
    kind = r.get("kind")
    p = Partial()
    if kind == "value":
        ser, backend, cds_off, thr, fresh = r["serializer"], r["store"], r["cds_off"], r["thr"], r["fresh"]
        value = values_for(ser, r["level"])[r["index"]]
        cfg = {"serializer": ser, "store": backend, "cds_off": cds_off, "index": r["index"]}
        w = RTWorld(ser, backend, cds_off, thr if fresh else None)
        if not fresh:
            w.set_threshold(thr)
        later: list = []
        run_case(p, w, value, thr, cfg, r, fresh, {}, later)
        reread(p, w, later, lambda v, c: r, fresh)
        return bool(p.violations)
    if kind == "store":
        hist = tuple(tuple(op) for op in r["history"])
        return _run_history(StoreWorld(r["serializer"], r["store"], r["values"]), hist, None) is not None
    if kind == "pair":
        from pynenc.call import compute_args_id

        a = {k: r["a"][k] for k in r.get("order_a", list(r["a"]))}
        b = {k: r["b"][k] for k in r.get("order_b", list(r["b"]))}
        with recording() as rec:
            ia = compute_args_id(a)
            pa = rec.take()
            ib = compute_args_id(b)
            pb = rec.take()
        same = a == b
        return (pa == pb) != same or (ia == ib) != same
    if kind == "spelling":
        env.reset_world()
        db = {"db": env.reuse_db("c15i")} if r["store"] == env.SQLITE else {}
        app = env.make_app(r["store"], app_id="c15i", serializer_cls=r["serializer"], **db)
        task = app.task(getattr(T, r["task"]))
        res = _call_ids_of_spelling(app, task, tuple(r["pos"]), dict(r["kws"]), p)
        return len({cid for _how, cid, _b in res}) > 1 or any(not deq(dict(b), dict(res[0][2])) for _h, _c, b in res)
    if kind == "spelling-all":
        return bool(_spelling_unit((r["serializer"], r["store"])).violations)
    if kind == "callpair":
        return bool(_call_pairs_unit((r["serializer"],)).violations)
    return False
