"""C11 — stopping a runner leaves none of its invocations owned or unqueued.

The unmodified ThreadRunner.run() loop executes generated workloads in a whole-runner simulation
(virtual time, controlled scheduler).  A reference run (default schedule) executes the workload to
completion; then, for EVERY scheduling point k of that run after on_start, the run is repeated with
a stop request (runner.stop_runner_loop(), what the signal handler calls) injected exactly at point k.
Thorough: additionally every single-deviation schedule of a core of (workload, k) pairs.
"""

from __future__ import annotations

from typing import Any

from vf import e1, env, par, runsim, sched, tasks_prog
from vf.report import Ctx, Partial

MOD = "vf.props.c11"
FINAL = {"SUCCESS", "FAILED", "CONCURRENCY_CONTROLLED_FINAL"}
AVAILABLE = {"REGISTERED", "REROUTED", "RETRY"}


def L(mr: int = 0, sc: list | None = None) -> dict:
    return {"fl": "p", "mr": mr, "sc": sc or ["ret", 1]}


WORKLOADS: dict[str, list[dict]] = {
    "two-independent": [L(), L()],
    "parent-child": [{**L(), "kids": [L()], "call": "single"}],
    "retrying": [L(1, ["retry_until", 2, 1])],
    "parent-group": [{**L(), "kids": [L(), L()], "call": "group"}],
    "mix": [{**L(), "kids": [L(1, ["retry_until", 2, 1])], "call": "single"}, L()],
    # bodies that take time, so that a stop finds task threads alive and in the middle of their body
    "slow-single": [L(0, ["slow", 0.3, 1])],
    "slow-pair": [L(0, ["slow", 0.3, 1]), L(0, ["slow", 0.2, 1])],
    "slow-child": [{**L(), "kids": [L(0, ["slow", 0.3, 1])], "call": "single"}],
    # a long task next to one that works for a while and only then calls a sub-task: a stop finds both alive and
    # the second one starts waiting while the stop is already in progress
    "slow-and-late-parent": [L(0, ["slow", 0.4, 1]), {**L(), "pre_sleep": 0.15, "kids": [L()], "call": "single"}],
    # a retrying task next to a long one, with a second (peer) runner that claims whatever is re-queued for a retry as
    # soon as it sees it: the stopping runner may still list a task thread for an invocation the peer now owns
    "retry-and-slow+peer": [L(1, ["retry_until", 2, 1]), L(0, ["slow", 0.4, 1])],
}
PEER_ID = "peer-runner"
PEER_WINDOW = 0.2  # seconds of virtual time in which the stop is injected for the peer workloads


def simulate(desc: dict, stop_at: int | None, choices: list[int] | None = None, expect: Any = None) -> sched.Execution:
    tasks_prog.reset()
    sim = runsim.Sim(desc["backend"], max_threads=desc["slots"], app_id="c11")
    tasks_prog.STATE["tasks"] = tasks_prog.bind_all(sim.app)
    roots: list[str] = []
    state = {"stopped_at": None, "started_at": None}

    def client() -> None:
        for i, spec in enumerate(WORKLOADS[desc["workload"]]):
            t = tasks_prog.STATE["tasks"][("p", spec["mr"])]
            roots.append(str(t(spec, f"r{i}").invocation_id))

    peer_on = desc["workload"].endswith("+peer")

    def peer() -> None:
        """a second runner: claims (and never runs) an invocation as soon as one awaits a retry in the queue"""
        import pynenc.runner.thread_runner as trmod
        from pynenc.runner.runner_context import RunnerContext

        pctx = RunnerContext(runner_cls="ThreadRunner", runner_id=PEER_ID)
        while state["stopped_at"] is None and env.CLOCK.now - runsim.T0 < 2 * PEER_WINDOW:
            if any((sim.record(i) or ("?",))[0] == "RETRY" for i in sim.queue()):
                for got in sim.app.orchestrator.get_invocations_to_run(1, pctx):
                    state.setdefault("peer_claimed", []).append(str(got.invocation_id))
            trmod.time.sleep(0.003)

    def at_point() -> None:
        s = sim.sched
        n = len(s.trace)
        if state["started_at"] is None and sim.runner.running:
            state["started_at"] = n
        if peer_on and "window_end" not in state and env.CLOCK.now - runsim.T0 > PEER_WINDOW:
            state["window_end"] = n
        if state["stopped_at"] is not None or state["started_at"] is None:
            return
        if stop_at is None or stop_at == "end":
            # reference run: stop once the whole workload is final ("end": or after 1 s of virtual time, whichever
            # comes first - a workload that got stuck under the explored schedule is stopped like any other)
            done = len(roots) == len(WORKLOADS[desc["workload"]]) and all(
                (sim.record(i) or ("?",))[0] in FINAL for i in sim.all_ids())
            if done or (stop_at == "end" and env.CLOCK.now - runsim.T0 > (2 * PEER_WINDOW if peer_on else 1.0)):
                state["stopped_at"] = n
                state["stopped_because"] = "done" if done else "time"
                sim.runner.stop_runner_loop()
        elif n >= stop_at:
            state["stopped_at"] = n
            sim.runner.stop_runner_loop()

    ex = sim.run(client, choices, expect, horizon=30.0, max_points=40000, on_point=at_point,
                 extra=[("peer", peer)] if peer_on else None)
    ex.state = state
    ex.roots = roots
    return ex


def judge(ex: sched.Execution, desc: dict, p: Partial, stop_at: int | None) -> None:
    sim = ex.sim
    base = dict(backend=desc["backend"], slots=desc["slots"], workload=desc["workload"])
    rid = sim.runner.runner_id
    if ex.outcome != "done" and sim.at_return is None:
        # run() never returned. which task thread is the runner joining, and what is that thread waiting for?
        cause = _stuck_cause(sim)
        sig = {"clause": f"stop-does-not-complete:{ex.outcome}", **base}
        if cause:
            sig = {"clause": "stop-does-not-complete", "cause": cause, "workload": desc["workload"], "_no_windows": "schedule-free"}
        p.violation(sig, {"stop_at": stop_at, "records": {i[-2:]: sim.record(i) for i in sim.all_ids()},
                          "queue": [x[-2:] for x in sim.queue()], **base}, {})
        return
    snap = sim.at_return or {"records": {i: sim.record(i) for i in sim.all_ids()}, "queue": sim.queue()}
    q = snap["queue"]
    rec = snap["records"]
    for inv in sorted(set(sim.claimed)):
        if inv not in rec:
            continue
        st, owner = rec[inv]
        if st in FINAL:
            continue
        if st in AVAILABLE and owner is None and inv in q:
            continue
        if owner == PEER_ID:
            continue  # re-queued by the stopped runner and claimed by the peer since: the peer's responsibility
        kind = "owned-by-stopped-runner" if owner == rid else ("not-queued" if inv not in q else "bad-status")
        p.violation({"clause": f"claimed-invocation-left-{st}:{kind}", **base},
                    {"stop_at": stop_at, "id": inv[-2:], "record": [st, owner], "queue": [x[-2:] for x in q]}, {})
        return
    for inv in rec:
        st, owner = rec[inv]
        if owner == rid and st in ("PENDING", "RUNNING", "KILLED", "PAUSED", "RESUMED"):
            p.violation({"clause": f"invocation-still-{st}-under-stopped-runner", **base},
                        {"stop_at": stop_at, "id": inv[-2:]}, {})
            return


def _stuck_cause(sim: Any) -> str | None:
    """The loop thread is inside _on_stop joining a task thread whose body waits for a sub-invocation that
    no one will run any more (the only runner is stopping)."""
    waiting = set(getattr(sim.runner, "waiting_invocation_ids", ()))
    if not waiting:
        return None
    pending_children = []
    for inv in sim.all_ids():
        st, owner = sim.record(inv)
        if st not in FINAL:
            pending_children.append(st)
    if pending_children:
        return "joined-task-thread-waits-for-a-sub-invocation-nobody-runs"
    return None


def _inject_unit(item: tuple) -> Partial:
    desc, ks = item
    p = Partial()
    e1.prepare()
    for k in ks:
        ex = simulate(desc, k)
        p.count("schedules")
        p.count("stop_points")
        p.count("transitions", len(ex.trace))
        p.max("max_points_per_schedule", len(ex.trace))
        p.add("distinct_outcomes", (desc["workload"], desc["backend"], desc["slots"],
                                    tuple(sorted((ex.sim.record(i) or ("?",))[0] for i in ex.sim.all_ids())), ex.outcome))
        before = len(p.violations)
        judge(ex, desc, p, k)
        for v in p.violations[before:]:
            v["signature"].pop("_no_windows", None)
            v["replay"] = {"kind": "inject", "desc": desc, "k": k}
    return p


class Scn:
    """Single-deviation exploration around one (workload, stop point) pair (thorough)."""

    points = None

    def __init__(self, desc: dict) -> None:
        self.desc = desc

    def execute(self, choices: list[int], expect: Any) -> sched.Execution:
        return simulate(self.desc, self.desc["k"], choices, expect)  # k: a point index, or "end"

    def digest(self, ex: sched.Execution) -> Any:
        return (tuple(sorted((ex.sim.record(i) or ("?",)) for i in ex.sim.all_ids())), ex.outcome)

    def check(self, ex: sched.Execution, p: Partial) -> None:
        judge(ex, self.desc, p, self.desc["k"])


def build(desc: dict) -> Scn:
    return Scn(desc)


def run(ctx: Ctx) -> None:
    e1.prepare()
    only = getattr(ctx, "only", None)
    items = []
    cores = []
    for backend in env.BACKENDS:
        for slots in (1, 2):
            for wl in WORKLOADS:
                desc = dict(backend=backend, slots=slots, workload=wl)
                if only and only not in e1.desc_key(desc):
                    continue
                peer_wl = wl.endswith("+peer")
                if peer_wl and slots == 1:
                    continue  # the long task must run next to the retrying one
                # (the peer never runs what it claims: the reference run of a peer workload ends on the clock)
                ref = simulate(desc, "end" if peer_wl else None)
                ctx.count("schedules")
                ctx.count("transitions", len(ref.trace))
                ref2 = simulate(desc, "end" if peer_wl else None)
                if sched.prefix_hashes(ref)[-1] != sched.prefix_hashes(ref2)[-1]:
                    raise sched.HarnessError(f"reference run not reproducible: {desc}")
                ctx.count("traces_validated_against_impl")
                judge(ref, desc, ctx, None)
                start, end = ref.state["started_at"], ref.state["stopped_at"]
                if start is None or end is None:
                    ctx.violation({"clause": "workload-does-not-finish-without-stop", **desc}, {"outcome": ref.outcome}, {})
                    continue
                ks = list(range(start, end + 1))
                if peer_wl:
                    ks = [k for k in ks if k <= ref.state.get("window_end", end)]
                    ctx.extra.setdefault("peer_claimed_in_reference_run", {})[e1.desc_key(desc)] = len(ref.state.get("peer_claimed", []))
                if not ctx.thorough and backend == env.SQLITE:
                    ks = ks[::3]  # SQLite runs have ~3x more points (one per statement): every third in quick
                    ctx.assume("quick tier: on SQLite the stop is injected at every third scheduling point (thorough: every point)")
                ctx.extra.setdefault("stop_points_per_config", {})[e1.desc_key(desc)] = len(ks)
                n = max(1, len(ks) // 8)
                items += [(desc, ks[i:i + n]) for i in range(0, len(ks), n)]
                ctx.sample({"config": desc, "reference_points": len(ref.trace), "on_start_done_at": start,
                            "workload_done_at": end}, limit=3)
                if ctx.thorough and backend == env.MEM and slots == 1:
                    for k in ks[:: max(1, len(ks) // 6)]:
                        cores.append(dict(**desc, k=k, bound=1))
                # hand-overs between task threads and the loop (retry): every single-deviation schedule of the whole
                # workload, stopped when it is done (or after 1 s of virtual time if the schedule got it stuck)
                if wl in ("retrying", "mix") and (backend == env.MEM or wl == "retrying" or ctx.thorough):
                    # two deviations where it is cheap: holding a finished-but-alive task thread back across the
                    # loop's two sleeps takes two
                    two = wl == "retrying" and (backend == env.MEM or ctx.thorough)
                    cores.append(dict(**desc, k="end", bound=2 if two else 1))
    rot = ctx.seed % len(items) if items else 0
    for part in par.pmap(_inject_unit, items[rot:] + items[:rot]):
        ctx.merge(part)
    if cores:
        e1.explore_all(ctx, MOD, cores, lambda d: d["bound"], replay_every=500)
    ctx.rule = ("per (backend, slots, workload): one reference run to completion under the default schedule, then one run per "
                "scheduling point k between the end of on_start and the completion of the workload with stop_runner_loop() "
                "injected at k (extra.stop_points_per_config); thorough adds all single-deviation schedules for 6 stop "
                "points per workload (memory, 1 slot); both tiers: every schedule with <= 1 deviation (<= 2 for the single retrying task on memory) of the retrying workloads with the "
                "stop at the end of the workload (memory; SQLite for the single retrying task, thorough for both). After run() returns: every invocation the runner claimed is final or "
                "available + ownerless + queued; nothing PENDING/RUNNING/KILLED under the runner id; run() must return.")
    ctx.assume("a stop request that arrives before on_start has set the running flag is overwritten by it; injection starts after on_start")
    ctx.assume("the stop request is the call the signal handler makes (stop_runner_loop); real OS signals are not delivered")
    ctx.assume("process-based runners are out of reach of the thread-level scheduler (C14 covers their pool logic)")


def replay(payload: dict) -> bool:
    r = payload["replay"]
    if r.get("kind") == "schedule":
        return e1.replay_schedule(r)
    p = _inject_unit((r["desc"], [r["k"]]))
    return bool(p.violations)
