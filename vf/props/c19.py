"""C19 — sync development mode and distributed execution give the same outcome.

E3 over generated task programs (trees of scripted nodes, plain and direct flavours, retries,
single and group sub-calls), each executed (a) inline with dev_mode_force_sync_tasks,
(b) in-memory stack + real ThreadRunner, (c) SQLite stack + real ThreadRunner; the runners run
under the controlled scheduler in virtual time with two deterministic schedules (default and
round-robin): the outcome must not depend on the schedule.
"""

from __future__ import annotations

from typing import Any

from vf import e1, env, par, runsim, sched, tasks_prog, worlds
from vf.report import Ctx, Partial

MOD = "vf.props.c19"

SCRIPTS = [["ret", 1], ["retry_until", 2, 1], ["retry_until", 3, 1], ["always_retry"], ["fail", "x"]]
CHILD_TYPES = [(0, ["ret", 1]), (1, ["retry_until", 2, 1]), (0, ["fail", "x"]), (1, ["always_retry"])]
ROOT_INNER = [(0, ["ret", 1]), (1, ["retry_until", 2, 1])]


def node(fl: str, mr: int, sc: list, kids: list | None = None, call: str = "single") -> dict:
    n: dict = {"fl": fl, "mr": mr, "sc": sc}
    if kids:
        n["kids"] = kids
        n["call"] = call
    return n


def programs(thorough: bool) -> list[dict]:
    out = []
    for fl in "pd":
        for mr in (0, 1, 2):
            for sc in SCRIPTS:
                out.append(node(fl, mr, sc))
    # a task with a custom retry_for=(ValueError,): ValueError and RetryError are retriable, other errors are not
    custom = [node("r", 1, sc) for sc in (["ret", 1], ["retry_until", 2, 1], ["vretry_until", 2, 1], ["retry_until", 3, 1],
                                          ["vretry_until", 3, 1], ["always_retry"], ["fail", "x"])]
    out += custom
    for k in custom[1:5]:
        out.append(node("p", 0, ["ret", 1], [k]))
    kids1 = [node(fl, mr, sc) for fl in "pd" for mr, sc in CHILD_TYPES]
    roots = [(fl, mr, sc) for fl in "pd" for mr, sc in ROOT_INNER]
    for fl, mr, sc in roots:
        for k in kids1:
            out.append(node(fl, mr, sc, [k]))
    second = [kids1[0], kids1[1], kids1[5], kids1[2]]
    for fl, mr, sc in roots:
        for k1 in kids1:
            for k2 in (second if not thorough else kids1):
                out.append(node(fl, mr, sc, [k1, k2]))
    plain_kids = [node("p", mr, sc) for mr, sc in CHILD_TYPES]
    for fl, mr, sc in roots:
        for k1 in plain_kids:
            for k2 in plain_kids:
                if k1["mr"] == k2["mr"]:
                    out.append(node(fl, mr, sc, [k1, k2], "group"))
    # a group whose results are consumed only up to the first one (early return / any()): every member still runs
    for fl, mr, sc in roots[:2]:
        for k1 in plain_kids[:2]:
            for k2 in plain_kids[:2]:
                if k1["mr"] == k2["mr"]:
                    out.append(node(fl, mr, sc, [k1, k2], "group_first"))
                    out.append(node(fl, mr, sc, [k1, k2, k1], "group_first"))
    # a group of identical members submitted with common_args (the shared node description travels once)
    for fl, mr, sc in roots[:2]:
        for k in plain_kids[:2]:
            out.append(node(fl, mr, sc, [k, k], "group_common"))
            out.append(node(fl, mr, sc, [k, k, k], "group_common"))
    # results read twice from one invocation / group object (wait first, use later); incl. a side-effect-only
    # sub-task whose result is None
    for fl, mr, sc in roots[:2]:
        for k in (node("p", 0, ["none"]), plain_kids[0], plain_kids[1]):
            out.append(node(fl, mr, sc, [k], "single_twice"))
            out.append(node(fl, mr, sc, [k, k], "group_twice"))
    grand = [kids1[0], kids1[1], kids1[2], kids1[4]]
    for fl, mr, sc in roots:
        for mfl in "pd":
            for mmr, msc in ROOT_INNER:
                for g in grand:
                    out.append(node(fl, mr, sc, [node(mfl, mmr, msc, [g])]))
    if thorough:
        for fl, mr, sc in roots[:4]:
            for k1 in plain_kids[:2]:
                for k2 in plain_kids[:2]:
                    if k1["mr"] != k2["mr"]:
                        continue
                    for g in grand[:2]:
                        out.append(node(fl, mr, sc, [node("p", k1["mr"], k1["sc"], [g]), k2], "group"))
    return out


def _outcome(fn: Any) -> tuple:
    try:
        return ("value", fn())
    except sched.Abort:
        raise
    except BaseException as e:  # noqa: BLE001
        return ("raise", type(e).__name__, tuple(repr(a) for a in e.args))


def run_sync(spec: dict) -> dict:
    env.reset_world(runsim.T0)
    tasks_prog.reset()
    app = env.make_app(env.MEM, app_id="c19sync", dev_mode_force_sync_tasks=True)
    tasks_prog.STATE["tasks"] = tasks_prog.bind_all(app)
    root = tasks_prog.STATE["tasks"][(spec["fl"], spec["mr"])]
    holder: dict = {}

    def go() -> Any:
        if spec["fl"] == "d":
            return root(spec, "r")
        holder["inv"] = root(spec, "r")
        return holder["inv"].result

    out = _outcome(go)
    retries = holder["inv"].num_retries if "inv" in holder else None
    return {"outcome": out, "exec": dict(tasks_prog.STATE["exec"]), "root_retries": retries}


def run_dist(spec: dict, backend: str, strategy: str, max_threads: int = 2) -> dict:
    tasks_prog.reset()
    sim = runsim.Sim(backend, max_threads=max_threads, app_id="c19")
    tasks_prog.STATE["tasks"] = tasks_prog.bind_all(sim.app)
    root = tasks_prog.STATE["tasks"][(spec["fl"], spec["mr"])]
    res: dict = {}

    def client() -> None:
        holder: dict = {}

        def go() -> Any:
            if spec["fl"] == "d":
                return root(spec, "r")
            holder["inv"] = root(spec, "r")
            return holder["inv"].result

        try:
            res["outcome"] = _outcome(go)
            res["root_retries"] = holder["inv"].num_retries if "inv" in holder else None
            # the caller has its answer; members of a group that were submitted but not yet executed still run
            # as long as a runner is alive: body executions are compared once everything submitted is final
            res["drained"] = sim.drain()
        finally:
            sim.runner.stop_runner_loop()

    ex = sim.run(client, strategy=strategy, horizon=120.0)
    res["exec"] = dict(tasks_prog.STATE["exec"])
    res["sim_outcome"] = ex.outcome
    res["points"] = len(ex.trace)
    return res


def expected_counts(spec: dict) -> dict | None:
    """The statement's accounting for a single node without children."""
    if spec.get("kids"):
        return None
    sc, mr = spec["sc"], spec["mr"]
    if sc[0] == "ret":
        return {"n": 1, "ok": True}
    if sc[0] == "fail":
        return {"n": 1, "ok": False}
    if sc[0] == "always_retry":
        return {"n": mr + 1, "ok": False}
    if sc[0] in ("retry_until", "vretry_until"):
        if sc[0] == "vretry_until" and spec.get("fl") != "r":
            return None  # ValueError is only retriable where retry_for lists it
        k = sc[1]
        return {"n": k, "ok": True} if k <= mr + 1 else {"n": mr + 1, "ok": False}
    return None


def _unit(item: tuple) -> Partial:
    chunk, thorough = item
    p = Partial()
    for spec in chunk:
        ref = run_sync(spec)
        p.count("programs")
        p.count("transitions")
        p.add("states", repr(spec))
        shape = _shape(spec)
        exp = expected_counts(spec)
        if exp is not None:
            ok = ref["outcome"][0] == "value"
            if ref["exec"].get("r") != exp["n"] or ok != exp["ok"]:
                p.violation({"clause": "retry-accounting-differs-from-statement", "mode": "sync", "shape": shape,
                             "script": spec["sc"][0], "max_retries": spec["mr"]},
                            {"spec": spec, "observed": ref}, {"spec": spec})
        for backend in env.BACKENDS:
            for strategy in ("default", "rr"):
                for mt in ((1, 2) if thorough else (2,)):
                    got = run_dist(spec, backend, strategy, mt)
                    p.count("transitions", got["points"])
                    p.count("simulated_runs")
                    p.count("traces_validated_against_impl")
                    p.add("distinct_outcomes", repr(got.get("outcome")))
                    base = {"backend": backend, "shape": shape, "flavour": spec["fl"]}
                    where = {"spec": spec, "backend": backend, "strategy": strategy, "max_threads": mt}
                    if got["sim_outcome"] != "done" or "outcome" not in got:
                        p.violation({"clause": f"distributed-run-did-not-finish:{got['sim_outcome']}", **base},
                                    {"sync": ref, "dist": {k: v for k, v in got.items() if k != 'exec'}}, where)
                        continue
                    if got["outcome"] != ref["outcome"]:
                        p.violation({"clause": "outcome-differs", **base, "sync": ref["outcome"][0],
                                     "dist": got["outcome"][0]},
                                    {"sync": ref["outcome"], "dist": got["outcome"], "spec": spec}, where)
                    elif got["exec"] != ref["exec"]:
                        cause = _classify_count_diff(spec, ref["exec"], got["exec"])
                        sig = {"clause": "body-execution-counts-differ", **base}
                        if cause:
                            sig = {"clause": "body-execution-counts-differ", "cause": cause}
                        p.violation(sig, {"sync": ref["exec"], "dist": got["exec"], "spec": spec, **base}, where)
                    elif got["root_retries"] is not None and got["root_retries"] != ref["root_retries"]:
                        p.violation({"clause": "num-retries-differs", **base},
                                    {"sync": ref["root_retries"], "dist": got["root_retries"]}, where)
        if len(p.samples) < 2:
            p.sample({"program": spec, "sync": {"outcome": repr(ref["outcome"]), "exec": ref["exec"]}})
    return p


def _find(spec: dict, path: str) -> tuple[dict | None, dict | None, int]:
    """(node at path, its parent, its index among the parent's kids)"""
    parts = path.split(".")[1:]
    cur, parent, idx = spec, None, -1
    for x in parts:
        kids = cur.get("kids") or []
        if int(x) >= len(kids):
            return None, None, -1
        parent, idx = cur, int(x)
        cur = kids[idx]
    return cur, parent, idx


def _fails(n: dict) -> bool:
    sc, mr = n["sc"], n["mr"]
    if sc[0] in ("fail", "always_retry"):
        return True
    if sc[0] in ("retry_until", "vretry_until") and sc[1] > mr + 1:
        return True
    return any(_fails(k) for k in (n.get("kids") or []))


def _classify_count_diff(spec: dict, sync: dict, dist: dict) -> str | None:
    """The only difference: members of a parallelize group that come after a failing member are never
    executed inline (the sync group yields results lazily and stops at the first exception) while the
    distributed group has submitted them all."""
    diff = [p for p in set(sync) | set(dist) if sync.get(p, 0) != dist.get(p, 0)]
    if not diff:
        return None
    for p in diff:
        node_, parent, idx = _find(spec, p)
        if node_ is None or parent is None or parent.get("call") != "group":
            # descendants of such a member inherit the difference
            anc = p
            ok = False
            while "." in anc:
                n2, par2, i2 = _find(spec, anc)
                if par2 is not None and par2.get("call") == "group" and any(_fails(k) for k in par2["kids"][:i2]):
                    ok = True
                    break
                anc = anc.rsplit(".", 1)[0]
            if not ok:
                return None
            continue
        if sync.get(p, 0) != 0 or not any(_fails(k) for k in parent["kids"][:idx]):
            return None
    return "sync-group-stops-at-first-failing-member"


def _shape(spec: dict) -> str:
    kids = spec.get("kids") or []
    if not kids:
        return "leaf"
    inner = ",".join(_shape(k) for k in kids)
    return f"{spec.get('call', 'single')}[{inner}]"


# ---------------------------------------------------------------------------
# E1: the retry accounting under interleavings of two workers (whoever polls runs the next attempt)
# ---------------------------------------------------------------------------
class RetryScn:
    """One invocation of a scripted task; two poller+worker actors (one app object each on SQLite, threads of one
    process on memory); all schedules up to the bound. Body executions and the final status must be what the
    statement says (max_retries+1 executions then FAILED / k executions then SUCCESS), whoever runs which attempt."""

    def __init__(self, desc: dict) -> None:
        self.desc = desc
        self.points = (worlds.MEM_FILES, "line") if desc["backend"] == env.MEM else None

    def execute(self, choices: list[int], expect: Any) -> sched.Execution:
        from vf import tasks
        from vf.worlds import World, runner_ctx

        d = self.desc
        w = World(d["backend"], 3, app_id="c19r")
        w.bind(tasks.scripted, max_retries=d["mr"])
        w.execs = 0
        script = d["script"]

        def body(name: str, x: int) -> Any:
            from pynenc.exceptions import RetryError

            w.execs += 1
            if script[0] == "always_retry" or (script[0] == "retry_until" and w.execs < script[1]):
                raise RetryError(f"attempt {w.execs}")
            return x
        tasks.HOOKS["script"] = body
        w.ids = [str(w.task("scripted", 2)("a", 7).invocation_id)]
        w.flush()

        def actor(j: int) -> Any:
            def f() -> None:
                ctx = runner_ctx(f"r{j}")
                app = w.apps[j]
                for _ in range(d["mr"] + 2):
                    try:
                        got = list(app.orchestrator.get_invocations_to_run(1, ctx))
                    except sched.Abort:
                        raise
                    except Exception as e:  # noqa: BLE001
                        w.log.append(("poll-error", worlds._tid(), type(e).__name__, f"r{j}"))
                        got = []
                    for inv in got:
                        try:
                            inv.run(ctx)
                        except sched.Abort:
                            raise
                        except Exception as e:  # noqa: BLE001 - the last attempt re-raises the body's exception
                            w.log.append(("run-error", worlds._tid(), type(e).__name__, f"r{j}"))
            return f

        s = sched.Scheduler(choices, expect, max_points=6000, lazy=("_add_histories",))
        ex = s.run([(f"w{j}", actor(j)) for j in range(2)])
        ex.world = w
        return ex

    def digest(self, ex: sched.Execution) -> Any:
        w = ex.world
        return (w.execs, w.record(w.ids[0], -1), ex.outcome)

    def check(self, ex: sched.Execution, p: Partial) -> None:
        w, d = ex.world, self.desc
        base = dict(backend=d["backend"], script=d["script"][0], max_retries=d["mr"])
        if ex.outcome != "done":
            p.violation({"clause": f"no-progress:{ex.outcome}", **base}, {"log": w.log[-8:]}, {})
            return
        exp = expected_counts({"sc": d["script"], "mr": d["mr"]})
        st = w.record(w.ids[0], -1)[0]
        want = "SUCCESS" if exp["ok"] else "FAILED"
        if w.execs != exp["n"] or st != want:
            p.violation({"clause": "retry-accounting-differs-from-statement", "mode": "two-workers", **base},
                        {"body_executions": w.execs, "expected_executions": exp["n"], "final_status": st, "expected_status": want,
                         "retries_recorded": w.apps[-1].orchestrator.get_invocation_retries(w.ids[0])}, {})


def build(desc: dict) -> RetryScn:
    return RetryScn(desc)


def retry_descs(ctx: Ctx) -> list[dict]:
    out = []
    for backend in env.BACKENDS:
        for mr, script in ((0, ["always_retry"]), (1, ["always_retry"]), (1, ["retry_until", 2]), (1, ["retry_until", 3]),
                           (2, ["retry_until", 3])):
            out.append(dict(backend=backend, mr=mr, script=script, bound=2 if ctx.thorough else 1))
    return out


def run(ctx: Ctx) -> None:
    only_ = getattr(ctx, "only", None)
    if not only_ or only_ == "retry-schedules":
        e1.explore_all(ctx, MOD, retry_descs(ctx), lambda d: d["bound"])
        if only_:
            ctx.rule = "retry accounting under two interleaved workers only"
            return
    progs = programs(ctx.thorough)
    only = getattr(ctx, "only", None)
    if only:
        progs = [s for s in progs if only in repr(s) or only == _shape(s)]
    n = max(1, len(progs) // 64)
    chunks = [(progs[i:i + n], ctx.thorough) for i in range(0, len(progs), n)]
    rot = ctx.seed % len(chunks)
    for part in par.pmap(_unit, chunks[rot:] + chunks[:rot]):
        ctx.merge(part)
    ctx.rule = (f"{len(progs)} generated programs (leaf: 2 flavours x 3 max_retries x 5 scripts; root+1 child; root+2 "
                "children called singly; root + group of 2; root -> child -> grandchild), each run inline in sync mode and "
                "on the in-memory and SQLite stacks with the real ThreadRunner under the default and the round-robin "
                "schedule (thorough: 1 and 2 slots): value / exception class+args at the caller, body executions per node "
                "and num_retries compared; leaf programs also against the statement's retry accounting; plus the retry accounting "
                "with two interleaved workers (always retriable / succeeds on attempt 2 or 3, max_retries 0..2, both backends), "
                "all schedules with <= 1 (thorough 2) deviations")
    ctx.assume("group results are combined with an order-insensitive sum (distributed groups yield in completion order)")
    ctx.assume("body executions of the distributed run are counted after the runner has finished everything that was submitted "
               "(the caller's outcome is taken when the caller gets it)")
    ctx.assume("each .result is read once (re-reading a failed sync invocation re-runs the body: outside the programs)")
    ctx.assume("exception arguments are compared through repr()")


def replay(payload: dict) -> bool:
    r = payload["replay"]
    if r.get("kind") == "schedule":
        return e1.replay_schedule(r)
    p = _unit(([r["spec"]], False))
    return bool(p.violations)
