"""C01 — lifecycle state machine, finals absorbing, errors change nothing, mem == sqlite.

E3: the complete single-step table (15 current x 3 owners) x (14 requested x 3 requesters)
    through BaseOrchestrator.set_invocation_status on both orchestrators.
E2: breadth-first search over request sequences (1 invocation, requesters r1, r2, no-id)
    from a freshly routed invocation until no new (status, owner) state appears.
Oracle: the frozen specification vf/spec/lifecycle.json (never imports status.py).
"""

from __future__ import annotations

import json
import os
import re

from vf import env, par, tasks
from vf.report import Ctx, Partial

SPEC = json.load(open(os.path.join(os.path.dirname(__file__), "..", "spec", "lifecycle.json")))
STATUSES = SPEC["statuses"]
EDGES = {tuple(e) for e in SPEC["edges"]}
OWNED = set(SPEC["owned"])
OVERRIDE = set(SPEC["override"])
ACQUIRES = set(SPEC["acquires"])
KEEPS = set(SPEC["keeps_owner"])
FINAL = set(SPEC["final"])
OWNERS = [None, "r1", "r2"]
REQUESTERS = ["r1", "r2", None]
ABSENT = "<absent>"
REGISTRAR = "<registrar>"


def expected(cur: str, owner, new: str, rid):
    """-> set of acceptable outcomes: ('ok', new_owner) | ('err', class names)."""
    if cur == ABSENT:
        return ("err", {"KeyError"})
    missing = (cur, new) not in EDGES
    own_bad = False
    if new not in OVERRIDE:
        if cur in OWNED and rid != owner:
            own_bad = True
        elif new in ACQUIRES and not rid:
            own_bad = True
    if missing and own_bad:
        return ("err", {"InvocationStatusTransitionError", "InvocationStatusOwnershipError"})
    if missing:
        return ("err", {"InvocationStatusTransitionError"})
    if own_bad:
        return ("err", {"InvocationStatusOwnershipError"})
    if new in ACQUIRES:
        return ("ok", rid)
    if new in KEEPS:
        return ("ok", owner)
    return ("ok", None)


def _ctx(rid):
    from pynenc.runner.runner_context import RunnerContext

    return RunnerContext(runner_cls="VfRunner", runner_id=rid)


def _status(name: str):
    from pynenc.invocation.status import InvocationStatus

    return InvocationStatus[name]


def _plant(app, backend: str, inv_id: str, status: str, owner) -> None:
    """Put the orchestrator record of inv_id into (status, owner) directly (marked 'planted')."""
    from pynenc.invocation.status import InvocationStatusRecord

    orch = app.orchestrator
    if backend == env.MEM:
        old = orch.invocation_status_record[inv_id]
        orch.status_index[old.status].discard(inv_id)
        rec = InvocationStatusRecord(_status(status), owner)
        orch.status_index[rec.status].add(inv_id)
        orch.invocation_status_record[inv_id] = rec
    else:
        from pynenc.util.sqlite_utils import create_sqlite_connection

        with create_sqlite_connection(orch.sqlite_db_path) as conn:
            conn.execute(
                f"UPDATE {orch.tables.INVOCATIONS} SET status=?, status_runner_id=?, status_timestamp=? "
                "WHERE invocation_id=?",
                (_status(status).value, owner, env.CLOCK.read(), inv_id),
            )
            conn.commit()


def _observe(app, inv_id):
    try:
        r = app.orchestrator.get_invocation_status_record(inv_id)
        rid = r.runner_id
        if rid is not None and rid.startswith("ExternalRunner@"):
            rid = REGISTRAR  # the registering client's id (host-pid): normalised
        return (r.status.name, rid, r.timestamp.timestamp())
    except KeyError:
        return None


def _hist_len(app, inv_id) -> int:
    app.state_backend.wait_for_all_async_operations()
    return len(app.state_backend.get_history(inv_id))


def _request(app, inv_id, new: str, rid):
    try:
        app.orchestrator.set_invocation_status(inv_id, _status(new), _ctx(rid))
        return ("ok", None)
    except Exception as e:  # noqa: BLE001 - the class is the observation
        return ("err", type(e).__name__)


def _judge(p: Partial, where: str, backend: str, cur, owner, new, rid, before, outcome, after,
           h_before, h_after, replay: dict) -> None:
    exp = expected(cur, owner, new, rid)
    sig = None
    if exp[0] == "err":
        if outcome[0] != "err":
            sig = {"clause": "forbidden-change-accepted", "from": cur, "to": new}
        elif outcome[1] not in exp[1]:
            sig = {"clause": "wrong-error-class", "from": cur, "to": new, "got": outcome[1]}
        elif after != before:
            sig = {"clause": "failed-request-changed-record", "from": cur, "to": new}
        elif h_after != h_before:
            sig = {"clause": "failed-request-wrote-history", "from": cur, "to": new}
    else:
        if outcome[0] != "ok":
            sig = {"clause": "allowed-change-rejected", "from": cur, "to": new, "got": outcome[1]}
        elif after is None or after[0] != new:
            sig = {"clause": "status-not-updated", "from": cur, "to": new}
        elif after[1] != exp[1]:
            sig = {"clause": "wrong-owner-after-change", "from": cur, "to": new}
        elif before is not None and not after[2] > before[2]:
            sig = {"clause": "timestamp-not-newer", "from": cur, "to": new}
    if cur in FINAL and after is not None and after[0] != cur:
        sig = {"clause": "final-status-left", "from": cur, "to": new}
    if sig:
        sig["backend"] = backend
        sig["where"] = where
        p.violation(
            sig,
            dict(owner=owner, requester=rid, expected=[exp[0], sorted(exp[1]) if exp[0] == "err" else exp[1]],
                 outcome=outcome, before=before, after=after, hist=[h_before, h_after]),
            replay,
        )


def _new_inv(app, task):
    inv = task(0)
    return inv.invocation_id


def _single_unit(item) -> Partial:
    backend, cur = item
    p = Partial()
    env.reset_world()
    app = env.make_app(backend, app_id=f"c01{backend}")
    task = tasks.bind(app, tasks.ident)
    table = {}
    for owner in OWNERS:
        for new in STATUSES:
            for rid in REQUESTERS:
                if cur == ABSENT:
                    if owner is not None:
                        continue
                    inv_id = f"absent-{new}-{rid}"
                else:
                    inv_id = _new_inv(app, task)
                    first = _observe(app, inv_id)
                    if first is None or first[0] != "REGISTERED":
                        p.violation({"clause": "first-status-not-registered", "backend": backend},
                                    {"observed": first}, {"kind": "single", "cell": [cur, owner, new, rid]})
                        continue
                    _plant(app, backend, inv_id, cur, owner)
                before = _observe(app, inv_id)
                hb = _hist_len(app, inv_id)
                outcome = _request(app, inv_id, new, rid)
                after = _observe(app, inv_id)
                ha = _hist_len(app, inv_id)
                p.count("transitions")
                p.count("single_step_cells")
                cell = [cur, owner, new, rid]
                _judge(p, "single", backend, cur, owner, new, rid, before, outcome, after, hb, ha,
                       {"kind": "single", "backend": backend, "cell": cell})
                table[(owner, new, rid)] = (outcome, None if after is None else after[:2])
                p.add("distinct_outcomes", (outcome, None if after is None else after[:2]))
    p.table = {repr(k): v for k, v in table.items()}  # type: ignore[attr-defined]
    p.item = item  # type: ignore[attr-defined]
    return p


def _bfs_unit(backend: str) -> Partial:
    """Explicit-state BFS: state = (status, owner); each transition on a dedicated fresh invocation
    that first replays the shortest request path to the state (invocations do not interact)."""
    p = Partial()
    env.reset_world()
    app = env.make_app(backend, app_id=f"c01b{backend}")
    task = tasks.bind(app, tasks.ident)
    first = _observe(app, _new_inv(app, task))[:2]
    paths = {first: []}
    frontier = [first]
    graph = {}
    depth = 0
    while frontier:
        nxt = []
        for state in frontier:
            cur, owner = state
            for new in STATUSES:
                for rid in REQUESTERS:
                    inv_id = _new_inv(app, task)
                    ok = True
                    for (s, r) in paths[state]:
                        if _request(app, inv_id, s, r)[0] != "ok":
                            ok = False
                    got = _observe(app, inv_id)
                    if not ok or got is None or got[:2] != state:
                        raise RuntimeError(f"replay divergence reaching {state} on {backend}: {got}")
                    p.count("traces_validated_against_impl")
                    before = got
                    hb = _hist_len(app, inv_id)
                    outcome = _request(app, inv_id, new, rid)
                    after = _observe(app, inv_id)
                    ha = _hist_len(app, inv_id)
                    p.count("transitions")
                    _judge(p, "sequence", backend, cur, owner, new, rid, before, outcome, after, hb, ha,
                           {"kind": "sequence", "backend": backend, "path": paths[state], "request": [new, rid]})
                    if hb != len(paths[state]) + 1:
                        p.violation({"clause": "history-length-differs-from-successful-changes", "backend": backend},
                                    {"state": state, "history": hb, "path": paths[state]},
                                    {"kind": "sequence", "backend": backend, "path": paths[state], "request": None})
                    graph[(state, new, rid)] = (outcome, None if after is None else after[:2])
                    if outcome[0] == "ok" and after is not None:
                        ns = after[:2]
                        if ns not in paths:
                            paths[ns] = paths[state] + [(new, rid)]
                            nxt.append(ns)
        frontier = nxt
        depth += 1
    p.sets["states"] = set(paths)
    p.max("depth_completed", depth)
    p.sample({"backend": backend, "longest_path": max(paths.values(), key=len)})
    p.graph = {repr(k): v for k, v in graph.items()}  # type: ignore[attr-defined]
    p.paths = paths  # type: ignore[attr-defined]
    return p


def _pair_unit(item: tuple) -> Partial:
    """thorough: two invocations side by side — a request on one never changes the other. The pair
    states are the product of the reachable single states (from the single-invocation BFS, with its
    shortest request paths); every pair state x 84 requests, each on a fresh pair."""
    backend, pairs, paths = item
    p = Partial()
    env.reset_world()
    app = env.make_app(backend, app_id=f"c01p{backend}")
    task = tasks.bind(app, tasks.ident)
    reqs = [(k, new, rid) for k in (0, 1) for new in STATUSES for rid in REQUESTERS]
    for (sa, sb) in pairs:
        for (k, new, rid) in reqs:
            ids = [_new_inv(app, task), _new_inv(app, task)]
            for (s_, r_) in paths[sa]:
                _request(app, ids[0], s_, r_)
            for (s_, r_) in paths[sb]:
                _request(app, ids[1], s_, r_)
            before = [_observe(app, i) for i in ids]
            if (before[0][:2], before[1][:2]) != (sa, sb):
                raise RuntimeError(f"replay divergence reaching {(sa, sb)} on {backend}: {before}")
            hb = [_hist_len(app, i) for i in ids]
            outcome = _request(app, ids[k], new, rid)
            after = [_observe(app, i) for i in ids]
            ha = [_hist_len(app, i) for i in ids]
            p.count("transitions")
            p.count("traces_validated_against_impl")
            cur, owner = (sa, sb)[k]
            rp = {"kind": "pair", "backend": backend, "paths": [paths[sa], paths[sb]], "request": [k, new, rid]}
            _judge(p, "pair", backend, cur, owner, new, rid, before[k], outcome, after[k], hb[k], ha[k], rp)
            o = 1 - k
            if after[o] != before[o] or ha[o] != hb[o]:
                p.violation({"clause": "request-on-one-invocation-changed-another", "backend": backend,
                             "from": cur, "to": new}, {"before": before, "after": after}, rp)
        p.add("states", ("pair", sa, sb))
    return p


def _svg_edges():
    try:
        import pynenc

        root = os.path.dirname(os.path.dirname(os.path.abspath(pynenc.__file__)))
        svg = open(os.path.join(root, "docs/_static/invocation_state_machine.svg")).read()
    except OSError:
        return None
    return {tuple(e.split("->")) for e in re.findall(r'data-edge="([^"]*)"', svg) if not e.startswith("START")}


def run(ctx: Ctx) -> None:
    items = [(b, cur) for b in env.BACKENDS for cur in [ABSENT, *STATUSES]]
    parts = par.pmap(_single_unit, items)
    tables = {}
    for it, part in zip(items, parts):
        tables[it] = part.table
        ctx.merge(part)
    for cur in [ABSENT, *STATUSES]:
        a, b = tables[(env.MEM, cur)], tables[(env.SQLITE, cur)]
        for k in a:
            if a[k] != b.get(k):
                ctx.violation({"clause": "backends-differ", "where": "single", "from": cur, "cell": k},
                              {"mem": a[k], "sqlite": b.get(k)}, {"kind": "single-both", "cur": cur, "cell": k})
    bparts = par.pmap(_bfs_unit, list(env.BACKENDS))
    for part in bparts:
        ctx.merge(part)
    g0, g1 = bparts[0].graph, bparts[1].graph
    for k in set(g0) | set(g1):
        if g0.get(k) != g1.get(k):
            ctx.violation({"clause": "backends-differ", "where": "sequence", "cell": k},
                          {"mem": g0.get(k), "sqlite": g1.get(k)}, {"kind": "sequence-both", "cell": k})
    if ctx.thorough:
        items = []
        for b, part in zip(env.BACKENDS, bparts):
            singles = sorted(part.paths, key=repr)
            pairs = [(x, y) for x in singles for y in singles]
            n = max(1, len(pairs) // 16)
            items += [(b, pairs[i:i + n], part.paths) for i in range(0, len(pairs), n)]
        for part in par.pmap(_pair_unit, items):
            ctx.merge(part)
    svg = _svg_edges()
    ctx.extra["docs_svg_equals_frozen_spec"] = (svg == EDGES) if svg is not None else None
    ctx.rule = ("single step: every (current status or absent, owner in {none,r1,r2}) x (requested status, requester in "
                "{r1,r2,no-id}) cell on both orchestrators, unreachable (status, owner) pairs planted directly; "
                "sequences: BFS over all 42 requests from every reachable (status, owner) state until closure; thorough: the "
                "same for a pair of invocations (84 requests per pair state, closure), a request on one must not change the other")
    ctx.assume("unreachable (status, owner) combinations are planted by writing the orchestrator's record directly")
    ctx.assume("when a request both lacks an edge and violates ownership either status error class is accepted")
    ctx.sample({"cell": ["RUNNING", "r1", "SUCCESS", "r2"], "expected": "InvocationStatusOwnershipError"})


def replay(payload: dict) -> bool:
    r = payload["replay"]
    p = Partial()
    if r["kind"] == "single":
        backend = r["backend"]
        cur, owner, new, rid = r["cell"]
        env.reset_world()
        app = env.make_app(backend, app_id=f"c01{backend}")
        task = tasks.bind(app, tasks.ident)
        if cur == ABSENT:
            inv_id = "absent-x"
        else:
            inv_id = _new_inv(app, task)
            _plant(app, backend, inv_id, cur, owner)
        before = _observe(app, inv_id)
        hb = _hist_len(app, inv_id)
        outcome = _request(app, inv_id, new, rid)
        after = _observe(app, inv_id)
        ha = _hist_len(app, inv_id)
        _judge(p, "single", backend, cur, owner, new, rid, before, outcome, after, hb, ha, r)
        return bool(p.violations)
    if r["kind"] == "pair":
        paths = [[tuple(x) for x in pp] for pp in r["paths"]]
        backend = r["backend"]
        env.reset_world()
        app = env.make_app(backend, app_id=f"c01p{backend}")
        task = tasks.bind(app, tasks.ident)
        ids = [_new_inv(app, task), _new_inv(app, task)]
        for n_, pp in enumerate(paths):
            for s_, r_ in pp:
                _request(app, ids[n_], s_, r_)
        k, new, rid = r["request"]
        before = [_observe(app, i) for i in ids]
        hb = [_hist_len(app, i) for i in ids]
        outcome = _request(app, ids[k], new, rid)
        after = [_observe(app, i) for i in ids]
        ha = [_hist_len(app, i) for i in ids]
        _judge(p, "pair", backend, before[k][0], before[k][1], new, rid, before[k], outcome, after[k], hb[k], ha[k], r)
        return bool(p.violations) or after[1 - k] != before[1 - k]
    if r["kind"] == "sequence" and r.get("request"):
        backend = r["backend"]
        env.reset_world()
        app = env.make_app(backend, app_id=f"c01b{backend}")
        task = tasks.bind(app, tasks.ident)
        inv_id = _new_inv(app, task)
        for s, rr in r["path"]:
            _request(app, inv_id, s, rr)
        before = _observe(app, inv_id)
        hb = _hist_len(app, inv_id)
        new, rid = r["request"]
        outcome = _request(app, inv_id, new, rid)
        after = _observe(app, inv_id)
        ha = _hist_len(app, inv_id)
        _judge(p, "sequence", backend, before[0], before[1], new, rid, before, outcome, after, hb, ha, r)
        return bool(p.violations)
    # cross-backend differences: re-run the whole check
    ctx = Ctx("C01", "quick", 0)
    run(ctx)
    return bool(ctx.violations)
