"""C08 — the broker delivers each routed message exactly once, first in first out.

E2: BFS over route / route_batch (repeated ids) / retrieve / count / purge histories on
    both brokers against a deque.
E1: SQLite broker, 2-3 concurrent actors (retrievers and routers, one app object each),
    a scheduling point at every SQL statement; every execution's call/return history
    must be linearizable w.r.t. the deque and leave the deque's remaining content.
"""

from __future__ import annotations

import itertools
from collections import deque
from typing import Any

from vf import bfs, e1, env, par, sched, worlds
from vf.report import Ctx, Partial

MOD = "vf.props.c08"


# ---------------------------------------------------------------------------
# histories
# ---------------------------------------------------------------------------
class BrokerSys(bfs.System):
    def __init__(self, backend: str) -> None:
        self.backend = backend
        self.name = backend

    def reset(self) -> None:
        env.reset_world()
        if self.backend == env.MEM:
            self.app = env.make_app(env.MEM, app_id="c08")
        else:
            self.app = env.make_app(env.SQLITE, app_id="c08", db=env.reuse_db("c08"))
        self.b = self.app.broker

    def apply(self, op: tuple) -> Any:
        b = self.b
        if op[0] == "route":
            return bfs.outcome(lambda: b.route_invocation(op[1]))
        if op[0] == "batch":
            return bfs.outcome(lambda: b.route_invocations(list(op[1])))
        if op[0] == "retrieve":
            return bfs.outcome(lambda: (lambda r: None if r is None else str(r))(b.retrieve_invocation()))
        if op[0] == "count":
            return bfs.outcome(b.count_invocations)
        if op[0] == "purge":
            return bfs.outcome(b.purge)
        raise ValueError(op)

    def dump(self) -> Any:
        if self.backend == env.MEM:
            return tuple(str(x) for x in self.b._queue)
        from pynenc.util.sqlite_utils import create_sqlite_connection

        with create_sqlite_connection(self.b.sqlite_db_path) as conn:
            cur = conn.execute(f"SELECT invocation_id FROM {self.b.tables.QUEUE} ORDER BY created_at ASC, id ASC")
            rows = tuple(r[0] for r in cur.fetchall())
            cur.close()
        return rows

    def readout(self) -> Any:
        return (("count", self.b.count_invocations()),)


class DequeModel(bfs.System):
    name = "model"

    def reset(self) -> None:
        self.q: deque = deque()

    def apply(self, op: tuple) -> Any:
        if op[0] == "route":
            self.q.append(op[1])
            return ("ok", None)
        if op[0] == "batch":
            self.q.extend(op[1])
            return ("ok", None)
        if op[0] == "retrieve":
            return ("ok", self.q.popleft() if self.q else None)
        if op[0] == "count":
            return ("ok", len(self.q))
        if op[0] == "purge":
            self.q.clear()
            return ("ok", None)
        raise ValueError(op)

    def dump(self) -> Any:
        return tuple(self.q)

    def readout(self) -> Any:
        return (("count", len(self.q)),)


ALPHABET = [("retrieve",), ("count",), ("route", "a"), ("route", "b"), ("batch", ("a", "b")),
            ("batch", ("a", "a")), ("batch", ()), ("purge",)]


def _hist_unit(depth: int) -> Partial:
    p = Partial()
    impls = [BrokerSys(env.MEM), BrokerSys(env.SQLITE)]
    model = DequeModel()

    def inv(s: bfs.System, hist: list) -> str | None:
        # concrete queue content must be the model's (order included), independent of the public ops
        m = DequeModel()
        m.reset()
        for op in hist:
            m.apply(op)
        if s.dump() != m.dump():
            return "stored-queue-differs-from-fifo-model"
        return None

    st = bfs.explore(p, impls, model, lambda h: ALPHABET, depth, tag="broker", invariant=inv)
    p.sets["states"] = set(range(st["states"]))
    p.max("depth_completed", st["depth"])
    p.count("traces_validated_against_impl", st["transitions"])
    return p


# ---------------------------------------------------------------------------
# schedules (SQLite broker)
# ---------------------------------------------------------------------------
PROGRAMS = {
    "ret|ret": [[("retrieve",)], [("retrieve",)]],
    "ret,ret|ret": [[("retrieve",), ("retrieve",)], [("retrieve",)]],
    "ret|route": [[("retrieve",)], [("route", "c")]],
    "ret,ret|route,route": [[("retrieve",), ("retrieve",)], [("route", "c"), ("route", "d")]],
    "ret|ret|route": [[("retrieve",)], [("retrieve",)], [("route", "c")]],
    "ret|batch": [[("retrieve",), ("retrieve",)], [("batch", ("c", "d"))]],
    "ret|count|route": [[("retrieve",)], [("count",)], [("route", "c")]],
    # two counts by one broker object around another object's route / retrieve (a reported length must not be older
    # than the last completed operation)
    "count,count|route": [[("count",), ("count",)], [("route", "c")]],
    "count,count|ret": [[("count",), ("count",)], [("retrieve",)]],
}
QUEUES = {"[a]": ["a"], "[a,b]": ["a", "b"], "[a,a]": ["a", "a"], "[]": []}


class Scn:
    points = None

    def __init__(self, desc: dict) -> None:
        self.desc = desc
        # in-memory broker: threads of one process share the broker object, a scheduling point at every source line
        self.points = (["pynenc.broker.mem_broker"], "line") if desc.get("backend") == env.MEM else None

    def execute(self, choices: list[int], expect: Any) -> sched.Execution:
        d = self.desc
        prog = PROGRAMS[d["prog"]]
        backend = d.get("backend", env.SQLITE)
        env.reset_world()
        if backend == env.MEM:
            one = env.make_app(env.MEM, app_id="c08")
            apps = [one] * (len(prog) + 1)
        else:
            db = env.reuse_db("c08s")
            apps = [env.make_app(env.SQLITE, app_id="c08", db=db) for _ in range(len(prog) + 1)]
        for x in QUEUES[d["queue"]]:
            apps[-1].broker.route_invocation(x)
        log: list = []

        def actor(j: int) -> Any:
            sysj = BrokerSys(backend)
            sysj.app = apps[j]
            sysj.b = apps[j].broker

            def f() -> None:
                for op in prog[j]:
                    sched.point("op", op[0])  # the others may run between two calls even if a call touches nothing shared
                    log.append(("call", j, op))
                    r = sysj.apply(op)
                    log.append(("ret", j, op, r))
            return f

        s = sched.Scheduler(choices, expect, max_points=3000)
        ex = s.run([(f"a{j}", actor(j)) for j in range(len(prog))])
        ex.oplog = log
        fin = BrokerSys(backend)
        fin.app = apps[-1]
        fin.b = apps[-1].broker
        ex.final = fin.dump()
        ex.final_count = fin.b.count_invocations()
        return ex

    def digest(self, ex: sched.Execution) -> Any:
        return (tuple((e[1], e[2], e[3]) for e in ex.oplog if e[0] == "ret"), ex.final, ex.outcome)

    def check(self, ex: sched.Execution, p: Partial) -> None:
        d = self.desc
        base = dict(prog=d["prog"], queue=d["queue"])
        if d.get("backend") == env.MEM:
            base["backend"] = env.MEM
        if ex.outcome != "done":
            p.violation({"clause": f"no-progress:{ex.outcome}", **base}, {"log": ex.oplog}, {})
            return
        # operations with call/return positions
        ops = []
        open_calls: dict = {}
        for i, e in enumerate(ex.oplog):
            if e[0] == "call":
                open_calls[e[1]] = i
            elif e[2][0] == "batch":
                # a batch is a sequence of individual routings by one producer (the property does not
                # promise that a batch is atomic): one route per id, all inside the batch's window
                c = open_calls.pop(e[1])
                if e[3] != ("ok", None):
                    p.violation({"clause": "batch-route-failed", **base}, {"result": e[3]}, {})
                    return
                for x in e[2][1]:
                    ops.append((c, i, e[1], ("route", x), ("ok", None)))
            else:
                ops.append((open_calls.pop(e[1]), i, e[1], e[2], e[3]))
        if ex.final_count != len(ex.final):
            p.violation({"clause": "count-differs-from-stored-messages", **base},
                        {"count": ex.final_count, "stored": ex.final}, {})
            return
        if not _linearizable(ops, QUEUES[d["queue"]], ex.final):
            p.violation({"clause": "history-not-linearizable-wrt-fifo", **base},
                        {"ops": [(o[2], o[3], o[4]) for o in ops], "final": ex.final,
                         "initial": QUEUES[d["queue"]]}, {})


def _linearizable(ops: list, initial: list, final: tuple) -> bool:
    n = len(ops)
    for perm in itertools.permutations(range(n)):
        pos = {k: i for i, k in enumerate(perm)}
        ok = True
        for a in range(n):
            for b in range(n):
                if a != b and pos[a] > pos[b] and (
                    ops[a][1] < ops[b][0]  # a returned before b was called: a must come first
                    or (ops[a][2] == ops[b][2] and a < b)  # program order of one actor
                ):
                    ok = False
                    break
            if not ok:
                break
        if not ok:
            continue
        m = DequeModel()
        m.reset()
        m.q.extend(initial)
        good = True
        for k in perm:
            if m.apply(ops[k][3]) != ops[k][4]:
                good = False
                break
        if good and tuple(m.q) == tuple(final):
            return True
    return False


# ---------------------------------------------------------------------------
# long backlogs: queue lengths at every power of two +-1 up to 2^17 + 1 (one growing history per broker)
# ---------------------------------------------------------------------------
BACKLOG_SIZES = sorted({2 ** k + d for k in range(4, 18) for d in (-1, 0, 1)})


def _backlog_unit(backend: str) -> Partial:
    p = Partial()
    sy = BrokerSys(backend)
    sy.reset()
    b = sy.b
    n = 0
    rp = {"kind": "backlog", "backend": backend}
    for size in BACKLOG_SIZES:
        ids = [f"i{j:06d}" for j in range(n, size)]
        singles = ids[: min(8, len(ids))]
        for x in singles:
            b.route_invocation(x)
        if ids[len(singles):]:
            b.route_invocations(ids[len(singles):])
        n = size
        p.count("backlog_lengths")
        p.count("transitions", len(singles) + 2)
        c = b.count_invocations()
        if c != n:
            p.violation({"clause": "backlog:count-differs-from-routed-minus-retrieved", "backend": backend, "length": size},
                        {"routed": n, "retrieved": 0, "count": c}, rp)
            return p
    k = n if backend == env.MEM else 64
    got = [b.retrieve_invocation() for _ in range(k)]
    got = [None if g is None else str(g) for g in got]
    p.count("transitions", k + 1)
    want = [f"i{j:06d}" for j in range(k)]
    if got != want:
        first = next(i for i, (g, w) in enumerate(zip(got, want)) if g != w)
        p.violation({"clause": "backlog:retrieval-not-first-in-first-out", "backend": backend, "length": n},
                    {"position": first, "got": got[first], "expected": want[first]}, rp)
        return p
    c = b.count_invocations()
    if c != n - k:
        p.violation({"clause": "backlog:count-differs-from-routed-minus-retrieved", "backend": backend, "length": n},
                    {"routed": n, "retrieved": k, "count": c}, rp)
    return p


def build(desc: dict) -> Scn:
    return Scn(desc)


def run(ctx: Ctx) -> None:
    depth = 8 if ctx.thorough else 6
    part = par.pmap(_hist_unit, [depth])[0] if False else _hist_unit(depth)
    ctx.merge(part)
    if not getattr(ctx, "only", None) or "backlog" in ctx.only:
        for part in par.pmap(_backlog_unit, list(env.BACKENDS)):
            ctx.merge(part)
    ds = []
    for prog, acts in PROGRAMS.items():
        for q in QUEUES:
            if q == "[]" and "route" not in prog and "batch" not in prog:
                continue
            three = len(acts) == 3
            bound = (2 if three else 3) if ctx.thorough else (1 if three else 2)
            ds.append(dict(prog=prog, queue=q, bound=bound))
            # the same programs on the in-memory broker (threads sharing one broker object)
            ds.append(dict(prog=prog, queue=q, bound=bound, backend=env.MEM))
    if getattr(ctx, "only", None):
        ds = [d for d in ds if ctx.only in e1.desc_key(d)]
    e1.explore_all(ctx, MOD, ds, lambda d: d["bound"])
    ctx.rule = (f"histories: BFS to depth {depth} over route/batch/retrieve/count/purge with ids {{a,b}} on both brokers vs a "
                "deque (result, count read-out and stored order compared after every operation); schedules: every "
                "schedule with <= bound deviations of 2-3 actors (SQLite: one app object each, SQL-statement points; memory: one shared broker, source-line points), each checked for "
                "linearizability against the deque by brute force over the orders of the overlapping calls")
    ctx.rule += (f"; long backlogs: one growing history per broker through the {len(BACKLOG_SIZES)} queue lengths 2^k-1, 2^k, 2^k+1 "
                 "(k = 4..17), count compared at each, then drained (memory: completely, SQLite: the first 64) in first-in-first-out order")
    ctx.assume("julianday('now') ordering column is real (non-decreasing) time; ties are broken by rowid")
    ctx.assume("in-memory broker schedules (threads sharing one broker object, a point at every line of mem_broker) go beyond the quantifier text, which names the SQLite broker only; same programs, same oracle")


def replay(payload: dict) -> bool:
    r = payload["replay"]
    if r.get("kind") == "schedule":
        return e1.replay_schedule(r)
    if r.get("kind") == "backlog":
        return bool(_backlog_unit(r["backend"]).violations)
    p = Partial()
    impls = [BrokerSys(env.MEM), BrokerSys(env.SQLITE)]
    model = DequeModel()
    for s in impls + [model]:
        s.reset()
    bad = False
    for op in r["history"]:
        op = tuple(tuple(x) if isinstance(x, list) else x for x in op)
        res = [s.apply(op) for s in impls + [model]]
        if any(x != res[-1] for x in res) or any(s.dump() != model.dump() for s in impls):
            bad = True
    return bad
