"""C04 — recovery re-queues stuck PENDING/RUNNING work and never steals live work.

E2: BFS over histories of polls, starts, finishes, heartbeats (own and parent-reported),
    clock advances (dyadic values hitting the limits exactly) and the two real recovery task
    bodies, on both backends, against a reference model of (pending-since, last heartbeat).
    The two recovery scans are part of the read-out of *every* state.
E1: a recovery run interleaved with an owner that starts a listed invocation between the
    scan and the transition (2 listed invocations), pending and running recovery.
"""

from __future__ import annotations

from typing import Any

from vf import bfs, dumps, e1, env, par, sched, tasks, worlds
from vf.report import Ctx, Partial
from vf.worlds import World, runner_ctx

MOD = "vf.props.c04"
U = 2.0 ** -6  # clock unit (15625 us: exact both as a double and as a datetime); every operation takes one unit

CONFIGS = [
    dict(L=0.5, Tmin=1.0 / 64),  # max_pending_seconds, runner_considered_dead_after_minutes (-> 0.9375 s)
    dict(L=2.0, Tmin=1.0 / 64),
    dict(L=0.5, Tmin=1.0 / 16),  # 3.75 s
    dict(L=2.0, Tmin=1.0 / 16),
]


def alphabet(cfg: dict) -> list[tuple]:
    L, T = cfg["L"], cfg["Tmin"] * 60
    return [("poll", "c1"), ("poll", "r2"), ("start", 0), ("start", 1), ("finish", 0), ("hb", "c1"), ("hb", "r2"),
            ("own_hb", "c1"), ("parent_report",), ("adv", L - 3 * U), ("adv", T - 3 * U), ("adv", U), ("recP",), ("recR",)]


# every operation takes one clock unit, so after `poll; adv(L-3u)` the age is L-u, one more operation
# makes it exactly L (recoverable, inclusive) — and after `hb; adv(T-3u)` the heartbeat age is T-u, then
# T (still fresh), then T+u (stale): both sides of both boundaries are states of the search
SEEDS = {
    "running-own-heartbeat": [("poll", "c1"), ("start", 0), ("hb", "c1")],
    "running-parent-report": [("poll", "c1"), ("start", 0), ("parent_report",)],
    # the child's own heartbeat as a runner sends it (should_run_atomic_service registers it as eligible for the
    # global services), later kept alive only by its parent's reports
    "running-own-atomic-heartbeat": [("poll", "c1"), ("start", 0), ("own_hb", "c1")],
    "two-held": [("poll", "c1"), ("poll", "r2"), ("start", 0)],
    # one live runner holds both: one RUNNING, one still PENDING (busy runner): recovering the aged PENDING one must
    # not make the RUNNING one look abandoned
    "one-runner-holds-both": [("poll", "c1"), ("poll", "c1"), ("start", 0), ("hb", "c1")],
}


class Impl(bfs.System):
    def __init__(self, backend: str, cfg: dict) -> None:
        self.backend = backend
        self.name = backend
        self.cfg = cfg

    def reset(self) -> None:
        env.reset_world()
        cfg = self.cfg
        conf = dict(max_pending_seconds=cfg["L"], runner_considered_dead_after_minutes=cfg["Tmin"])
        if self.backend == env.MEM:
            self.app = env.make_app(env.MEM, app_id="c04", **conf)
        else:
            self.app = env.make_app(env.SQLITE, app_id="c04", db=env.reuse_db("c04"), **conf)
        self.task = tasks.bind(self.app, tasks.keyed)
        env.CLOCK.frozen = True
        self.ren = dumps.Renamer()
        for a in (0, 1):
            self.ren.see(self.task(a, 0).invocation_id)
            env.CLOCK.now += U
        from pynenc.runner.thread_runner import ThreadRunner

        class Parent(ThreadRunner):
            def get_active_child_runner_ids(self) -> list[str]:
                return ["c1"]

        keep = self.app._runner_instance
        self.parent = Parent(self.app, runner_context=runner_ctx("p1"))
        self.app._runner_instance = keep
        self.now = env.CLOCK.now  # every implementation lives on its own time line (the clock is global)

    def _clock(self) -> None:
        env.CLOCK.frozen = True
        env.CLOCK.now = self.now

    def _id(self, idx: int) -> str:
        return self.ren.ids[idx]

    def _rec(self, idx: int) -> tuple:
        r = self.app.orchestrator.get_invocation_status_record(self._id(idx))
        return (r.status.name, r.runner_id)

    def apply(self, op: tuple) -> Any:
        from pynenc import context, core_tasks
        from pynenc.invocation.status import InvocationStatus as S

        orch = self.app.orchestrator
        kind = op[0]
        self._clock()
        try:
            if kind == "poll":
                got = list(orch.get_invocations_to_run(1, runner_ctx(op[1])))
                res: Any = ("got", tuple(self.ren(i.invocation_id) for i in got))
            elif kind == "start":
                st, owner = self._rec(op[1])
                if st != "PENDING":
                    res = ("n/a",)
                else:
                    orch.set_invocation_status(self._id(op[1]), S.RUNNING, runner_ctx(owner))
                    res = ("ok",)
            elif kind == "finish":
                st, owner = self._rec(op[1])
                if st != "RUNNING":
                    res = ("n/a",)
                else:
                    orch.set_invocation_status(self._id(op[1]), S.SUCCESS, runner_ctx(owner))
                    res = ("ok",)
            elif kind == "hb":
                orch.register_runner_heartbeats([op[1]])
                res = ("ok",)
            elif kind == "own_hb":
                orch.should_run_atomic_service(runner_ctx(op[1]))  # what BaseRunner._check_atomic_services calls
                res = ("ok",)
            elif kind == "parent_report":
                self.parent._report_child_runner_heartbeats()
                res = ("ok",)
            elif kind == "adv":
                env.CLOCK.now += op[1]
                res = ("ok",)
            elif kind in ("recP", "recR"):
                context.set_current_app(self.app)
                context.set_runner_context(self.app.app_id, runner_ctx("rrec"))
                fn = core_tasks.recover_pending_invocations if kind == "recP" else core_tasks.recover_running_invocations
                fn.func()
                res = ("ok",)
            else:
                raise ValueError(op)
        except Exception as e:  # noqa: BLE001
            res = ("raise", type(e).__name__)
        env.CLOCK.now += U
        self.now = env.CLOCK.now
        return res

    def dump(self) -> Any:
        self._clock()
        self.app.state_backend.wait_for_all_async_operations()
        o = dumps.orchestrator(self.app, self.backend, self.ren, with_time_rank=False)
        orch = self.app.orchestrator
        ages = []
        for i in range(2):
            r = orch.get_invocation_status_record(self._id(i))
            ages.append(round(env.CLOCK.now - r.timestamp.timestamp(), 6) if r.status.name in ("PENDING", "RUNNING") else None)
        hb = tuple(sorted((a.runner_id, round(env.CLOCK.now - a.last_heartbeat.timestamp(), 6))
                          for a in orch._get_active_runners(1e9, None)))
        return (o[0], dumps.queue(self.app, self.backend, self.ren), tuple(ages), hb)

    def readout(self) -> Any:
        self._clock()
        orch = self.app.orchestrator
        return (("records", tuple(self._rec(i) for i in range(2))),
                ("queue", dumps.queue(self.app, self.backend, self.ren)),
                ("pending_scan", tuple(sorted(self.ren(i) for i in orch.get_pending_invocations_for_recovery()))),
                ("running_scan", tuple(sorted(self.ren(i) for i in orch.get_running_invocations_for_recovery()))),
                ("history_len", tuple(len(self.app.state_backend.get_history(self._id(i))) for i in range(2))))


class Model(bfs.System):
    name = "model"

    def __init__(self, cfg: dict) -> None:
        self.L = cfg["L"]
        self.T = cfg["Tmin"] * 60

    def reset(self) -> None:
        self.now = 0.0
        self.inv = []
        self.q = []
        self.hb: dict = {}
        for i in (0, 1):
            self.inv.append(["REGISTERED", "<client>", self.now, 1])
            self.q.append(i)
            self.now += U

    def apply(self, op: tuple) -> Any:
        kind = op[0]
        res: Any = ("ok",)
        if kind == "poll":
            got = []
            while self.q and not got:
                i = self.q.pop(0)
                if self.inv[i][0] in ("REGISTERED", "REROUTED", "RETRY"):
                    self.inv[i] = ["PENDING", op[1], self.now, self.inv[i][3] + 1]
                    got.append(i)
            res = ("got", tuple(got))
        elif kind == "start":
            v = self.inv[op[1]]
            if v[0] != "PENDING":
                res = ("n/a",)
            else:
                self.inv[op[1]] = ["RUNNING", v[1], self.now, v[3] + 1]
        elif kind == "finish":
            v = self.inv[op[1]]
            if v[0] != "RUNNING":
                res = ("n/a",)
            else:
                self.inv[op[1]] = ["SUCCESS", None, self.now, v[3] + 1]
        elif kind in ("hb", "own_hb"):
            self.hb[op[1]] = self.now
        elif kind == "parent_report":
            self.hb["c1"] = self.now
        elif kind == "adv":
            self.now += op[1]
        elif kind == "recP":
            for i in self.pending_scan():
                self.inv[i] = ["REROUTED", None, self.now, self.inv[i][3] + 2]
                self.q.append(i)
        elif kind == "recR":
            for i in self.running_scan():
                self.inv[i] = ["REROUTED", None, self.now, self.inv[i][3] + 2]
                self.q.append(i)
        self.now += U
        return res

    def pending_scan(self) -> list:
        return [i for i, v in enumerate(self.inv) if v[0] == "PENDING" and self.now - v[2] >= self.L]

    def running_scan(self) -> list:
        out = []
        for i, v in enumerate(self.inv):
            if v[0] == "RUNNING":
                h = self.hb.get(v[1])
                if h is None or self.now - h > self.T:
                    out.append(i)
        return out

    def dump(self) -> Any:
        return (tuple(tuple(v[:3]) for v in self.inv), tuple(self.q), tuple(sorted(self.hb.items())), self.now)

    def readout(self) -> Any:
        recs = tuple((v[0], v[1] if v[1] != "<client>" else None) for v in self.inv)
        return (("records", recs), ("queue", tuple(self.q)), ("pending_scan", tuple(self.pending_scan())),
                ("running_scan", tuple(self.running_scan())), ("history_len", tuple(v[3] for v in self.inv)))


def _norm_readout(o: Any) -> Any:
    return o


class ImplN(Impl):
    def readout(self) -> Any:
        out = dict(super().readout())
        # the registering client's id is host/pid dependent: REGISTERED records carry it, normalise to None
        out["records"] = tuple((s, None if (r or "").startswith("ExternalRunner@") else r) for s, r in out["records"])
        return tuple(out.items())


def _hist_unit(item: tuple) -> Partial:
    ci, first, depth = item
    cfg = CONFIGS[ci]
    if isinstance(first, str):
        init = list(SEEDS[first])
        depth = depth  # continuation depth from the seeded state
    else:
        init = [first] if first else []
        depth = depth - 1
    p = Partial()
    impls = [ImplN(env.MEM, cfg), ImplN(env.SQLITE, cfg)]
    model = Model(cfg)
    ops = alphabet(cfg)
    try:
        st = bfs.explore(p, impls, model, lambda h: ops, depth, tag=f"L={cfg['L']}/T={cfg['Tmin'] * 60}",
                         init_history=init)
    finally:
        env.CLOCK.frozen = False
    p.count("bfs_states", st["states"])
    p.max("depth_completed", st["depth"] + len(init))
    p.count("traces_validated_against_impl", st["transitions"])
    return p


# ---------------------------------------------------------------------------
# E1: recovery run vs an owner that is still making progress
# ---------------------------------------------------------------------------
class Scn:
    def __init__(self, desc: dict) -> None:
        self.desc = desc
        self.points = (worlds.MEM_FILES, "line") if desc["backend"] == env.MEM else None

    @staticmethod
    def logical_windows(ex: sched.Execution) -> list[str]:
        return worlds.logical_windows(ex)

    def execute(self, choices: list[int], expect: Any) -> sched.Execution:
        from pynenc.invocation.status import InvocationStatus as S

        d = self.desc
        w = World(d["backend"], 3, app_id="c04s", max_pending_seconds=5.0, runner_considered_dead_after_minutes=1.0)
        w.bind(tasks.keyed)
        t = w.task("keyed", 2)
        o = w.apps[2].orchestrator
        w.ids = [str(t(a, 0).invocation_id) for a in (0, 1)]
        while w.apps[2].broker.retrieve_invocation() is not None:
            pass
        for i in w.ids:
            o.set_invocation_status(i, S.PENDING, runner_ctx("r0"))
            if d["kind"] == "running":
                o.set_invocation_status(i, S.RUNNING, runner_ctx("r0"))
        env.CLOCK.advance(120.0)  # both are stale: PENDING for 2 min / owner never sent a heartbeat
        w.flush()
        w.setup_len = len(w.log)

        def recovery() -> None:
            from pynenc import context, core_tasks

            app = w.apps[0]
            context.set_current_app(app)
            context.set_runner_context(app.app_id, runner_ctx("rrec"))
            fn = core_tasks.recover_pending_invocations if d["kind"] == "pending" else core_tasks.recover_running_invocations
            try:
                fn.func()
            except sched.Abort:
                raise
            except Exception as e:  # noqa: BLE001 - a recovery run may lose a race; what it took must still be re-queued
                w.log.append(("recover-error", worlds._tid(), type(e).__name__, "rrec"))

        def owner() -> None:
            # the owner is alive after all: it moves one listed invocation on
            app = w.apps[1]
            target = w.ids[d["moves"]]
            nxt = S.RUNNING if d["kind"] == "pending" else S.SUCCESS
            try:
                app.orchestrator.set_invocation_status(target, nxt, runner_ctx("r0"))
            except sched.Abort:
                raise
            except Exception as e:  # noqa: BLE001 - losing against recovery is fine
                w.log.append(("owner-refused", worlds._tid(), type(e).__name__, "r0"))

        s = sched.Scheduler(choices, expect, max_points=4000, lazy=("_add_histories",))
        ex = s.run([("recovery", recovery), ("owner", owner)])
        ex.world = w
        return ex

    def digest(self, ex: sched.Execution) -> Any:
        w = ex.world
        return (tuple(w.record(i, -1) for i in w.ids), tuple(x[-2:] for x in w.queue(-1)),
                tuple(sorted((e[0], e[2]) for e in w.log if e[0] in ("recover-error", "owner-refused"))), ex.outcome)

    def check(self, ex: sched.Execution, p: Partial) -> None:
        w, d = ex.world, self.desc
        base = dict(backend=d["backend"], kind=d["kind"], moves=d["moves"])
        if ex.outcome != "done":
            p.violation({"clause": f"no-progress:{ex.outcome}", **base}, {"log": w.log[-10:]}, {})
            return
        q = w.queue(-1)
        taken = {e[2] for e in worlds.successful(w.log[w.setup_len:]) if e[3] in worlds.RECOVERY}
        for i in w.ids:
            st, owner = w.record(i, -1)
            if i in taken:
                if st in worlds.RECOVERY:
                    p.violation({"clause": f"taken-by-recovery-but-left-in:{st}", **base},
                                {"id": i[-2:], "queue": [x[-2:] for x in q],
                                 "errors": [e for e in w.log if e[0] == "recover-error"]}, {})
                    return
                if st == "REROUTED" and q.count(i) != 1:
                    p.violation({"clause": "rerouted-but-not-queued-exactly-once", **base},
                                {"id": i[-2:], "queue": [x[-2:] for x in q]}, {})
                    return
            else:
                # not taken: the owner still holds it (or finished it); recovery must not have touched it
                if st not in ("PENDING", "RUNNING", "SUCCESS") or (st != "SUCCESS" and owner != "r0"):
                    p.violation({"clause": "live-invocation-disturbed", **base}, {"id": i[-2:], "record": [st, owner]}, {})
                    return
                if i in q:
                    p.violation({"clause": "held-invocation-queued", **base}, {"id": i[-2:]}, {})
                    return


def build(desc: dict) -> Scn:
    return Scn(desc)


def run(ctx: Ctx) -> None:
    depth = 5 if ctx.thorough else 4
    cfgs = range(len(CONFIGS)) if ctx.thorough else (0,)
    items = [(ci, first, depth) for ci in cfgs for first in alphabet(CONFIGS[ci])]
    items += [(ci, seed, depth - 1) for ci in cfgs for seed in SEEDS]
    only = getattr(ctx, "only", None)
    if not only or "hist" in only:
        for part in par.pmap(_hist_unit, items):
            ctx.merge(part)
    ds = [dict(backend=b, kind=k, moves=m, bound=3 if ctx.thorough else 2)
          for b in env.BACKENDS for k in ("pending", "running") for m in (0, 1)]
    if only:
        ds = [d for d in ds if only in e1.desc_key(d)]
    e1.explore_all(ctx, MOD, ds, lambda d: d["bound"])
    ctx.rule = (f"histories: BFS to depth {depth} (every first operation explored as its own unit) over poll(c1|r2), start, "
                "finish, heartbeat(c1|r2), parent report, advance(limit/2 - u | timeout/2 | u), recover_pending, "
                "recover_running with a frozen dyadic clock on both backends vs a reference model; both recovery scans are "
                "read out in every state. schedules: a real recovery task body interleaved with the owner moving one of two "
                "listed invocations, all schedules with <= bound deviations")
    ctx.assume("clock values are dyadic so that 'age >= limit' and 'age > timeout' are decided identically by the oracle and the code")
    ctx.assume("the parent report goes through the real BaseRunner._report_child_runner_heartbeats of a stub runner with one live child")


def replay(payload: dict) -> bool:
    r = payload["replay"]
    if r.get("kind") == "schedule":
        return e1.replay_schedule(r)
    tag = r["config"]
    cfg = next(c for c in CONFIGS if f"L={c['L']}/T={c['Tmin'] * 60}" == tag)
    impls = [ImplN(env.MEM, cfg), ImplN(env.SQLITE, cfg)]
    model = Model(cfg)
    bad = False
    try:
        for s in impls + [model]:
            s.reset()
        for op in r["history"]:
            op = tuple(op)
            res = [s.apply(op) for s in impls + [model]]
            outs = [s.readout() for s in impls + [model]]
            if any(x != res[-1] for x in res) or any(o != outs[-1] for o in outs):
                bad = True
    finally:
        env.CLOCK.frozen = False
    return bad
