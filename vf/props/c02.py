"""C02 — an invocation is held by at most one runner at a time under any interleaving.

E1: N pollers (claim via get_invocations_to_run, then run what they got) on one shared
backend; queues with a single id, a duplicated id, two ids, a blocking-priority entry,
and a recovery / kill-and-reroute actor.  Line-level points in the in-memory backends,
SQL-statement points for SQLite (one app object per simulated process).
"""

from __future__ import annotations

from typing import Any

from vf import e1, env, sched, tasks, worlds
from vf.report import Ctx, Partial
from vf.worlds import OWNED, World, runner_ctx

MOD = "vf.props.c02"
KILLISH = {"KILLED", "PENDING_RECOVERY", "RUNNING_RECOVERY"}


def descs(ctx: Ctx) -> list[dict]:
    out = []
    for backend in env.BACKENDS:
        for queue in ("single", "dup", "dup-retry", "two", "blocking", "recovery", "recovery-reclaim", "kill", "foreign-kill", "late-finish"):
            out.append(dict(backend=backend, queue=queue, n=2, k=2 if queue == "two" else 1,
                            bound=1 if queue == "two" or (queue == "dup-retry" and backend == env.SQLITE) else 2))
        out.append(dict(backend=backend, queue="dup", n=3, k=1, bound=1))
        out.append(dict(backend=backend, queue="dup", n=4, k=1, bound=0))
        out.append(dict(backend=backend, queue="two", n=4, k=2, bound=0))
    if ctx.thorough:
        for d in out:
            if d["n"] == 2:
                d["bound"] = 3 if d["queue"] in ("single", "dup") else 2
            elif d["n"] == 3:
                d["bound"] = 2
            elif d["n"] == 4:
                d["bound"] = 1
        for backend in env.BACKENDS:
            out.append(dict(backend=backend, queue="dup3", n=3, k=1, bound=2))
    if getattr(ctx, "only", None):
        out = [d for d in out if ctx.only in e1.desc_key(d)]
    return out


class Scn:
    def __init__(self, desc: dict) -> None:
        self.desc = desc
        self.points = (worlds.MEM_FILES, desc.get("gran", "line")) if desc["backend"] == env.MEM else None

    # ------------------------------------------------------------------
    def execute(self, choices: list[int], expect: Any) -> sched.Execution:
        d = self.desc
        n, k, queue = d["n"], d["k"], d["queue"]
        extra = 1 if queue in ("recovery", "recovery-reclaim", "kill", "foreign-kill", "late-finish") else 0
        w = World(d["backend"], n + extra + 1, app_id="c02", max_pending_seconds=5.0)
        self.w = w
        w.bind(tasks.keyed, **({"max_retries": 2} if queue == "dup-retry" else {}))
        if queue == "dup-retry":
            # the first execution of the body asks for a retry: the invocation is released (RETRY) and queued again
            # while a duplicate message for it is still in the queue
            runs = [0]
            leave = tasks.HOOKS["exit"]

            def body_exit(name: str, args: Any) -> None:
                from pynenc.exceptions import RetryError

                leave(name, args)  # the execution is over (the monitor's overlap rule sees the body left)
                runs[0] += 1
                if runs[0] == 1:
                    raise RetryError("once more")
            tasks.HOOKS["exit"] = body_exit
        client = n + extra  # the last app object is the client / set-up process
        t = w.task("keyed", client)
        ids = []
        i1 = t(1, 0).invocation_id
        ids.append(i1)
        b = w.apps[client].broker
        actors: list[tuple[str, Any]] = []
        if queue in ("dup", "dup-retry"):
            b.route_invocation(i1)
        elif queue == "dup3":
            b.route_invocation(i1)
            b.route_invocation(i1)
        elif queue == "two":
            # second and third invocation through the batch path (parallelize -> route_calls)
            grp = t.parallelize([(2, 0), (3, 0)])
            ids.extend(str(i.invocation_id) for i in grp.invocations)
        elif queue == "blocking":
            waiter = t(9, 9).invocation_id
            # claim the waiter for a runner that is not part of the exploration, then let it wait on i1
            o = w.apps[client].orchestrator
            from pynenc.invocation.status import InvocationStatus as S

            o.set_invocation_status(waiter, S.PENDING, runner_ctx("rw"))
            o.set_invocation_status(waiter, S.RUNNING, runner_ctx("rw"))
            o.waiting_for_results(waiter, [i1])
            # drop the waiter's own queue message: only i1 is queued
            self._drop_from_queue(w, client, waiter)
        elif queue in ("recovery", "recovery-reclaim", "kill", "foreign-kill", "late-finish"):
            # r0 already holds i1 (PENDING); r0 will start it while a third actor recovers / kills it
            from pynenc.invocation.status import InvocationStatus as S

            o = w.apps[client].orchestrator
            self._drop_from_queue(w, client, i1)
            o.set_invocation_status(i1, S.PENDING, runner_ctx("r0"))
            if queue == "late-finish":
                # r0 is RUNNING i1, never sent a heartbeat (slow, presumed dead) and will finish late
                o.set_invocation_status(i1, S.RUNNING, runner_ctx("r0"))
            env.CLOCK.advance(6.0)
        w.ids = ids
        w.flush()
        w.setup_len = len(w.log)

        def poller(j: int) -> Any:
            def f() -> None:
                ctx = runner_ctx(f"r{j}")
                app = w.apps[j]
                got = []
                held_first = queue in ("recovery", "recovery-reclaim", "kill", "foreign-kill") and j == 0
                # recovery-reclaim: r1 only claims (it is busy otherwise): the status passes through PENDING again,
                # under another owner, while r0 may still be inside its own PENDING -> RUNNING change
                claim_only = queue == "recovery-reclaim" and j == 1
                if queue == "late-finish" and j == 0:
                    inv = app.state_backend.get_invocation(i1)
                    try:
                        app.orchestrator.set_invocation_result(inv, 10, ctx)
                    except sched.Abort:
                        raise
                    except Exception as e:  # noqa: BLE001 - the late finisher is expected to be refused
                        w.log.append(("late-finish-refused", worlds._tid(), type(e).__name__, "r0"))
                    return
                rounds = 3 if queue == "dup-retry" else 1
                if held_first:
                    got.append(app.state_backend.get_invocation(i1))
                for _round in range(0 if held_first else rounds):
                    if _round:
                        for inv in got:
                            try:
                                inv.run(ctx)
                            except sched.Abort:
                                raise
                            except Exception as e:  # noqa: BLE001
                                w.log.append(("run-error", worlds._tid(), type(e).__name__, f"r{j}"))
                        got = []
                    try:
                        for inv in app.orchestrator.get_invocations_to_run(k, ctx):
                            w.log.append(("got", worlds._tid(), str(inv.invocation_id), f"r{j}"))
                            got.append(inv)
                    except sched.Abort:
                        raise
                    except Exception as e:  # noqa: BLE001 - a raising poll is "got nothing" here (see DESIGN C02)
                        w.log.append(("poll-error", worlds._tid(), type(e).__name__, f"r{j}"))
                for inv in ([] if claim_only else got):
                    try:
                        inv.run(ctx)
                    except sched.Abort:
                        raise
                    except Exception as e:  # noqa: BLE001
                        w.log.append(("run-error", worlds._tid(), type(e).__name__, f"r{j}"))
                post = getattr(self, "post_actor", None)
                if post is not None:
                    post(j, w, app)
            return f

        for j in range(n):
            actors.append((f"poller{j}", poller(j)))
        if queue in ("recovery", "recovery-reclaim"):
            def recover() -> None:
                from pynenc import context, core_tasks

                app = w.apps[n]
                context.set_current_app(app)
                context.set_runner_context(app.app_id, runner_ctx("rrec"))
                try:
                    core_tasks.recover_pending_invocations.func()
                except sched.Abort:
                    raise
                except Exception as e:  # noqa: BLE001 - C04 judges the recovery run itself
                    w.log.append(("recover-error", worlds._tid(), type(e).__name__, "rrec"))
            actors.append(("recovery", recover))
            if queue == "recovery-reclaim":
                actors.append(actors.pop(1))  # order: r0 (starts what it holds), recovery, r1 (claims)
        if queue in ("kill", "foreign-kill"):
            def kill() -> None:
                from pynenc.runner.thread_runner import ThreadRunner

                app = w.apps[n]
                # kill: the owner's own runner object stops; foreign-kill: another runner tries the same
                who = "r0" if queue == "kill" else "r9"
                r = ThreadRunner(app, runner_context=runner_ctx(who))
                r._kill_and_reroute(i1)
            actors.append(("kill", kill))
        if queue == "late-finish":
            def recover_running() -> None:
                from pynenc import context, core_tasks

                app = w.apps[n]
                context.set_current_app(app)
                context.set_runner_context(app.app_id, runner_ctx("rrec"))
                try:
                    core_tasks.recover_running_invocations.func()
                except sched.Abort:
                    raise
                except Exception as e:  # noqa: BLE001 - C04 judges the recovery run itself
                    w.log.append(("recover-error", worlds._tid(), type(e).__name__, "rrec"))
            actors.insert(0, ("recovery", recover_running))
            actors.append(actors.pop(1))  # order: recovery, poller r1, late finisher r0
        s = sched.Scheduler(choices, expect, max_points=4000, lazy=("_add_histories",))
        ex = s.run(actors)
        ex.world = w
        return ex

    @staticmethod
    def _drop_from_queue(w: World, proc: int, inv_id: str) -> None:
        b = w.apps[proc].broker
        keep = []
        while (x := b.retrieve_invocation()) is not None:
            if str(x) != str(inv_id):
                keep.append(x)
        for x in keep:
            b.route_invocation(x)

    # ------------------------------------------------------------------
    def digest(self, ex: sched.Execution) -> Any:
        w = ex.world
        gots = tuple(sorted((e[3], e[2]) for e in w.log if e[0] == "got"))
        recs = tuple(w.record(i, -1) for i in w.ids)
        oks = tuple((e[2][-4:], e[3], e[4]) for e in sorted(worlds.successful(w.log[w.setup_len:]), key=lambda e: e[6][2]))
        errs = tuple(sorted((e[0], e[2]) for e in w.log if e[0].endswith("-error")))
        return (gots, recs, oks, errs, ex.outcome)

    def check(self, ex: sched.Execution, p: Partial) -> None:
        w = ex.world
        d = self.desc
        base = dict(backend=d["backend"], queue=d["queue"], n=d["n"])
        if ex.outcome != "done":
            p.violation({"clause": f"no-progress:{ex.outcome}", **base}, {"log": w.log[-12:]}, {})
            return
        for inv_id in w.ids:
            evs = [(i, e) for i, e in enumerate(w.log) if e[0] == "tr" and e[2] == inv_id and e[5] == "ok"]
            evs.sort(key=lambda x: x[1][6][2])  # order of the change = timestamp taken inside the critical section
            prev = None
            for idx, e in evs:
                new, requester, rec = e[3], e[4], e[6]
                if prev is not None:
                    pstat, powner = prev[6][0], prev[6][1]
                    if new == "PENDING" and pstat in OWNED:
                        p.violation({"clause": "claimed-twice-without-release", **base},
                                    {"id": inv_id, "first": prev[3:6] + (prev[6],), "second": e[3:6] + (rec,),
                                     "log": [x for x in w.log if x[0] != "ran"][-16:]}, {})
                        return
                    if pstat in ("PENDING", "RUNNING") and requester != powner and new not in worlds.RECOVERY:
                        p.violation({"clause": "moved-by-non-owner", **base},
                                    {"id": inv_id, "prev": prev[6], "request": e[3:5]}, {})
                        return
                prev = e
            # final record = last successful change
            final = w.record(inv_id, -1)
            if evs and final != (evs[-1][1][6][0], evs[-1][1][6][1]):
                p.violation({"clause": "stored-record-is-not-the-last-change", **base},
                            {"id": inv_id, "final": final, "last": evs[-1][1][6]}, {})
                return
            # ids handed out: each delivery is backed by its own successful claim of that runner
            for r in {e[3] for e in w.log if e[0] == "got" and e[2] == inv_id}:
                n_got = sum(1 for e in w.log if e[0] == "got" and e[2] == inv_id and e[3] == r)
                n_claim = sum(1 for _, e in evs if e[3] == "PENDING" and e[4] == r)
                if n_got > n_claim:
                    p.violation({"clause": "delivered-without-own-claim", **base},
                                {"id": inv_id, "runner": r, "delivered": n_got, "claims": n_claim}, {})
                    return
            # overlapping bodies
            open_exec: dict[int, int] = {}
            for i, e in enumerate(w.log):
                if e[0] == "enter" and e[2] == inv_id:
                    for tid, i0 in open_exec.items():
                        running = [x for x in w.log[:i0] if x[0] == "tr" and x[1] == tid and x[2] == inv_id
                                   and x[3] == "RUNNING" and x[5] == "ok"]
                        t_run = running[-1][6][2] if running else 0.0
                        killed = [x for x in w.log[:i] if x[0] == "tr" and x[2] == inv_id and x[5] == "ok"
                                  and x[3] in KILLISH and x[6][2] > t_run]
                        if not killed:
                            p.violation({"clause": "body-runs-in-two-workers", **base},
                                        {"id": inv_id, "threads": [tid, e[1]]}, {})
                            return
                    open_exec[e[1]] = i
                elif e[0] == "exit" and e[2] == inv_id:
                    open_exec.pop(e[1], None)
        for e in w.log:
            if e[0] == "poll-error":
                p.count("polls_raising")
                p.notes.append(f"a poll raised {e[2]} (treated as 'got nothing', not part of this property)") \
                    if f"a poll raised {e[2]} (treated as 'got nothing', not part of this property)" not in p.notes else None


def build(desc: dict) -> Scn:
    return Scn(desc)


def run(ctx: Ctx) -> None:
    ds = descs(ctx)
    e1.explore_all(ctx, MOD, ds, lambda d: d["bound"])
    ctx.rule = ("all schedules with at most `bound` deviations from the default scheduler (see extra.bounds) of N pollers "
                "(+ recovery / kill actor) over queues single|dup|two|blocking|recovery|kill; memory: a scheduling point at "
                "every source line of mem_orchestrator/mem_broker/mem_state_backend; SQLite: at every SQL statement and "
                "commit, one app object per simulated process; states = distinct end observations per scenario")
    ctx.assume("code outside the monitored files touches only thread-local data between two backend calls")
    ctx.assume("priority-randomised schedules for N up to 4 are replaced by exhaustive bounds (N=3: 1, N=4: 0 deviations in quick)")
    ctx.assume("SQLite's own transaction atomicity is trusted; the 30 s busy handler is emulated by blocking the thread")


def replay(payload: dict) -> bool:
    return e1.replay_schedule(payload["replay"])
