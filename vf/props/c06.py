"""C06 — running concurrency control: never two RUNNING invocations with the same key.

E2 (histories): per mode x reroute option, BFS over {submit (single call), batch submit
    (parallelize -> route_calls), poll(r), start(r), finish(r), fail-retriable(r), kill-reroute(r)}
    on both backends; a started body is parked inside the task function (real thread + handshake)
    so that RUNNING is an observable state of the sequential history.
E1 (schedules): two pollers+workers racing for two same-key / different-key invocations.
Oracle (property level): per key <= 1 RUNNING at every state / instant; a poll never raises; an
invocation that a poll took from the queue and did not hand out is CONCURRENCY_CONTROLLED_FINAL
(reroute off) or back in the queue in an available status (reroute on); an invocation without a
same-key PENDING/RUNNING peer is never blocked.
"""

from __future__ import annotations

import threading as _threading
from typing import Any

from vf import bfs, dumps, e1, env, par, sched, tasks, worlds
from vf.report import Ctx, Partial
from vf.worlds import AVAILABLE, World, runner_ctx

MOD = "vf.props.c06"

MODES = {
    "TASK": dict(mode="TASK", keys=()),
    "ARGUMENTS": dict(mode="ARGUMENTS", keys=()),
    "KEYS": dict(mode="KEYS", keys=("a",)),
    # the two options configured differently on one task: registration by key, running by all arguments (and the
    # reverse, thorough tier): the running check must still find its peers (seed c06e)
    "ARGUMENTS+regKEYS": dict(mode="ARGUMENTS", keys=("a",), reg="KEYS"),
    "KEYS+regARGUMENTS": dict(mode="KEYS", keys=("a",), reg="ARGUMENTS"),
}
THOROUGH_ONLY_MODES = ("KEYS+regARGUMENTS",)


def key_of(mode: str, a: int, b: int) -> Any:
    mode = MODES[mode]["mode"]
    if mode == "TASK":
        return ()
    if mode == "ARGUMENTS":
        return (a, b)
    return (a,)


def task_options(mode: str, reroute: bool, retries: int = 2) -> dict:
    from pynenc.conf.config_task import ConcurrencyControlType as CC

    m = MODES[mode]
    opts: dict = dict(running_concurrency=CC[m["mode"]], reroute_on_concurrency_control=reroute, max_retries=retries)
    if m["keys"]:
        opts["key_arguments"] = m["keys"]
    if m.get("reg"):
        opts["registration_concurrency"] = CC[m["reg"]]
    return opts


# ---------------------------------------------------------------------------
# E2: histories with parked bodies
# ---------------------------------------------------------------------------
class Parked:
    """A task body parked inside a real thread until the history finishes / fails it."""

    def __init__(self) -> None:
        self.entered = _threading.Event()
        self.go = _threading.Event()
        self.action = "return"
        self.thread: Any = None
        self.done = _threading.Event()


class Impl(bfs.System):
    def __init__(self, backend: str, mode: str, reroute: bool) -> None:
        self.backend = backend
        self.name = backend
        self.mode = mode
        self.reroute = reroute
        self.parks: list[Parked] = []

    def reset(self) -> None:
        self._release_all()
        env.reset_world()
        tasks.HOOKS.clear()
        if self.backend == env.MEM:
            self.app = env.make_app(env.MEM, app_id="c06")
        else:
            self.app = env.make_app(env.SQLITE, app_id="c06", db=env.reuse_db("c06"))
        self.task = tasks.bind(self.app, tasks.keyed, **task_options(self.mode, self.reroute))
        self.ren = dumps.Renamer()
        self.claimed: dict[str, list] = {"r1": [], "r2": []}
        self.running: dict[str, list] = {"r1": [], "r2": []}
        self.parks = []
        self.args: dict[int, tuple] = {}
        self.poll_errors = 0
        tasks.HOOKS["point"] = self._park

    def _release_all(self) -> None:
        for pk in self.parks:
            pk.action = "return"
            pk.go.set()
        for pk in self.parks:
            if pk.thread is not None:
                pk.thread.join(5)
        self.parks = []

    def _park(self, name: str, args: Any) -> None:
        pk = getattr(_threading.current_thread(), "vf_park", None)
        if pk is None:
            return
        pk.entered.set()
        pk.go.wait(20)
        if pk.action == "retry":
            from pynenc.exceptions import RetryError

            raise RetryError("again")

    def _see(self, inv: Any) -> int:
        idx = self.ren.see(inv.invocation_id)
        kw = inv.arguments.kwargs
        self.args[idx] = (kw["a"], kw["b"])
        return idx

    def status_of(self, idx: int) -> str:
        return self.app.orchestrator.get_invocation_status(self.ren.ids[idx]).name

    # -- operations ------------------------------------------------------
    def apply(self, op: tuple) -> Any:
        kind = op[0]
        if kind == "submit":
            try:
                inv = self.task(op[1], op[2])
            except Exception as e:  # noqa: BLE001
                return ("raise", type(e).__name__)
            return ("new", self._see(inv))
        if kind == "batch":
            try:
                grp = self.task.parallelize([tuple(x) for x in op[1]])
                ids = [self._see(i) for i in grp.invocations]
            except Exception as e:  # noqa: BLE001
                return ("raise", type(e).__name__)
            return ("new", tuple(ids))
        if kind == "waitall":
            # somebody (an invocation of another task, running elsewhere) waits for everything submitted so far that
            # is not final: those invocations are now claimed through the blocking-priority path of the poll
            ids = [i for n, i in enumerate(self.ren.ids) if self.status_of(n) not in ("SUCCESS", "FAILED", "CONCURRENCY_CONTROLLED_FINAL")]
            if not ids:
                return ("nothing",)
            self.app.orchestrator.waiting_for_results("waiter-of-another-task", ids)
            return ("waiting", len(ids))
        if kind == "poll":
            r = op[1]
            before_q = dumps.queue(self.app, self.backend, self.ren)
            peers = self._peers()
            try:
                got = list(self.app.orchestrator.get_invocations_to_run(op[2] if len(op) > 2 else 1, runner_ctx(r)))
            except Exception as e:  # noqa: BLE001
                self.poll_errors += 1
                what = type(e).__name__
                if hasattr(e, "from_status") and hasattr(e, "to_status"):
                    what += f":{getattr(e.from_status, 'name', e.from_status)}->{getattr(e.to_status, 'name', e.to_status)}"
                self.last_poll = dict(raised=what, before_q=before_q, peers=peers)
                return ("raise", what)
            self.claimed[r].extend(got)
            ids = tuple(self.ren(i.invocation_id) for i in got)
            self.last_poll = dict(raised=None, before_q=before_q, peers=peers, got=ids)
            return ("got", ids)
        if kind == "start":
            r = op[1]
            if not self.claimed[r]:
                return ("nothing",)
            inv = self.claimed[r].pop(0)
            pk = Parked()

            def body() -> None:
                _threading.current_thread().vf_park = pk  # type: ignore[attr-defined]
                try:
                    inv.run(runner_ctx(r))
                except Exception:  # noqa: BLE001 - run() re-raises body exceptions after recording them
                    pass
                finally:
                    pk.done.set()

            pk.thread = sched._real_Thread(target=body, daemon=True)
            pk.thread.start()
            while not (pk.entered.is_set() or pk.done.is_set()):
                pk.entered.wait(0.0005)
            self.parks.append(pk)
            idx = self.ren(inv.invocation_id)
            if pk.entered.is_set() and not pk.done.is_set():
                self.running[r].append((idx, pk))
                return ("running", idx)
            return ("not-started", idx, self.status_of(idx))
        if kind in ("finish", "fail"):
            r = op[1]
            if not self.running[r]:
                return ("nothing",)
            idx, pk = self.running[r].pop(0)
            pk.action = "return" if kind == "finish" else "retry"
            pk.go.set()
            pk.done.wait(20)
            pk.thread.join(5)
            return ("ended", idx, self.status_of(idx))
        if kind == "kill":
            r = op[1]
            if not self.running[r]:
                return ("nothing",)
            idx, pk = self.running[r][0]
            from pynenc.runner.thread_runner import ThreadRunner

            keep = self.app._runner_instance
            rr = ThreadRunner(self.app, runner_context=runner_ctx(r))
            rr._kill_and_reroute(self.ren.ids[idx])
            self.app._runner_instance = keep
            return ("killed", idx, self.status_of(idx))
        raise ValueError(op)

    def _peers(self) -> dict:
        """key -> indices currently PENDING or RUNNING (read from the real state)."""
        out: dict = {}
        for idx in range(len(self.ren.ids)):
            if self.status_of(idx) in ("PENDING", "RUNNING"):
                out.setdefault(key_of(self.mode, *self.args[idx]), []).append(idx)
        return out

    def dump(self) -> Any:
        self.app.state_backend.wait_for_all_async_operations()
        o = dumps.orchestrator(self.app, self.backend, self.ren, with_time_rank=False)
        parked = tuple(sorted((r, tuple(i for i, _ in v)) for r, v in self.running.items()))
        claimed = tuple(sorted((r, tuple(self.ren(i.invocation_id) for i in v)) for r, v in self.claimed.items()))
        return (o[0], o[1], o[3], dumps.queue(self.app, self.backend, self.ren), parked, claimed)

    def readout(self) -> Any:
        sts = tuple(self.status_of(i) for i in range(len(self.ren.ids)))
        return (("statuses", sts), ("queue", dumps.queue(self.app, self.backend, self.ren)),
                ("retries", tuple(self.app.orchestrator.get_invocation_retries(i) for i in self.ren.ids)))

    # -- property-level invariant -------------------------------------------
    def judge(self, hist: list) -> str | None:
        op = hist[-1]
        running: dict = {}
        for idx in range(len(self.ren.ids)):
            if self.status_of(idx) == "RUNNING":
                running.setdefault(key_of(self.mode, *self.args[idx]), []).append(idx)
        for k, ids in running.items():
            if len(ids) > 1:
                paths = sorted({self._path(hist, i) for i in ids})
                return f"two-running-same-key:{'+'.join(paths)}"
        if op[0] == "poll":
            lp = self.last_poll
            if not lp["raised"]:
                keys = [key_of(self.mode, *self.args[idx]) for idx in lp["got"]]
                if len(set(keys)) < len(keys):
                    return "one-poll-handed-out-two-invocations-of-one-key"
            if lp["raised"]:
                head = lp["before_q"][0] if lp["before_q"] else None
                return f"poll-raised:{lp['raised']}"
            for idx in lp["got"]:
                k = key_of(self.mode, *self.args[idx])
                if [j for j in lp["peers"].get(k, []) if j != idx]:
                    return "handed-out-despite-same-key-pending-or-running-peer"
            after_q = dumps.queue(self.app, self.backend, self.ren)
            taken = list(lp["before_q"])
            for x in after_q:
                if x in taken:
                    taken.remove(x)
            for idx in taken:
                if idx in lp["got"] or not isinstance(idx, int):
                    continue
                st = self.status_of(idx)
                if st in ("PENDING", "RUNNING", "SUCCESS", "FAILED", "KILLED") and idx not in lp["got"]:
                    continue  # a stale message for work that is already held or done
                k = key_of(self.mode, *self.args[idx])
                blockers = [j for j in lp["peers"].get(k, []) if j != idx] + \
                    [j for j in lp["got"] if j != idx and key_of(self.mode, *self.args[j]) == k]
                if not blockers:
                    return "blocked-without-same-key-peer"
                if not self.reroute and st != "CONCURRENCY_CONTROLLED_FINAL":
                    return f"blocked-not-final:{st}"
                if self.reroute and st not in AVAILABLE:
                    return f"blocked-not-requeued:{st}"
            if self.reroute:
                for idx in set(x for x in lp["before_q"] if isinstance(x, int)):
                    if idx not in lp["got"] and self.status_of(idx) in AVAILABLE and idx not in after_q:
                        return "available-invocation-left-the-queue"
        return None

    @staticmethod
    def _path(hist: list, idx: int) -> str:
        """submission path of invocation idx (single / batch) reconstructed from the history."""
        n = 0
        for op in hist:
            if op[0] == "submit":
                if n == idx:
                    return "single"
                n += 1
            elif op[0] == "batch":
                if n <= idx < n + len(op[1]):
                    return "batch"
                n += len(op[1])
        return "?"


def alphabet(thorough: bool) -> list[tuple]:
    ops = [("submit", 0, 0), ("submit", 0, 1), ("batch", ((0, 0), (0, 0))), ("batch", ((0, 0), (1, 0))),
           ("poll", "r1"), ("poll", "r2"), ("start", "r1"), ("start", "r2"), ("finish", "r1"), ("fail", "r1"),
           ("kill", "r1")]
    if thorough:
        ops += [("submit", 1, 0), ("finish", "r2"), ("fail", "r2"), ("poll", "r1", 2), ("waitall",)]
    return ops


SEEDS = {
    "empty": [],
    "one-running-one-queued": [("submit", 0, 0), ("submit", 0, 0), ("poll", "r1"), ("start", "r1")],
    "batch-one-running": [("batch", ((0, 0), (0, 0))), ("poll", "r1"), ("start", "r1")],
    "retry-behind-pending": [("submit", 0, 0), ("submit", 0, 0), ("poll", "r1"), ("start", "r1"), ("fail", "r1"),
                             ("poll", "r2")],
    "rerouted-behind-pending": [("submit", 0, 0), ("submit", 0, 0), ("poll", "r1"), ("start", "r1"), ("kill", "r1"),
                                ("poll", "r2")],
    "two-pending-diff-args": [("submit", 0, 0), ("submit", 0, 1), ("poll", "r1"), ("poll", "r2")],
    # a poll with two free slots over two same-key invocations: from the queue, and both waited on (blocking path)
    "two-queued-same-key": [("submit", 0, 0), ("submit", 0, 0)],
    "two-waited-on-same-key": [("submit", 0, 0), ("submit", 0, 0), ("waitall",)],
}
SEED_EXTRA_OPS = {"two-queued-same-key": [("poll", "r1", 2), ("poll", "r2", 2)],
                  "two-waited-on-same-key": [("poll", "r1", 2), ("poll", "r2", 2), ("waitall",)]}


def _hist_unit(item: tuple) -> Partial:
    mode, reroute, seed, depth, thorough = item
    p = Partial()
    impls = [Impl(env.MEM, mode, reroute), Impl(env.SQLITE, mode, reroute)]
    ops = alphabet(thorough)
    ops = ops + [o for o in SEED_EXTRA_OPS.get(seed, []) if o not in ops]

    def inv(s: bfs.System, hist: list) -> str | None:
        return s.judge(hist)  # type: ignore[attr-defined]

    tag = f"{mode}/{'reroute' if reroute else 'final'}"
    try:
        st = bfs.explore(p, impls, None, lambda h: ops, depth, tag=tag, invariant=inv,
                         init_history=list(SEEDS[seed]))
    finally:
        for s in impls:
            s._release_all()
    p.count("bfs_states", st["states"])
    p.max("depth_completed", st["depth"])
    p.count("traces_validated_against_impl", st["transitions"])
    return p


# ---------------------------------------------------------------------------
# E1: two pollers + workers
# ---------------------------------------------------------------------------
class Scn:
    def __init__(self, desc: dict) -> None:
        self.desc = desc
        self.points = (worlds.MEM_FILES, "line") if desc["backend"] == env.MEM else None

    def execute(self, choices: list[int], expect: Any) -> sched.Execution:
        d = self.desc
        w = World(d["backend"], 3, app_id="c06s")
        self.w = w
        w.bind(tasks.keyed, **task_options(d["mode"], d["reroute"]))
        t = w.task("keyed", 2)
        subs = {"same": [(0, 0), (0, 0)], "diff": [(0, 0), (1, 1)], "samekey": [(0, 0), (0, 1)],
                "held": [(0, 0), (0, 0)]}[d["subs"]]
        w.ids = [str(t(a, b).invocation_id) for a, b in subs]
        w.args = {i: ab for i, ab in zip(w.ids, subs)}
        held = d["subs"] == "held"
        if held:
            # both same-key invocations are already PENDING, one per runner (the state the claim race
            # between two pollers produces); reached here through the public status-setting call
            from pynenc.invocation.status import InvocationStatus as S

            while w.apps[2].broker.retrieve_invocation() is not None:
                pass
            for j, i in enumerate(w.ids):
                w.apps[2].orchestrator.set_invocation_status(i, S.PENDING, runner_ctx(f"r{j}"))
        w.flush()
        w.setup_len = len(w.log)

        def actor(j: int) -> Any:
            def f() -> None:
                ctx = runner_ctx(f"r{j}")
                app = w.apps[j]
                for _round in range(3 if held else 2):
                    try:
                        if held and _round == 0:
                            got = [app.state_backend.get_invocation(w.ids[j])]
                        else:
                            got = list(app.orchestrator.get_invocations_to_run(1, ctx))
                    except sched.Abort:
                        raise
                    except Exception as e:  # noqa: BLE001
                        what = type(e).__name__
                        if hasattr(e, "from_status") and hasattr(e, "to_status"):
                            what += f":{getattr(e.from_status, 'name', e.from_status)}->{getattr(e.to_status, 'name', e.to_status)}"
                        w.log.append(("poll-error", worlds._tid(), what, f"r{j}"))
                        got = []
                    for inv in got:
                        try:
                            inv.run(ctx)
                        except sched.Abort:
                            raise
                        except Exception as e:  # noqa: BLE001
                            w.log.append(("run-error", worlds._tid(), type(e).__name__, f"r{j}"))
            return f

        s = sched.Scheduler(choices, expect, max_points=6000, lazy=("_add_histories",))
        w.flags = []
        probe = self._running_probe(w)

        def at_point() -> None:
            if w.flags:
                return
            run = probe()
            keys: dict = {}
            for i in run:
                if i in w.args:
                    keys.setdefault(key_of(d["mode"], *w.args[i]), []).append(i)
            for k, ids in keys.items():
                if len(ids) > 1:
                    w.flags.append(("two-running-same-key", sorted(x[-2:] for x in ids), len(s.trace)))

        s.on_point = at_point
        ex = s.run([(f"w{j}", actor(j)) for j in range(2)])
        ex.world = w
        return ex

    @staticmethod
    def _classify_double_running(w: World) -> str | None:
        """Both same-key invocations became RUNNING. If the second runner's authorisation lookup
        (same key RUNNING?) completed before the first one's RUNNING transition did, the cause is the
        non-atomic check-then-act between lookup and transition; otherwise the lookup itself missed a
        visible RUNNING invocation (no classification: reported with its windows)."""
        runs = [e for e in w.log if e[0] == "tr" and e[5] == "ok" and e[3] == "RUNNING" and e[2] in w.args]
        if len(runs) < 2:
            return None
        runs.sort(key=lambda e: e[7])
        first, second = runs[0], runs[1]
        looks = [o for o in w.ops if o[0] == second[1] and o[2] == "lookup[RUNNING]" and o[1] <= second[7]]
        if not looks:
            return None
        if looks[-1][3] <= first[7]:  # the lookup had started before the first RUNNING was complete
            return "authorisation-lookup-not-atomic-with-running-transition"
        return None

    @staticmethod
    def _running_probe(w: World) -> Any:
        """Returns a function reading the ids that are RUNNING in the *visible* concrete state."""
        orch = w.apps[-1].orchestrator
        if w.backend == env.MEM:
            recs = orch.invocation_status_record
            return lambda: [str(i) for i, r in list(recs.items()) if r.status.name == "RUNNING"]
        import sqlite3

        conn = sqlite3.connect(orch.sqlite_db_path, timeout=0.0, check_same_thread=False, isolation_level=None)
        w._probe_conn = conn
        sql = f"SELECT invocation_id FROM {orch.tables.INVOCATIONS} WHERE status = 'running'"
        return lambda: [r[0] for r in conn.execute(sql).fetchall()]

    @staticmethod
    def logical_windows(ex: sched.Execution) -> list[str]:
        return worlds.logical_windows(ex)

    def digest(self, ex: sched.Execution) -> Any:
        w = ex.world
        recs = tuple(w.record(i, -1) for i in w.ids)
        errs = tuple(sorted((e[0], e[2]) for e in w.log if e[0].endswith("-error")))
        ran = tuple(sorted(e[2][-2:] for e in w.log if e[0] == "enter"))
        return (recs, errs, ran, tuple(x[-2:] for x in w.queue(-1)), ex.outcome)

    def check(self, ex: sched.Execution, p: Partial) -> None:
        w, d = ex.world, self.desc
        base = dict(backend=d["backend"], mode=d["mode"], reroute=d["reroute"], subs=d["subs"])
        if ex.outcome != "done":
            p.violation({"clause": f"no-progress:{ex.outcome}", **base}, {"log": w.log[-12:]}, {})
            return
        for e in w.log:
            if e[0] == "poll-error":
                # which blocked status has no edge is what identifies this failure, not the schedule that
                # brought the invocation there
                p.violation({"clause": f"poll-raised:{e[2]}", "backend": d["backend"], "mode": d["mode"],
                             "reroute": d["reroute"], "_no_windows": True},
                            {"subs": d["subs"], "log": [x for x in w.log if x[0] != "ran"][-14:]}, {})
                return
        # the invariant was evaluated on the visible concrete state at every scheduling point
        if w.flags:
            oks = sorted(worlds.successful(w.log), key=lambda e: e[6][2])
            detail = {"ids": w.flags[0][1], "at_point": w.flags[0][2], "subs": d["subs"],
                      "changes": [(x[2][-2:], x[3], x[4]) for x in oks]}
            cause = self._classify_double_running(w)
            if cause is not None:
                # schedule-independent identity: which read was stale when the second one started
                p.violation({"clause": "two-running-same-key", "cause": cause, "backend": d["backend"],
                             "mode": d["mode"], "_no_windows": True}, detail, {})
            else:
                p.violation({"clause": "two-running-same-key", **base}, detail, {})
            return
        # end state: every invocation final, or available and queued (reroute on)
        q = w.queue(-1)
        for inv in w.ids:
            st = w.record(inv, -1)[0]
            if st in worlds.FINAL:
                continue
            if d["reroute"] and st in AVAILABLE and inv in q:
                continue
            p.violation({"clause": f"blocked-invocation-stranded:{st}", **base},
                        {"id": inv[-2:], "queue": [x[-2:] for x in q]}, {})
            return
        if len({key_of(d["mode"], *ab) for ab in w.args.values()}) == len(w.args):  # all keys different
            bodies = {e[2] for e in w.log if e[0] == "enter"}
            if bodies != set(w.ids):
                p.violation({"clause": "different-keys-blocked-each-other", **base},
                            {"ran": sorted(x[-2:] for x in bodies)}, {})


class PurgeScn:
    """The retention purge of a finished same-key invocation (auto_purge, as the monitor triggers it) runs
    concurrently with a new submission of that key; afterwards (sequentially) the new invocation is started and a
    third one with the same key is submitted and polled: it must be held back."""

    def __init__(self, desc: dict) -> None:
        self.desc = desc
        self.points = (worlds.MEM_FILES, "line") if desc["backend"] == env.MEM else None

    def execute(self, choices: list[int], expect: Any) -> sched.Execution:
        from pynenc.invocation.status import InvocationStatus as S

        d = self.desc
        w = World(d["backend"], 3, app_id="c06p", auto_final_invocation_purge_hours=0.0)
        w.bind(tasks.keyed, **task_options(d["mode"], False))
        t = w.task("keyed", 2)
        first = t(0, 0)
        for inv in w.apps[2].orchestrator.get_invocations_to_run(1, runner_ctx("r9")):
            inv.run(runner_ctx("r9"))
        w.ids = [str(first.invocation_id)]
        w.flush()
        made: list = []

        def purger() -> None:
            w.apps[0].orchestrator.auto_purge()

        def submitter() -> None:
            made.append(str(w.task("keyed", 1)(0, 0).invocation_id))

        s = sched.Scheduler(choices, expect, max_points=6000, lazy=("_add_histories",))
        ex = s.run([("purger", purger), ("submitter", submitter)])
        ex.world = w
        ep: dict = {"second": made[0] if made else None}
        if made and ex.outcome == "done":
            o = w.apps[2].orchestrator
            got = [str(i.invocation_id) for i in o.get_invocations_to_run(1, runner_ctx("r1"))]
            ep["claimed_by_r1"] = got
            if got == made:
                o.set_invocation_status(made[0], S.RUNNING, runner_ctx("r1"))
                third = str(t(0, 0).invocation_id)
                ep["third"] = third
                try:
                    ep["claimed_by_r2"] = [str(i.invocation_id) for i in o.get_invocations_to_run(1, runner_ctx("r2"))]
                except Exception as e:  # noqa: BLE001
                    ep["claimed_by_r2"] = f"raise:{type(e).__name__}"
                ep["third_status"] = o.get_invocation_status(third).name
        ex.epilogue = ep
        return ex

    def digest(self, ex: sched.Execution) -> Any:
        ep = ex.epilogue
        return (ep.get("claimed_by_r1") == [ep.get("second")], bool(ep.get("claimed_by_r2")), ep.get("third_status"), ex.outcome)

    def check(self, ex: sched.Execution, p: Partial) -> None:
        d, ep = self.desc, ex.epilogue
        base = dict(backend=d["backend"], mode=d["mode"], subs="purge-race")
        if ex.outcome != "done":
            p.violation({"clause": f"no-progress:{ex.outcome}", **base}, {}, {})
            return
        if ep.get("claimed_by_r1") != [ep.get("second")]:
            p.violation({"clause": "new-submission-not-claimable-after-purge", **base}, {"epilogue": ep}, {})
            return
        if ep.get("claimed_by_r2") or ep.get("third_status") != "CONCURRENCY_CONTROLLED_FINAL":
            p.violation({"clause": "handed-out-despite-same-key-running-peer", **base}, {"epilogue": ep}, {})


def build(desc: dict) -> Any:
    return PurgeScn(desc) if desc.get("subs") == "purge-race" else Scn(desc)


def run(ctx: Ctx) -> None:
    depth = 5 if ctx.thorough else 4
    items = [(m, rr, seed, (depth if seed == "empty" else depth - 2), ctx.thorough)
             for m in MODES if (ctx.thorough or m not in THOROUGH_ONLY_MODES)
             for rr in (False, True) for seed in SEEDS]
    if not getattr(ctx, "only", None) or "hist" in ctx.only:
        for part in par.pmap(_hist_unit, items):
            ctx.merge(part)
    ds = []
    for backend in env.BACKENDS:
        for mode in ("TASK", "ARGUMENTS", "KEYS"):
            for rr in (False, True):
                for subs in ("same", "diff", "samekey", "held"):
                    if mode == "ARGUMENTS" and subs == "samekey":
                        continue
                    if subs == "held" and not rr:
                        # with reroute off the re-queued (REROUTED) loser hits the recorded missing-edge
                        # finding (REROUTED -> CONCURRENCY_CONTROLLED_FINAL) on every path: covered by the
                        # history part; the schedule part uses reroute on
                        continue
                    if not ctx.thorough and mode == "TASK" and subs == "samekey":
                        continue
                    ds.append(dict(backend=backend, mode=mode, reroute=rr, subs=subs,
                                   bound=2 if (ctx.thorough and subs in ("same", "held")) else 1))
    for backend in env.BACKENDS:
        for mode in ("ARGUMENTS", "KEYS"):
            ds.append(dict(backend=backend, mode=mode, reroute=False, subs="purge-race", bound=2 if ctx.thorough else 1))
    if getattr(ctx, "only", None):
        ds = [d for d in ds if ctx.only in e1.desc_key(d)]
    e1.explore_all(ctx, MOD, ds, lambda d: d["bound"])
    ctx.extra["seed_histories"] = {k: len(v) for k, v in SEEDS.items()}
    ctx.rule = (f"histories: per (mode incl. tasks whose registration option uses a different key than the running option, reroute option) BFS to depth {depth} from the empty history and to depth "
                f"{depth - 2} from {len(SEEDS) - 1} seeded non-initial states (extra.seed_histories) over single submit / batch submit / poll(r) / "
                "start(r) / finish / fail-retriable / kill-reroute with parked task bodies on both backends (results and "
                "read-outs compared between backends, invariant and poll post-conditions evaluated on the real state); "
                "schedules: two poller+worker actors over two same-key / different-key invocations, all schedules with "
                "<= bound deviations (line points in memory, SQL-statement points in SQLite); plus the retention purge of a finished "
                "same-key invocation against a concurrent submission of that key, then (sequentially) start + third submission + poll")
    ctx.assume("trigger-launched submissions take the same route_call path as single calls and are not enumerated separately")
    ctx.assume("history writers run last in the schedule part (explored in C10)")


def replay(payload: dict) -> bool:
    r = payload["replay"]
    if r.get("kind") == "schedule":
        return e1.replay_schedule(r)
    mode, rr = r["config"].split("/")
    impls = [Impl(env.MEM, mode, rr == "reroute"), Impl(env.SQLITE, mode, rr == "reroute")]
    bad = False
    try:
        for s in impls:
            s.reset()
        hist = []
        for op in r["history"]:
            op = tuple(tuple(tuple(y) if isinstance(y, list) else y for y in x) if isinstance(x, list) else x for x in op)
            hist.append(op)
            res = [s.apply(op) for s in impls]
            if res[0] != res[1]:
                bad = True
            for s in impls:
                if s.judge(hist):
                    bad = True
    finally:
        for s in impls:
            s._release_all()
    return bad
