"""C13 (cron part) — a cron tick becomes exactly one occurrence and launches its task exactly once.

PART 1 (pure, E3/BFS)  the real CronCondition.is_satisfied_by with a real CronContext, driven the way
        BaseTrigger._should_trigger_cron_condition drives it (last execution only moves when the poll
        fired), over every reachable (poll time, last firing) pair of a BFS whose edges are the poll
        gaps; compared with an independent brute-force evaluator of the five cron fields.
PART 2 (store, E2)     one cron-triggered task registered through the public decorator path on the
        in-memory and the SQLite trigger store; poll = trigger_loop_iteration() at frozen instants;
        SQLite: two app objects ("runners") on one file, either may poll, either may restart
        (new app object that registers its triggers again); launched invocations per poll == the
        evaluator's prediction.
PART 3 (schedules, E1) two concurrent trigger_loop_iteration() of one cron condition inside a window:
        first-ever firing and a later firing; same instant (frozen clock) and 1 us apart.
All times are UTC.  The oracle never imports croniter or pynenc's cron code.
"""

from __future__ import annotations

import calendar
import contextlib
import copy
import time as _time
from datetime import UTC, datetime
from typing import Any

from vf import e1, env, par, sched, tasks
from vf.report import Ctx, Partial

MOD = "vf.props.c13_cron"
PART = "cron"


# ---------------------------------------------------------------------------
# independent evaluator: own parser of the five fields, brute force on minutes (UTC)
# ---------------------------------------------------------------------------
_RANGES = ((0, 59), (0, 23), (1, 31), (1, 12), (0, 7))


def _parse_field(text: str, lo: int, hi: int) -> frozenset:
    out: set[int] = set()
    for item in text.split(","):
        step, stepped = 1, "/" in item
        if stepped:
            item, s = item.split("/")
            step = int(s)
        if item == "*":
            a, b = lo, hi
        elif "-" in item:
            x, y = item.split("-")
            a, b = int(x), int(y)
        else:
            a = int(item)
            b = hi if stepped else a  # `a/n` = from a to the end of the range in steps of n
        if not (lo <= a <= hi and lo <= b <= hi and a <= b and step >= 1):
            raise ValueError(f"field {text!r} out of range")
        out.update(range(a, b + 1, step))
    return frozenset(out)


class Schedule:
    """minute hour day-of-month month day-of-week; `*`, `*/n`, `a`, `a-b`, `a-b/n`, lists.
    Day rule of cron: when both day fields are restricted, either may match."""

    def __init__(self, expr: str) -> None:
        f = expr.split()
        if len(f) != 5:
            raise ValueError(expr)
        self.minute, self.hour, self.dom, self.month, dow = (
            _parse_field(t, lo, hi) for t, (lo, hi) in zip(f, _RANGES)
        )
        self.dow = frozenset(d % 7 for d in dow)  # 0 and 7 are Sunday
        self.dom_any = f[2].startswith("*")
        self.dow_any = f[4].startswith("*")

    def matches(self, epoch_minute: int) -> bool:
        tm = _time.gmtime(epoch_minute)
        if tm.tm_min not in self.minute or tm.tm_hour not in self.hour or tm.tm_mon not in self.month:
            return False
        dom_ok = tm.tm_mday in self.dom
        dow_ok = ((tm.tm_wday + 1) % 7) in self.dow  # gmtime: Monday = 0; cron: Sunday = 0
        if self.dom_any and self.dow_any:
            return True
        if self.dom_any:
            return dow_ok
        if self.dow_any:
            return dom_ok
        return dom_ok or dow_ok

    def minutes(self, lo: int, hi: int) -> list[int]:
        """All scheduled minute starts m (epoch seconds) with lo <= m <= hi."""
        first = lo - lo % 60
        if first < lo:
            first += 60
        return [m for m in range(first, hi + 1, 60) if self.matches(m)]


LOOKBACK = 3600  # a tick older than this is far outside every window (max 120 s)


class Oracle:
    """Decision of the property for one poll at second `t` (offset from t0) with the previous
    firing at `last` (offset or None).  A poll is attributed to the latest scheduled minute <= t."""

    def __init__(self, expr: str, t0: int, horizon: int, window: int, min_interval: int,
                 strict: bool, tolerance: int) -> None:
        self.sched = [m - t0 for m in Schedule(expr).minutes(t0 - LOOKBACK, t0 + horizon)]
        self.window = window
        self.limit = min(window, tolerance) if strict else window
        self.min_interval = min_interval
        self.strict = strict
        self._latest: dict[int, int | None] = {}

    def latest(self, t: int) -> int | None:
        if t not in self._latest:
            c = [m for m in self.sched if m <= t]
            self._latest[t] = c[-1] if c else None
        return self._latest[t]

    def facts(self, t: int, last: int | None) -> tuple:
        m = self.latest(t)
        in_window = m is not None and 0 <= t - m <= self.limit
        fresh = m is not None and (last is None or last < m)
        old_enough = last is None or t - last >= self.min_interval
        return m, in_window, fresh, old_enough

    def judge(self, t: int, last: int | None, fired: bool) -> tuple[str, dict] | None:
        """None = this poll is as the property says; else (clause, facts)."""
        m, in_window, fresh, old_enough = self.facts(t, last)
        info = {"t": t, "last": last, "latest_scheduled": m,
                "offset": None if m is None else t - m, "limit": self.limit}
        if fired:
            if not in_window:
                return "fires-outside-window", info
            if not fresh:
                return "scheduled-minute-fires-twice", info
            if not old_enough:
                return "fires-before-min-interval", info
            return None
        if not self.strict and in_window and fresh and old_enough:
            return "due-tick-not-fired", info
        return None

    def expect(self, t: int, last: int | None) -> bool:
        """Complete decision (non-strict timing only)."""
        _, in_window, fresh, old_enough = self.facts(t, last)
        return in_window and fresh and old_enough


def _epoch(y: int, mo: int, d: int, h: int, mi: int) -> int:
    return calendar.timegm((y, mo, d, h, mi, 0))


def _dt(epoch: float) -> datetime:
    return datetime.fromtimestamp(epoch, UTC)


# ---------------------------------------------------------------------------
# PART 1 — pure condition semantics
# ---------------------------------------------------------------------------
# (expression, start of the time line): the first scheduled minute lies 1-2 minutes after the start
EXPRS = [
    ("* * * * *", _epoch(2023, 11, 14, 21, 58)),       # every minute, crosses the hour
    ("*/2 * * * *", _epoch(2023, 11, 14, 21, 57)),
    ("*/5 * * * *", _epoch(2023, 11, 14, 21, 58)),     # 22:00, 22:05, 22:10
    ("1,3 * * * *", _epoch(2023, 11, 14, 21, 59)),     # 22:01, 22:03
    ("10-12 * * * *", _epoch(2023, 11, 14, 22, 8)),    # 22:10, 22:11, 22:12
    ("0 * * * *", _epoch(2023, 11, 14, 21, 58)),       # 22:00
]
EXPRS_THOROUGH = [
    ("30 2 * * *", _epoch(2023, 11, 14, 2, 28)),       # 02:30
    ("0 */2 * * *", _epoch(2023, 11, 14, 21, 58)),     # 22:00 (even hour)
    ("0 */2 * * *", _epoch(2023, 11, 14, 20, 58)),     # 21:00 is an odd hour: never in the horizon
    ("15 10 * * 1", _epoch(2023, 11, 13, 10, 13)),     # a Monday: 10:15
    ("15 10 * * 1", _epoch(2023, 11, 14, 10, 13)),     # a Tuesday: never
    ("0 0 1 * *", _epoch(2023, 11, 30, 23, 58)),       # 1 December 00:00, month rollover
    ("0 0 31 * *", _epoch(2023, 11, 30, 23, 58)),      # November has 30 days: never
    ("0 0 1 1 *", _epoch(2023, 12, 31, 23, 58)),       # year rollover
    ("*/15 9-17 * * 1-5", _epoch(2023, 11, 14, 16, 58)),  # 17:00, 17:15 on a weekday
    ("0 0 13 * 5", _epoch(2023, 11, 16, 23, 58)),      # both day fields: Friday 17 Nov matches (either)
]
WINDOWS = (30, 60, 120)
MIN_INTERVALS = (0, 50, 70)
TIMINGS = ((False, 30), (True, 30), (True, 90))        # (strict_timing, precision_tolerance_seconds)
TIMINGS_THOROUGH = ((False, 30), (True, 10), (True, 30), (True, 90))
GAPS = (1, 10, 29, 30, 31, 49, 50, 51, 59, 60, 61, 90, 300)
GAPS_QUICK = (10, 29, 30, 31, 50, 59, 60, 61, 90, 300)
HORIZON, HORIZON_QUICK = 900, 480


@contextlib.contextmanager
def _expression_parse_memo():
    """croniter re-parses the expression text on every construction (3-4 times per evaluation, 75 % of
    the time).  The parse is a pure function of the text: memoised here (deep copies handed out)."""
    from croniter import croniter as C

    orig = C.__dict__["_expand"]
    fn = orig.__func__
    cache: dict = {}

    def memo(cls, expr_format, hash_id=None, second_at_beginning=False, from_timestamp=None,
             strict=False, strict_year=None):
        if hash_id is not None or from_timestamp is not None:
            return fn(cls, expr_format, hash_id, second_at_beginning, from_timestamp, strict, strict_year)
        key = (cls, expr_format, second_at_beginning, strict, strict_year)
        if key not in cache:
            cache[key] = fn(cls, expr_format, hash_id, second_at_beginning, from_timestamp, strict, strict_year)
        return copy.deepcopy(cache[key])

    C._expand = classmethod(memo)
    try:
        yield
    finally:
        C._expand = orig


def _pure_cfg_key(cfg: dict) -> str:
    return (f"{cfg['expr']}@{cfg['t0']}/w{cfg['window']}/i{cfg['min_interval']}/"
            f"{'strict' + str(cfg['tolerance']) if cfg['strict'] else 'lenient'}")


def _pure_signature(clause: str, cfg: dict, info: dict) -> dict:
    """Identity of a pure-part violation.  One cause is recognised (and named) independently of the
    expression: a poll anywhere inside the scheduled minute is treated as offset 0."""
    off = info.get("offset")
    if clause == "fires-outside-window" and off is not None and info["limit"] < off < 60:
        return {"clause": clause, "part": "pure", "cause": "offset-inside-the-scheduled-minute-counts-as-0",
                "strict": cfg["strict"], "limit": info["limit"]}
    return {"clause": clause, "part": "pure", "expr": cfg["expr"], "window": cfg["window"],
            "min_interval": cfg["min_interval"], "strict": cfg["strict"], "tolerance": cfg["tolerance"]}


def _condition(cfg: dict) -> Any:
    from pynenc.trigger.conditions.cron import CronCondition

    return CronCondition(cfg["expr"], check_window_seconds=cfg["window"],
                         min_interval_seconds=cfg["min_interval"],
                         precision_tolerance_seconds=cfg["tolerance"], strict_timing=cfg["strict"])


def _poll(cond: Any, t0: int, t: int, last: int | None) -> bool:
    """One evaluation exactly as BaseTrigger._should_trigger_cron_condition does it."""
    from pynenc.trigger.conditions.cron import CronContext

    if last is None:
        ctx = CronContext(timestamp=_dt(t0 + t))
    else:
        ctx = CronContext(timestamp=_dt(t0 + t), last_execution=_dt(t0 + last))
    return bool(cond.is_satisfied_by(ctx))


SELF_CHECK = 40  # evaluations per configuration repeated without the parse memo


def _pure_unit(cfg: dict) -> Partial:
    p = Partial()
    cond = _condition(cfg)
    t0, horizon, gaps = cfg["t0"], cfg["horizon"], cfg["gaps"]
    orc = Oracle(cfg["expr"], t0, horizon, cfg["window"], cfg["min_interval"], cfg["strict"], cfg["tolerance"])
    start = (0, None)
    parent: dict[tuple, tuple | None] = {start: None}
    polls: dict[tuple, bool] = {}
    frontier = [start]
    reported: set[str] = set()
    fires = 0
    deepest = start
    with _expression_parse_memo():
        while frontier:
            nxt = []
            for st in frontier:
                now, last = st
                for g in gaps:
                    t = now + g
                    if t > horizon:
                        continue
                    p.count("bfs_edges")
                    key = (t, last)
                    fired = polls.get(key)
                    if fired is None:
                        fired = polls[key] = _poll(cond, t0, t, last)
                        p.count("transitions")
                        p.count("traces_validated_against_impl")
                        fires += fired
                        bad = orc.judge(t, last, fired)
                        if bad is not None:
                            clause, info = bad
                            sig = _pure_signature(clause, cfg, info)
                            k = repr(sorted(sig.items()))
                            if k not in reported:
                                reported.add(k)
                                path = _path(parent, st) + [g]
                                p.violation(sig, {**info, "config": _pure_cfg_key(cfg), "fired": fired,
                                                  "t_utc": _dt(t0 + t).isoformat(),
                                                  "poll_gaps_from_start": path},
                                            {"kind": "pure", "part": PART, "cfg": cfg, "t": t, "last": last})
                    new = (t, t if fired else last)
                    if new not in parent:
                        parent[new] = (st, g)
                        nxt.append(new)
                        deepest = new
            frontier = nxt
    # the memo is a harness device: a slice of the evaluations is repeated on the unmodified library
    for (t, last), fired in list(polls.items())[:: max(1, len(polls) // SELF_CHECK)]:
        if _poll(cond, t0, t, last) != fired:
            raise sched.HarnessError(f"parse memo changed an evaluation: {cfg} t={t} last={last}")
        p.count("memo_self_checks")
    p.count("bfs_states", len(parent))
    p.count("fires_observed", fires)
    p.add("pure_configs", _pure_cfg_key(cfg))
    if fires:
        p.add("pure_configs_with_fires", _pure_cfg_key(cfg))
    if cfg.get("sample"):
        seq, now, last = [], 0, None
        for g in _path(parent, deepest):
            now += g
            f = polls[(now, last)]
            seq.append([_dt(t0 + now).strftime("%H:%M:%S"), "FIRE" if f else "-"])
            last = now if f else last
        p.sample({"part": "pure", "config": _pure_cfg_key(cfg), "a_longest_poll_sequence": seq[:40],
                  "states": len(parent)})
    return p


def _path(parent: dict, st: tuple) -> list[int]:
    out = []
    while parent[st] is not None:
        st, g = parent[st]
        out.append(g)
    return out[::-1]


def _pure_items(ctx: Ctx) -> list[dict]:
    exprs = EXPRS + (EXPRS_THOROUGH if ctx.thorough else [])
    timings = TIMINGS_THOROUGH if ctx.thorough else TIMINGS
    items = []
    for expr, t0 in exprs:
        for wi, w in enumerate(WINDOWS):
            for ii, mi in enumerate(MIN_INTERVALS):
                for ti, (strict, tol) in enumerate(timings):
                    if not ctx.thorough and ti != (wi + ii) % 3:
                        # quick: orthogonal array L9 of window x interval x timing (every pair of
                        # settings occurs, 9 of the 27 triples); thorough: the full product
                        continue
                    items.append(dict(expr=expr, t0=t0, window=w, min_interval=mi, strict=strict, tolerance=tol,
                                      horizon=HORIZON if ctx.thorough else HORIZON_QUICK,
                                      gaps=list(GAPS if ctx.thorough else GAPS_QUICK)))
    for i, it in enumerate(items):
        it["sample"] = (it["expr"], it["window"], it["min_interval"], it["strict"]) == ("*/2 * * * *", 60, 50, False)
    return items


def _replay_pure(r: dict) -> bool:
    cfg = r["cfg"]
    orc = Oracle(cfg["expr"], cfg["t0"], cfg["horizon"], cfg["window"], cfg["min_interval"], cfg["strict"],
                 cfg["tolerance"])
    fired = _poll(_condition(cfg), cfg["t0"], r["t"], r["last"])
    bad = orc.judge(r["t"], r["last"], fired)
    if bad:
        print("  replayed:", _pure_signature(bad[0], cfg, bad[1]), bad[1])
    return bad is not None


# ---------------------------------------------------------------------------
# PART 2 — through the trigger component and its stores
# ---------------------------------------------------------------------------
APP_ID = "c13cron"
STORE_T0 = env.EPOCH0 - 60          # 22:13:00 UTC; */2 is scheduled at +60, +180, +300, +420
STORE_GAPS = (10, 30, 60, 61, 120)
STORE_HORIZON = 480
# builder: "on_cron" = the public helper (default window 60 / interval 50 / lenient);
# "custom" = TriggerBuilder().add_condition(CronCondition(...)) with the given settings
STORE_CFGS = {
    "every2-default": dict(expr="*/2 * * * *", builder="on_cron", window=60, min_interval=50, strict=False, tolerance=30),
    "every1-default": dict(expr="* * * * *", builder="on_cron", window=60, min_interval=50, strict=False, tolerance=30),
    "every2-w120-i0": dict(expr="*/2 * * * *", builder="custom", window=120, min_interval=0, strict=False, tolerance=30),
    "list-w60-i70": dict(expr="14,15,17 * * * *", builder="custom", window=60, min_interval=70, strict=False, tolerance=30),
}


def _builder(cfg: dict) -> Any:
    from pynenc.trigger.trigger_builder import TriggerBuilder, on_cron

    if cfg["builder"] == "on_cron":
        return on_cron(cfg["expr"])
    return TriggerBuilder().add_condition(_condition(cfg))


def _runner_app(backend: str, cfg: dict, db: str | None) -> tuple:
    """What a starting runner does: app object, task decorated with its trigger, deferred registration."""
    from vf import tasks_c13_cron as T

    app = env.make_app(backend, app_id=APP_ID, db=db)
    task = tasks.bind(app, T.cron_job, triggers=[_builder(cfg)])
    app.register_deferred_triggers()
    return app, task


class StoreWorld:
    def __init__(self, backend: str, cfg: dict) -> None:
        env.reset_world(STORE_T0)
        env.CLOCK.frozen = True
        self.backend, self.cfg = backend, cfg
        self.db = env.reuse_db(APP_ID) if backend == env.SQLITE else None
        n = 1 if backend == env.MEM else 2
        pairs = [_runner_app(backend, cfg, self.db) for _ in range(n)]
        self.apps = [a for a, _ in pairs]
        self.task = pairs[0][1]
        self.cond_id = f"cron_{cfg['expr']}"
        self.now = 0
        self.model_last: int | None = None   # last firing the evaluator knows of (follows the implementation
        self.fired_ever = False               # after a reported, classified violation: see _store_unit)
        self.orc = Oracle(cfg["expr"], int(STORE_T0), STORE_HORIZON, cfg["window"], cfg["min_interval"],
                          cfg["strict"], cfg["tolerance"])

    def launched(self) -> int:
        return len(list(self.apps[0].orchestrator.get_task_invocation_ids(self.task.task_id)))

    def apply(self, op: tuple, observe: bool = True) -> tuple:
        """-> (observed launches, predicted launches, stored last execution before the operation)."""
        env.CLOCK.frozen = True
        if op[0] == "restart":
            env.CLOCK.now = STORE_T0 + self.now
            before = self.launched()
            self.apps[op[1]], _ = _runner_app(self.backend, self.cfg, self.db)
            return self.launched() - before, 0, None
        _, gap, k = op
        self.now += gap
        env.CLOCK.now = STORE_T0 + self.now
        stored_before = self.stored_last() if observe else None
        before = self.launched()
        self.apps[k].trigger.trigger_loop_iteration()
        observed = self.launched() - before
        predicted = 1 if self.orc.expect(self.now, self.model_last) else 0
        if observed:  # the evaluator's "previous firing" is what really happened (also after a violation)
            self.model_last = self.now
            self.fired_ever = True
        return observed, predicted, stored_before

    def _off(self, d: Any) -> Any:
        return None if d is None else round(d.timestamp() - STORE_T0, 6)

    def stored_last(self) -> Any:
        return self._off(self.apps[0].trigger.get_last_cron_execution(self.cond_id))

    def dump(self) -> tuple:
        """Concrete state that can influence a later poll (claims are keyed by the poll instant, which
        never recurs; launched invocations are compared per operation)."""
        caches = tuple(self._off(a.trigger._last_cron_execution_cache.get(self.cond_id)) for a in self.apps)
        pending = tuple(sorted(self.apps[0].trigger.get_valid_conditions()))
        return (self.now, self.stored_last(), caches, pending, self.model_last)


def _store_alphabet(backend: str, hist: list, now: int, restarts: int, cfg: dict) -> list[tuple]:
    ops: list[tuple] = []
    if backend == env.MEM or not hist:
        pollers: tuple = (0,)  # the two runners are built alike: the first poll is runner 0's (symmetry)
    elif cfg["pollers"] == "alternate":
        pollers = (sum(1 for h in hist if h[0] == "poll") % 2,)
    else:
        pollers = (0, 1)
    for g in cfg["gaps"]:
        if now + g <= STORE_HORIZON:
            ops.extend(("poll", g, k) for k in pollers)
    if backend == env.SQLITE and restarts < cfg["max_restarts"] and hist and hist[-1][0] != "restart":
        ops.append(("restart", 1))
    return ops


def _store_violation(w: StoreWorld, op: tuple, observed: int, predicted: int, stored_before: Any,
                     fired_before: bool) -> tuple:
    """-> (signature, detail, classified).  Two causes are recognised by what was stored when the poll began."""
    m = w.orc.latest(w.now)
    if observed > predicted:
        due = m is not None and 0 <= w.now - m <= w.orc.limit
        clause = "scheduled-minute-launched-twice" if due and observed == 1 else (
            "launched-without-a-due-tick" if observed == 1 else f"poll-launched-{observed}")
    else:
        clause = "due-tick-not-launched"
    sig = {"clause": clause, "part": "store", "backend": w.backend, "config": w.cfg["name"], "op": op[0]}
    classified = False
    if observed == 1 and predicted == 0 and op[0] == "poll" and stored_before is None:
        classified = True
        cause = ("stored-last-execution-erased-by-a-restarting-runner's-registration" if fired_before
                 else "nothing-stored-yet:schedule-not-evaluated")
        sig = {"clause": clause, "part": "store", "backend": w.backend, "cause": cause}
    return sig, {"observed_launches": observed, "predicted": predicted, "now": w.now,
                 "now_utc": _dt(STORE_T0 + w.now).isoformat(), "latest_scheduled": m,
                 "evaluator_last_firing": w.model_last, "stored_last_before_poll": stored_before,
                 "config": w.cfg}, classified


def _store_unit(item: tuple) -> Partial:
    backend, name, tier_cfg = item
    cfg = dict(STORE_CFGS[name], name=name, **tier_cfg)
    p = Partial()
    try:
        w = StoreWorld(backend, cfg)
        seen = {w.dump()}
        frontier: list[tuple] = [([], 0, 0)]
        reported: set[str] = set()
        longest: list = []
        while frontier:
            nxt = []
            for hist, now, restarts in frontier:
                for op in _store_alphabet(backend, hist, now, restarts, cfg):
                    w = StoreWorld(backend, cfg)
                    for h in hist:
                        w.apply(h, observe=False)
                    fired_before = w.fired_ever
                    observed, predicted, stored_before = w.apply(op)
                    p.count("transitions")
                    p.count("traces_validated_against_impl")
                    p.count("store_polls" if op[0] == "poll" else "store_restarts")
                    p.count("store_launches", observed)
                    if observed != predicted:
                        sig, detail, classified = _store_violation(w, op, observed, predicted, stored_before,
                                                                   fired_before)
                        k = repr(sorted(sig.items()))
                        if k not in reported:
                            reported.add(k)
                            detail["history"] = hist + [op]
                            p.violation(sig, detail, {"kind": "store", "part": PART, "backend": backend,
                                                      "config": name, "tier_cfg": tier_cfg, "history": hist + [op]})
                        p.count("store_polls_violating")
                        if not classified:
                            continue  # only states behind a violation of a recognised cause are expanded
                    d = w.dump()
                    if d not in seen:
                        seen.add(d)
                        nxt.append((hist + [op], w.now, restarts + (op[0] == "restart")))
                        longest = hist + [op]
            frontier = nxt
        p.count("bfs_states", len(seen))
        p.add("store_configs", (backend, name))
        p.sample({"part": "store", "backend": backend, "config": name, "states": len(seen),
                  "a_longest_history": [list(o) for o in longest][:30]})
    finally:
        env.CLOCK.frozen = False
    return p


def _replay_store(r: dict) -> bool:
    cfg = dict(STORE_CFGS[r["config"]], name=r["config"], **r["tier_cfg"])
    bad = False
    try:
        w = StoreWorld(r["backend"], cfg)
        for op in r["history"]:
            fired_before = w.fired_ever
            observed, predicted, stored_before = w.apply(tuple(op))
            if observed != predicted:
                print("  replayed:", _store_violation(w, tuple(op), observed, predicted, stored_before, fired_before)[0])
                bad = True
    finally:
        env.CLOCK.frozen = False
    return bad


# ---------------------------------------------------------------------------
def run_part(ctx: Ctx) -> None:
    only = getattr(ctx, "only", None) or ""
    if not only or "pure" in only:
        items = _pure_items(ctx)
        # largest first (every-minute expressions have the most states)
        order = sorted(range(len(items)), key=lambda i: (items[i]["expr"] != "* * * * *", i))
        rot = ctx.seed % len(order)
        order = order[rot:] + order[:rot]
        for part in par.pmap(_pure_unit, [items[i] for i in order]):
            ctx.merge(part)
    if not only or "store" in only:
        names = list(STORE_CFGS) if ctx.thorough else ["every2-default", "list-w60-i70"]
        tier_cfg = dict(gaps=list(STORE_GAPS), max_restarts=1, pollers="any" if ctx.thorough else "alternate")
        sitems = [(b, n, tier_cfg) for n in names for b in (env.SQLITE, env.MEM)]
        for part in par.pmap(_store_unit, sitems):
            ctx.merge(part)
    ctx.rule = "cron"


def replay_part(payload: dict) -> bool:
    r = payload["replay"]
    if r.get("kind") == "schedule":
        return e1.replay_schedule(r)
    if r.get("kind") == "pure":
        return _replay_pure(r)
    if r.get("kind") == "store":
        return _replay_store(r)
    return False
