"""C13 (cron part) — a cron tick becomes exactly one occurrence and launches its task exactly once.

PART 1 (pure, E3/BFS)  the real CronCondition.is_satisfied_by with a real CronContext, driven the way
        BaseTrigger._should_trigger_cron_condition drives it (last execution only moves when the poll
        fired), over every reachable (poll time, last firing) pair of a BFS whose edges are the poll
        gaps; compared with an independent brute-force evaluator of the five cron fields.
PART 2 (store, E2)     one cron-triggered task registered through the public decorator path on the
        in-memory and the SQLite trigger store; poll = trigger_loop_iteration() at frozen instants;
        SQLite: two app objects ("runners") on one file, either may poll, either may restart
        (new app object that registers its triggers again); launched invocations per poll == the
        evaluator's prediction.
PART 3 (schedules, E1) two concurrent trigger_loop_iteration() of one cron condition inside a window:
        first-ever firing and a later firing; same instant (frozen clock) and 1 us apart.
All times are UTC.  The oracle never imports croniter or pynenc's cron code.
"""

from __future__ import annotations

import calendar
import contextlib
import copy
import time as _time
from datetime import UTC, datetime
from typing import Any

from vf import e1, env, par, sched, tasks
from vf.report import Ctx, Partial

MOD = "vf.props.c13_cron"
PART = "cron"


# ---------------------------------------------------------------------------
# independent evaluator: own parser of the five fields, brute force on minutes (UTC)
# ---------------------------------------------------------------------------
_RANGES = ((0, 59), (0, 23), (1, 31), (1, 12), (0, 7))


def _parse_field(text: str, lo: int, hi: int) -> frozenset:
    out: set[int] = set()
    for item in text.split(","):
        step, stepped = 1, "/" in item
        if stepped:
            item, s = item.split("/")
            step = int(s)
        if item == "*":
            a, b = lo, hi
        elif "-" in item:
            x, y = item.split("-")
            a, b = int(x), int(y)
        else:
            a = int(item)
            b = hi if stepped else a  # `a/n` = from a to the end of the range in steps of n
        if not (lo <= a <= hi and lo <= b <= hi and a <= b and step >= 1):
            raise ValueError(f"field {text!r} out of range")
        out.update(range(a, b + 1, step))
    return frozenset(out)


class Schedule:
    """minute hour day-of-month month day-of-week; `*`, `*/n`, `a`, `a-b`, `a-b/n`, lists.
    Day rule of cron: when both day fields are restricted, either may match."""

    def __init__(self, expr: str) -> None:
        f = expr.split()
        if len(f) != 5:
            raise ValueError(expr)
        self.minute, self.hour, self.dom, self.month, dow = (
            _parse_field(t, lo, hi) for t, (lo, hi) in zip(f, _RANGES)
        )
        self.dow = frozenset(d % 7 for d in dow)  # 0 and 7 are Sunday
        self.dom_any = f[2].startswith("*")
        self.dow_any = f[4].startswith("*")

    def matches(self, epoch_minute: int) -> bool:
        tm = _time.gmtime(epoch_minute)
        if tm.tm_min not in self.minute or tm.tm_hour not in self.hour or tm.tm_mon not in self.month:
            return False
        dom_ok = tm.tm_mday in self.dom
        dow_ok = ((tm.tm_wday + 1) % 7) in self.dow  # gmtime: Monday = 0; cron: Sunday = 0
        if self.dom_any and self.dow_any:
            return True
        if self.dom_any:
            return dow_ok
        if self.dow_any:
            return dom_ok
        return dom_ok or dow_ok

    def minutes(self, lo: int, hi: int) -> list[int]:
        """All scheduled minute starts m (epoch seconds) with lo <= m <= hi."""
        first = lo - lo % 60
        if first < lo:
            first += 60
        return [m for m in range(first, hi + 1, 60) if self.matches(m)]


LOOKBACK = 3600  # a tick older than this is far outside every window (max 120 s)


class Oracle:
    """Decision of the property for one poll at second `t` (offset from t0) with the previous
    firing at `last` (offset or None).  A poll is attributed to the latest scheduled minute <= t."""

    def __init__(self, expr: str, t0: int, horizon: int, window: int, min_interval: int,
                 strict: bool, tolerance: int) -> None:
        self.sched = [m - t0 for m in Schedule(expr).minutes(t0 - LOOKBACK, t0 + horizon)]
        self.window = window
        self.limit = min(window, tolerance) if strict else window
        self.min_interval = min_interval
        self.strict = strict
        self._latest: dict[int, int | None] = {}

    def latest(self, t: int) -> int | None:
        if t not in self._latest:
            c = [m for m in self.sched if m <= t]
            self._latest[t] = c[-1] if c else None
        return self._latest[t]

    def facts(self, t: int, last: int | None) -> tuple:
        m = self.latest(t)
        in_window = m is not None and 0 <= t - m <= self.limit
        fresh = m is not None and (last is None or last < m)
        old_enough = last is None or t - last >= self.min_interval
        return m, in_window, fresh, old_enough

    def judge(self, t: int, last: int | None, fired: bool) -> tuple[str, dict] | None:
        """None = this poll is as the property says; else (clause, facts)."""
        m, in_window, fresh, old_enough = self.facts(t, last)
        info = {"t": t, "last": last, "latest_scheduled": m,
                "offset": None if m is None else t - m, "limit": self.limit}
        if fired:
            if not in_window:
                return "fires-outside-window", info
            if not fresh:
                return "scheduled-minute-fires-twice", info
            if not old_enough:
                return "fires-before-min-interval", info
            return None
        if not self.strict and in_window and fresh and old_enough:
            return "due-tick-not-fired", info
        return None

    def expect(self, t: int, last: int | None) -> bool:
        """Complete decision (non-strict timing only)."""
        _, in_window, fresh, old_enough = self.facts(t, last)
        return in_window and fresh and old_enough


def _epoch(y: int, mo: int, d: int, h: int, mi: int) -> int:
    return calendar.timegm((y, mo, d, h, mi, 0))


def _dt(epoch: float) -> datetime:
    return datetime.fromtimestamp(epoch, UTC)


# ---------------------------------------------------------------------------
# PART 1 — pure condition semantics
# ---------------------------------------------------------------------------
# (expression, start of the time line): the first scheduled minute lies 1-2 minutes after the start
EXPRS = [
    ("* * * * *", _epoch(2023, 11, 14, 21, 58)),       # every minute, crosses the hour
    ("*/2 * * * *", _epoch(2023, 11, 14, 21, 57)),
    ("*/5 * * * *", _epoch(2023, 11, 14, 21, 58)),     # 22:00, 22:05, 22:10
    ("1,3 * * * *", _epoch(2023, 11, 14, 21, 59)),     # 22:01, 22:03
    ("10-12 * * * *", _epoch(2023, 11, 14, 22, 8)),    # 22:10, 22:11, 22:12
    ("0 * * * *", _epoch(2023, 11, 14, 21, 58)),       # 22:00
]
EXPRS_THOROUGH = [
    ("30 2 * * *", _epoch(2023, 11, 14, 2, 28)),       # 02:30
    ("0 */2 * * *", _epoch(2023, 11, 14, 21, 58)),     # 22:00 (even hour)
    ("0 */2 * * *", _epoch(2023, 11, 14, 20, 58)),     # 21:00 is an odd hour: never in the horizon
    ("15 10 * * 1", _epoch(2023, 11, 13, 10, 13)),     # a Monday: 10:15
    ("15 10 * * 1", _epoch(2023, 11, 14, 10, 13)),     # a Tuesday: never
    ("0 0 1 * *", _epoch(2023, 11, 30, 23, 58)),       # 1 December 00:00, month rollover
    ("0 0 31 * *", _epoch(2023, 11, 30, 23, 58)),      # November has 30 days: never
    ("0 0 1 1 *", _epoch(2023, 12, 31, 23, 58)),       # year rollover
    ("*/15 9-17 * * 1-5", _epoch(2023, 11, 14, 16, 58)),  # 17:00, 17:15 on a weekday
    ("0 0 13 * 5", _epoch(2023, 11, 16, 23, 58)),      # both day fields: Friday 17 Nov matches (either)
]
WINDOWS = (30, 60, 120)
MIN_INTERVALS = (0, 50, 70)
TIMINGS = ((False, 30), (True, 30), (True, 90))        # (strict_timing, precision_tolerance_seconds)
TIMINGS_THOROUGH = ((False, 30), (True, 10), (True, 30), (True, 90))
GAPS = (1, 10, 29, 30, 31, 49, 50, 51, 59, 60, 61, 90, 300)
GAPS_QUICK = (10, 29, 30, 31, 50, 59, 60, 61, 90, 300)
HORIZON, HORIZON_QUICK = 900, 480


@contextlib.contextmanager
def _expression_parse_memo():
    """croniter re-parses the expression text on every construction (3-4 times per evaluation, 75 % of
    the time).  The parse is a pure function of the text: memoised here (deep copies handed out)."""
    from croniter import croniter as C

    orig = C.__dict__["_expand"]
    fn = orig.__func__
    cache: dict = {}

    def memo(cls, expr_format, hash_id=None, second_at_beginning=False, from_timestamp=None,
             strict=False, strict_year=None):
        if hash_id is not None or from_timestamp is not None:
            return fn(cls, expr_format, hash_id, second_at_beginning, from_timestamp, strict, strict_year)
        key = (cls, expr_format, second_at_beginning, strict, strict_year)
        if key not in cache:
            cache[key] = fn(cls, expr_format, hash_id, second_at_beginning, from_timestamp, strict, strict_year)
        return copy.deepcopy(cache[key])

    C._expand = classmethod(memo)
    try:
        yield
    finally:
        C._expand = orig


def _pure_cfg_key(cfg: dict) -> str:
    return (f"{cfg['expr']}@{cfg['t0']}/w{cfg['window']}/i{cfg['min_interval']}/"
            f"{'strict' + str(cfg['tolerance']) if cfg['strict'] else 'lenient'}")


def _pure_signature(clause: str, cfg: dict, info: dict) -> dict:
    """Identity of a pure-part violation.  One cause is recognised (and named) independently of the
    expression: a poll anywhere inside the scheduled minute is treated as offset 0."""
    off = info.get("offset")
    if clause == "fires-outside-window" and off is not None and info["limit"] < off < 60:
        return {"clause": clause, "part": "pure", "cause": "offset-inside-the-scheduled-minute-counts-as-0",
                "strict": cfg["strict"], "limit": info["limit"]}
    return {"clause": clause, "part": "pure", "expr": cfg["expr"], "window": cfg["window"],
            "min_interval": cfg["min_interval"], "strict": cfg["strict"], "tolerance": cfg["tolerance"]}


def _condition(cfg: dict) -> Any:
    from pynenc.trigger.conditions.cron import CronCondition

    return CronCondition(cfg["expr"], check_window_seconds=cfg["window"],
                         min_interval_seconds=cfg["min_interval"],
                         precision_tolerance_seconds=cfg["tolerance"], strict_timing=cfg["strict"])


def _poll(cond: Any, t0: int, t: int, last: int | None) -> bool:
    """One evaluation exactly as BaseTrigger._should_trigger_cron_condition does it."""
    from pynenc.trigger.conditions.cron import CronContext

    if last is None:
        ctx = CronContext(timestamp=_dt(t0 + t))
    else:
        ctx = CronContext(timestamp=_dt(t0 + t), last_execution=_dt(t0 + last))
    return bool(cond.is_satisfied_by(ctx))


SELF_CHECK = 40  # evaluations per configuration repeated without the parse memo


def _pure_unit(cfg: dict) -> Partial:
    p = Partial()
    cond = _condition(cfg)
    t0, horizon, gaps = cfg["t0"], cfg["horizon"], cfg["gaps"]
    orc = Oracle(cfg["expr"], t0, horizon, cfg["window"], cfg["min_interval"], cfg["strict"], cfg["tolerance"])
    start = (0, None)
    parent: dict[tuple, tuple | None] = {start: None}
    polls: dict[tuple, bool] = {}
    frontier = [start]
    reported: set[str] = set()
    fires = 0
    deepest = start
    with _expression_parse_memo():
        while frontier:
            nxt = []
            for st in frontier:
                now, last = st
                for g in gaps:
                    t = now + g
                    if t > horizon:
                        continue
                    p.count("bfs_edges")
                    key = (t, last)
                    fired = polls.get(key)
                    if fired is None:
                        fired = polls[key] = _poll(cond, t0, t, last)
                        p.count("transitions")
                        p.count("traces_validated_against_impl")
                        fires += fired
                        bad = orc.judge(t, last, fired)
                        if bad is not None:
                            clause, info = bad
                            sig = _pure_signature(clause, cfg, info)
                            k = repr(sorted(sig.items()))
                            if k not in reported:
                                reported.add(k)
                                path = _path(parent, st) + [g]
                                p.violation(sig, {**info, "config": _pure_cfg_key(cfg), "fired": fired,
                                                  "t_utc": _dt(t0 + t).isoformat(),
                                                  "poll_gaps_from_start": path},
                                            {"kind": "pure", "part": PART, "cfg": cfg, "t": t, "last": last})
                    new = (t, t if fired else last)
                    if new not in parent:
                        parent[new] = (st, g)
                        nxt.append(new)
                        deepest = new
            frontier = nxt
    # the memo is a harness device: a slice of the evaluations is repeated on the unmodified library
    for (t, last), fired in list(polls.items())[:: max(1, len(polls) // SELF_CHECK)]:
        if _poll(cond, t0, t, last) != fired:
            raise sched.HarnessError(f"parse memo changed an evaluation: {cfg} t={t} last={last}")
        p.count("memo_self_checks")
    p.count("bfs_states", len(parent))
    p.count("fires_observed", fires)
    p.add("pure_configs", _pure_cfg_key(cfg))
    if fires:
        p.add("pure_configs_with_fires", _pure_cfg_key(cfg))
    if cfg.get("sample"):
        seq, now, last = [], 0, None
        for g in _path(parent, deepest):
            now += g
            f = polls[(now, last)]
            seq.append([_dt(t0 + now).strftime("%H:%M:%S"), "FIRE" if f else "-"])
            last = now if f else last
        p.sample({"part": "pure", "config": _pure_cfg_key(cfg), "a_longest_poll_sequence": seq[:40],
                  "states": len(parent)})
    return p


def _path(parent: dict, st: tuple) -> list[int]:
    out = []
    while parent[st] is not None:
        st, g = parent[st]
        out.append(g)
    return out[::-1]


def _pure_items(ctx: Ctx) -> list[dict]:
    exprs = EXPRS + (EXPRS_THOROUGH if ctx.thorough else [])
    timings = TIMINGS_THOROUGH if ctx.thorough else TIMINGS
    items = []
    for expr, t0 in exprs:
        for wi, w in enumerate(WINDOWS):
            for ii, mi in enumerate(MIN_INTERVALS):
                for ti, (strict, tol) in enumerate(timings):
                    if not ctx.thorough and ti != (wi + ii) % 3:
                        # quick: orthogonal array L9 of window x interval x timing (every pair of
                        # settings occurs, 9 of the 27 triples); thorough: the full product
                        continue
                    items.append(dict(expr=expr, t0=t0, window=w, min_interval=mi, strict=strict, tolerance=tol,
                                      horizon=HORIZON if ctx.thorough else HORIZON_QUICK,
                                      gaps=list(GAPS if ctx.thorough else GAPS_QUICK)))
    for i, it in enumerate(items):
        it["sample"] = (it["expr"], it["window"], it["min_interval"], it["strict"]) == ("*/2 * * * *", 60, 50, False)
    return items


def _replay_pure(r: dict) -> bool:
    cfg = r["cfg"]
    orc = Oracle(cfg["expr"], cfg["t0"], cfg["horizon"], cfg["window"], cfg["min_interval"], cfg["strict"],
                 cfg["tolerance"])
    fired = _poll(_condition(cfg), cfg["t0"], r["t"], r["last"])
    bad = orc.judge(r["t"], r["last"], fired)
    if bad:
        print("  replayed:", _pure_signature(bad[0], cfg, bad[1]), bad[1])
    return bad is not None


# ---------------------------------------------------------------------------
# PART 2 — through the trigger component and its stores
# ---------------------------------------------------------------------------
APP_ID = "c13cron"
STORE_T0 = env.EPOCH0 - 60          # 22:13:00 UTC; */2 is scheduled at +60, +180, +300, +420
STORE_GAPS = (10, 30, 60, 61, 120)
STORE_HORIZON = 480
# builder: "on_cron" = the public helper (default window 60 / interval 50 / lenient);
# "custom" = TriggerBuilder().add_condition(CronCondition(...)) with the given settings
STORE_CFGS = {
    "every2-default": dict(expr="*/2 * * * *", builder="on_cron", window=60, min_interval=50, strict=False, tolerance=30),
    "every1-default": dict(expr="* * * * *", builder="on_cron", window=60, min_interval=50, strict=False, tolerance=30),
    "every2-w120-i0": dict(expr="*/2 * * * *", builder="custom", window=120, min_interval=0, strict=False, tolerance=30),
    "list-w60-i70": dict(expr="14,15,17 * * * *", builder="custom", window=60, min_interval=70, strict=False, tolerance=30),
}


def _builder(cfg: dict) -> Any:
    from pynenc.trigger.trigger_builder import TriggerBuilder, on_cron

    if cfg["builder"] == "on_cron":
        return on_cron(cfg["expr"])
    return TriggerBuilder().add_condition(_condition(cfg))


def _runner_app(backend: str, cfg: dict, db: str | None) -> tuple:
    """What a starting runner does: app object, task decorated with its trigger, deferred registration."""
    from vf import tasks_c13_cron as T

    app = env.make_app(backend, app_id=APP_ID, db=db)
    task = tasks.bind(app, T.cron_job, triggers=[_builder(cfg)])
    app.register_deferred_triggers()
    return app, task


class StoreWorld:
    def __init__(self, backend: str, cfg: dict) -> None:
        env.reset_world(STORE_T0)
        env.CLOCK.frozen = True
        self.backend, self.cfg = backend, cfg
        self.db = env.reuse_db(APP_ID) if backend == env.SQLITE else None
        n = 1 if backend == env.MEM else 2
        pairs = [_runner_app(backend, cfg, self.db) for _ in range(n)]
        self.apps = [a for a, _ in pairs]
        self.task = pairs[0][1]
        self.cond_id = f"cron_{cfg['expr']}"
        self.now = 0
        self.model_last: int | None = None   # last firing the evaluator knows of (follows the implementation
        self.fired_ever = False               # after a reported, classified violation: see _store_chunk)
        self.orc = Oracle(cfg["expr"], int(STORE_T0), STORE_HORIZON, cfg["window"], cfg["min_interval"],
                          cfg["strict"], cfg["tolerance"])

    def launched(self) -> int:
        return len(list(self.apps[0].orchestrator.get_task_invocation_ids(self.task.task_id)))

    def apply(self, op: tuple, observe: bool = True) -> tuple:
        """-> (observed launches, predicted launches, stored last execution before the operation)."""
        env.CLOCK.frozen = True
        if op[0] == "restart":
            env.CLOCK.now = STORE_T0 + self.now
            before = self.launched()
            self.apps[op[1]], _ = _runner_app(self.backend, self.cfg, self.db)
            return self.launched() - before, 0, None
        _, gap, k = op
        self.now += gap
        env.CLOCK.now = STORE_T0 + self.now
        stored_before = self.stored_last() if observe else None
        before = self.launched()
        self.apps[k].trigger.trigger_loop_iteration()
        observed = self.launched() - before
        predicted = 1 if self.orc.expect(self.now, self.model_last) else 0
        if observed:  # the evaluator's "previous firing" is what really happened (also after a violation)
            self.model_last = self.now
            self.fired_ever = True
        return observed, predicted, stored_before

    def _off(self, d: Any) -> Any:
        return None if d is None else round(d.timestamp() - STORE_T0, 6)

    def inject(self, state: tuple, fired_ever: bool) -> None:
        """Put this (fresh) world into a state that an earlier real execution produced: the stored last
        execution through the public store_last_cron_execution (unconditional when nothing is expected),
        the per-runner caches by assignment.  Merging equal dumps already assumes that a dump determines
        the future of the component; the dump is compared after the injection."""
        now, stored, caches, pending, model_last = state
        if pending:
            raise sched.HarnessError(f"cannot inject pending valid conditions: {state}")
        if stored is not None:
            self.apps[0].trigger.store_last_cron_execution(self.cond_id, _dt(STORE_T0 + stored))
        for a, c in zip(self.apps, caches):
            if c is not None:
                a.trigger._last_cron_execution_cache[self.cond_id] = _dt(STORE_T0 + c)
        self.now, self.model_last, self.fired_ever = now, model_last, fired_ever
        if self.dump() != state:
            raise sched.HarnessError(f"state injection failed: {self.dump()} != {state}")

    def stored_last(self) -> Any:
        return self._off(self.apps[0].trigger.get_last_cron_execution(self.cond_id))

    def dump(self) -> tuple:
        """Concrete state that can influence a later poll (claims are keyed by the poll instant, which
        never recurs; launched invocations are compared per operation)."""
        caches = tuple(self._off(a.trigger._last_cron_execution_cache.get(self.cond_id)) for a in self.apps)
        pending = tuple(sorted(self.apps[0].trigger.get_valid_conditions()))
        return (self.now, self.stored_last(), caches, pending, self.model_last)


def _store_alphabet(backend: str, hist: list, now: int, restarts: int, cfg: dict) -> list[tuple]:
    ops: list[tuple] = []
    if backend == env.MEM or not hist:
        pollers: tuple = (0,)  # the two runners are built alike: the first poll is runner 0's (symmetry)
    elif cfg["pollers"] == "alternate":
        pollers = (sum(1 for h in hist if h[0] == "poll") % 2,)
    else:
        pollers = (0, 1)
    for g in cfg["gaps"]:
        if now + g <= STORE_HORIZON:
            ops.extend(("poll", g, k) for k in pollers)
    if backend == env.SQLITE and restarts < cfg["max_restarts"] and hist and hist[-1][0] != "restart":
        ops.append(("restart", 1))
    return ops


def _store_violation(w: StoreWorld, op: tuple, observed: int, predicted: int, stored_before: Any,
                     fired_before: bool, last_before: int | None) -> tuple:
    """-> (signature, detail, classified).  Two causes are recognised by what was stored when the poll began."""
    m = w.orc.latest(w.now)
    if observed == 1 and predicted == 0:
        # which promise the launch breaks: fires-outside-window | scheduled-minute-fires-twice | fires-before-min-interval
        clause = (w.orc.judge(w.now, last_before, True) or ("launched-against-the-evaluator", {}))[0]
    elif observed > predicted:
        clause = f"one-poll-launched-{observed}"
    else:
        clause = "due-tick-not-launched"
    sig = {"clause": clause, "part": "store", "backend": w.backend, "config": w.cfg["name"], "op": op[0]}
    classified = False
    if observed == 1 and predicted == 0 and op[0] == "poll" and stored_before is None:
        classified = True
        cause = ("stored-last-execution-erased-by-a-restarting-runner's-registration" if fired_before
                 else "nothing-stored-yet:schedule-not-evaluated")
        sig = {"clause": clause, "part": "store", "backend": w.backend, "cause": cause}
    return sig, {"observed_launches": observed, "predicted": predicted, "now": w.now,
                 "now_utc": _dt(STORE_T0 + w.now).isoformat(), "latest_scheduled": m,
                 "last_firing_before_poll": last_before, "stored_last_before_poll": stored_before,
                 "config": w.cfg}, classified


REPLAY_EVERY = 25  # every n-th transition's history is re-executed from scratch (no injection) and compared
STORE_CHUNKS = 48  # frontier chunks per level (fixed: the explored set does not depend on the worker count)


def _store_replay(backend: str, cfg: dict, hist: list) -> tuple:
    """Honest execution of a whole history on fresh components -> (world, result of the last operation)."""
    w = StoreWorld(backend, cfg)
    res: tuple = (0, 0, None)
    for i, h in enumerate(hist):
        res = w.apply(h, observe=i == len(hist) - 1)
    return w, res


def _store_chunk(item: tuple) -> tuple:
    """Expand a slice of one BFS level: every operation of the alphabet from every state of the slice.
    -> (Partial, [(new state, history, restarts used, a launch happened before)])."""
    backend, name, tier_cfg, states = item
    cfg = dict(STORE_CFGS[name], name=name, **tier_cfg)
    p = Partial()
    out: list[tuple] = []
    local: set = set()
    reported: set[str] = set()
    n = 0
    try:
        for st, hist, restarts, fired_ever in states:
            for op in _store_alphabet(backend, hist, st[0], restarts, cfg):
                w = StoreWorld(backend, cfg)
                w.inject(st, fired_ever)
                last_before = w.model_last
                observed, predicted, stored_before = w.apply(op)
                n += 1
                p.count("transitions")
                p.count("traces_validated_against_impl")
                p.count("store_polls" if op[0] == "poll" else "store_restarts")
                p.count("store_launches", observed)
                d = w.dump()
                if n % REPLAY_EVERY == 0:
                    w2, res2 = _store_replay(backend, cfg, hist + [op])
                    if w2.dump() != d or res2[:2] != (observed, predicted):
                        raise sched.HarnessError(f"injected state and replayed history differ: {hist + [op]}")
                    p.count("store_histories_replayed_from_scratch")
                if observed != predicted:
                    sig, detail, classified = _store_violation(w, op, observed, predicted, stored_before, fired_ever,
                                                               last_before)
                    k = repr(sorted(sig.items()))
                    if k not in reported:
                        # a violation is only reported after the whole history reproduced it without injection
                        w2, res2 = _store_replay(backend, cfg, hist + [op])
                        if w2.dump() != d or res2[:2] != (observed, predicted):
                            raise sched.HarnessError(f"injected state and replayed history differ: {hist + [op]}")
                        p.count("store_histories_replayed_from_scratch")
                        reported.add(k)
                        detail["history"] = hist + [op]
                        p.violation(sig, detail, {"kind": "store", "part": PART, "backend": backend,
                                                  "config": name, "tier_cfg": tier_cfg, "history": hist + [op]})
                    p.count("store_polls_violating")
                    if not classified:
                        continue  # only states behind a violation of a recognised cause are expanded
                if d not in local:
                    local.add(d)
                    out.append((d, hist + [op], restarts + (op[0] == "restart"), w.fired_ever))
    finally:
        env.CLOCK.frozen = False
    return p, out


def _store_explore(ctx: Ctx, units: list[tuple]) -> None:
    """Level-synchronous BFS of all (backend, configuration, variant) units; each level is expanded in parallel."""
    seen: dict[tuple, set] = {}
    frontier: dict[tuple, list] = {}
    cfg_of: dict[tuple, dict] = {}
    for backend, name, tier_cfg in units:
        key = (backend, name, tier_cfg["variant"])
        try:
            w = StoreWorld(backend, dict(STORE_CFGS[name], name=name, **tier_cfg))
            start = w.dump()
        finally:
            env.CLOCK.frozen = False
        seen[key] = {start}
        frontier[key] = [(start, [], 0, False)]
        cfg_of[key] = tier_cfg
    level = 0
    longest: dict[tuple, list] = {}
    while any(frontier.values()):
        items, keys = [], []
        for key, fr in frontier.items():
            if not fr:
                continue
            k = max(1, min(STORE_CHUNKS, len(fr) // 4))
            for i in range(k):
                items.append((key[0], key[1], cfg_of[key], fr[i::k]))
                keys.append(key)
        results = par.pmap(_store_chunk, items)
        frontier = {key: [] for key in frontier}
        for key, (part, out) in zip(keys, results):
            ctx.merge(part)
            for d, hist, restarts, fired in out:
                if d not in seen[key]:
                    seen[key].add(d)
                    frontier[key].append((d, hist, restarts, fired))
                    longest[key] = hist
        level += 1
    ctx.max("store_bfs_levels", level)
    for key, sset in seen.items():
        ctx.count("bfs_states", len(sset))
        ctx.add("store_configs", key)
        ctx.extra.setdefault("store_states", {})["/".join(key)] = len(sset)
        if key[1] == "every2-default":
            ctx.sample({"part": "store", "backend": key[0], "config": key[1], "variant": key[2], "states": len(sset),
                        "a_longest_history": [list(o) for o in longest.get(key, [])][:30]}, limit=6)


def _store_units(ctx: Ctx) -> list[tuple]:
    """SQLite state spaces are large (stored value x two runner caches x time): the variants trade the
    10 s gap / free choice of the polling runner against each other; see notes/c13_cron.md for the sizes."""
    coarse = [30, 60, 61, 120]
    fine = list(STORE_GAPS)
    units = []
    names = list(STORE_CFGS) if ctx.thorough else ["every2-default", "list-w60-i70"]
    for n in names:
        units.append((env.MEM, n, dict(variant="all-gaps", gaps=fine, max_restarts=0, pollers="any")))
        if ctx.thorough:
            units.append((env.SQLITE, n, dict(variant="any-runner+restart", gaps=coarse, max_restarts=1, pollers="any")))
        else:
            units.append((env.SQLITE, n, dict(variant="alternating+restart", gaps=coarse, max_restarts=1,
                                             pollers="alternate")))
    if ctx.thorough:
        units.append((env.SQLITE, "every2-default", dict(variant="alternating-all-gaps", gaps=fine, max_restarts=0,
                                                        pollers="alternate")))
    return units


def _replay_store(r: dict) -> bool:
    """Re-executes the recorded history from the empty system; the verdict is about its last operation."""
    cfg = dict(STORE_CFGS[r["config"]], name=r["config"], **r["tier_cfg"])
    bad = False
    try:
        w = StoreWorld(r["backend"], cfg)
        hist = [tuple(op) for op in r["history"]]
        for i, op in enumerate(hist):
            fired_before, last_before = w.fired_ever, w.model_last
            observed, predicted, stored_before = w.apply(op)
            if observed != predicted:
                sig = _store_violation(w, op, observed, predicted, stored_before, fired_before, last_before)[0]
                print(f"  replayed (operation {i + 1}/{len(hist)}):", sig)
                bad = i == len(hist) - 1
    finally:
        env.CLOCK.frozen = False
    return bad


# ---------------------------------------------------------------------------
# PART 3 — two concurrent trigger-loop iterations on one cron condition
# ---------------------------------------------------------------------------
SCHED_CFG = dict(STORE_CFGS["every2-default"], name="every2-default")
SCHED_LINE_MODULES = ["pynenc.trigger.mem_trigger", "pynenc.trigger.base_trigger"]
TICK0 = env.EPOCH0            # 22:14:00 UTC, scheduled by */2
TICK1 = env.EPOCH0 + 120      # the next scheduled minute


CAUSE_WINDOWS = {
    "nothing-stored-yet:compare-and-swap-skipped-for-both-writers":
        "read-last-execution (nothing) -> store-last-execution (nothing expected: unconditional write)",
    "compare-and-swap-not-atomic:both-writers-saw-the-same-stored-value":
        "inside store-last-execution: read stored value -> write",
    "run-claim-not-atomic:both-claimed-the-same-run-id":
        "inside claim-run: read claim -> write claim",
}


class _W:
    """Minimal world object (ex.world): app objects, operation log for the logical windows."""

    def __init__(self) -> None:
        self.apps: list = []
        self.ops: list[tuple] = []      # (tid, trace position at completion, name, position at start)
        self.calls: list[tuple] = []    # (name, tid, argument of interest, result)
        self.errors: list[tuple] = []
        self.launched = 0


class CronScn:
    """desc: backend, firing first|later, clock same|ticking, bound."""

    def __init__(self, desc: dict) -> None:
        self.desc = desc
        self.points = (SCHED_LINE_MODULES, "line") if desc["backend"] == env.MEM else None

    @staticmethod
    def logical_windows(ex: sched.Execution) -> list[str]:
        """The race window of a double launch is named by its cause (which check-then-act was split), so that
        the identity of the violation does not depend on the schedule that happened to exhibit it; other
        violations keep the 'last operation -> next operation' windows of their deviations."""
        from vf import worlds

        cause = CronScn._cause(ex.world) if ex.world.launched > 1 else None
        if cause is not None:
            return [CAUSE_WINDOWS[cause]]
        return worlds.logical_windows(ex)

    @staticmethod
    def _wrap(w: _W, trig: Any) -> None:
        from vf import worlds

        def logical(attr: str, name: str, arg_of: Any) -> None:
            orig = getattr(trig, attr)

            def wrapped(*a: Any, **k: Any) -> Any:
                start = worlds._pos()
                r = None
                try:
                    r = orig(*a, **k)
                    return r
                finally:
                    w.ops.append((worlds._tid(), worlds._pos(), name, start))
                    w.calls.append((name, worlds._tid(), arg_of(*a, **k), r if isinstance(r, bool) else None))

            setattr(trig, attr, wrapped)

        logical("get_last_cron_execution", "read-last-execution", lambda *a, **k: None)
        logical("store_last_cron_execution", "store-last-execution",
                lambda cid, t, expected_last_execution=None: None if expected_last_execution is None
                else round(expected_last_execution.timestamp() - TICK0, 6))
        logical("record_valid_conditions", "record-valid-condition", lambda *a, **k: None)
        logical("get_valid_conditions", "read-valid-conditions", lambda *a, **k: None)
        logical("claim_trigger_run", "claim-run", lambda run_id, *a, **k: run_id[:8])
        logical("execute_task", "launch", lambda *a, **k: None)
        logical("clear_valid_conditions", "clear-valid-conditions", lambda *a, **k: None)

    def execute(self, choices: list[int], expect: Any) -> sched.Execution:
        d = self.desc
        env.reset_world(TICK0)
        env.CLOCK.frozen = True
        w = _W()
        if d["backend"] == env.MEM:
            app, task = _runner_app(env.MEM, SCHED_CFG, None)
            w.apps = [app, app]  # two threads of one process share the trigger object
        else:
            db = env.reuse_db(APP_ID + "s")
            pairs = [_runner_app(env.SQLITE, SCHED_CFG, db) for _ in range(2)]
            w.apps = [a for a, _ in pairs]
            task = pairs[0][1]
        count = lambda: len(list(w.apps[0].orchestrator.get_task_invocation_ids(task.task_id)))  # noqa: E731
        tick = TICK0
        if d["firing"] == "later":
            # an earlier, regular firing: runner 0 at 22:14:05; runner 1 polls at 22:14:20 (nothing due,
            # its cache now holds the stored value); the contested tick is 22:16
            env.CLOCK.now = TICK0 + 5
            w.apps[0].trigger.trigger_loop_iteration()
            env.CLOCK.now = TICK0 + 20
            w.apps[1].trigger.trigger_loop_iteration()
            if count() != 1:
                raise sched.HarnessError(f"set-up firing launched {count()} invocations")
            tick = TICK1
        for a in w.apps:
            a.state_backend.wait_for_all_async_operations()
        for trig in {id(a.trigger): a.trigger for a in w.apps}.values():
            self._wrap(w, trig)
        before = count()
        env.CLOCK.now = tick + 10  # both runners poll 10 s into the window
        env.CLOCK.frozen = d["clock"] == "same"

        def runner(k: int) -> Any:
            def f() -> None:
                try:
                    w.apps[k].trigger.trigger_loop_iteration()
                except sched.Abort:
                    raise
                except Exception as e:  # noqa: BLE001 - BaseRunner._check_atomic_services logs and goes on
                    from vf import worlds

                    w.errors.append((k, type(e).__name__, str(e)[:120], worlds._pos()))
            return f

        s = sched.Scheduler(choices, expect, max_points=6000, lazy=("_add_histories",))
        ex = s.run([("runner0", runner(0)), ("runner1", runner(1))])
        env.CLOCK.frozen = True
        try:
            for a in w.apps:
                a.state_backend.wait_for_all_async_operations()
            w.launched = count() - before
        finally:
            env.CLOCK.frozen = False
        ex.world = w
        return ex

    def digest(self, ex: sched.Execution) -> Any:
        w = ex.world
        stores = tuple(sorted((c[2], c[3]) for c in w.calls if c[0] == "store-last-execution"))
        claims = tuple(sorted(c[3] for c in w.calls if c[0] == "claim-run"))
        return (w.launched, stores, claims, tuple(sorted(e[:2] for e in w.errors)), ex.outcome)

    @staticmethod
    def _cause(w: _W) -> str | None:
        ok_stores = [c for c in w.calls if c[0] == "store-last-execution" and c[3] is True]
        if len(ok_stores) >= 2:
            exp = {c[2] for c in ok_stores}
            if exp == {None}:
                return "nothing-stored-yet:compare-and-swap-skipped-for-both-writers"
            if len(exp) == 1:
                return "compare-and-swap-not-atomic:both-writers-saw-the-same-stored-value"
            return None
        ok_claims = [c for c in w.calls if c[0] == "claim-run" and c[3] is True]
        if len(ok_claims) >= 2 and len({c[2] for c in ok_claims}) == 1:
            return "run-claim-not-atomic:both-claimed-the-same-run-id"
        return None

    def check(self, ex: sched.Execution, p: Partial) -> None:
        w, d = ex.world, self.desc
        base = dict(part="sched", backend=d["backend"], firing=d["firing"], clock=d["clock"])
        if ex.outcome != "done":
            p.violation({"clause": f"no-progress:{ex.outcome}", **base}, {"calls": w.calls[-12:]}, {})
            return
        for e in w.errors:
            p.count("sched_polls_raising")
        detail = {"launched": w.launched, "calls": [c for c in w.calls if c[0] in
                                                    ("store-last-execution", "claim-run", "launch")],
                  "errors": w.errors}
        if w.launched > 1:
            cause = self._cause(w)
            if cause is not None:
                # identity = which check-then-act was split (scenario and schedule are in the detail)
                detail["scenario"] = base
                p.violation({"clause": "tick-launched-twice", "part": "sched", "backend": d["backend"],
                             "cause": cause}, detail, {})
            else:
                p.violation({"clause": "tick-launched-twice", **base}, detail, {})
        elif w.launched == 0:
            sig = {"clause": "tick-not-launched", **base}
            if w.errors:
                sig["raised"] = sorted({e[1] for e in w.errors})
            p.violation(sig, detail, {})


def build(desc: dict) -> CronScn:
    return CronScn(desc)


def _sched_descs(ctx: Ctx) -> list[dict]:
    out = []
    for backend in env.BACKENDS:
        for firing in ("first", "later"):
            for clock in ("ticking", "same"):
                if backend == env.MEM:
                    bound = 2 if ctx.thorough else 1   # ~300 line points per schedule
                else:
                    bound = 3 if ctx.thorough else 2
                out.append(dict(backend=backend, firing=firing, clock=clock, bound=bound))
    return out


# ---------------------------------------------------------------------------
def run_part(ctx: Ctx) -> None:
    only = getattr(ctx, "only", None) or ""
    sub = only.split("/")[0]  # pure | store | sched [/<substring of a schedule descriptor>]
    if sub not in ("", "pure", "store", "sched"):
        sub = ""
    if sub in ("", "pure"):
        items = _pure_items(ctx)
        rot = ctx.seed % len(items)
        for part in par.pmap(_pure_unit, items[rot:] + items[:rot]):
            ctx.merge(part)
    if sub in ("", "store"):
        _store_explore(ctx, _store_units(ctx))
    if sub in ("", "sched"):
        ds = _sched_descs(ctx)
        if sub == "sched" and "/" in only:
            ds = [d for d in ds if only.split("/", 1)[1] in e1.desc_key(d)]
        e1.explore_all(ctx, MOD, ds, lambda d: d["bound"])
    t = "thorough" if ctx.thorough else "quick"
    ctx.rule = (
        f"PURE: {len(EXPRS) + (len(EXPRS_THOROUGH) if ctx.thorough else 0)} expression/start pairs x "
        + ("window {30,60,120} x min-interval {0,50,70} x timing {lenient, strict tol 10/30/90} (full product)"
           if ctx.thorough else
           "an orthogonal array (9 of 27) of window {30,60,120} x min-interval {0,50,70} x timing {lenient, strict 30, strict 90}")
        + f" x every (poll second, last firing) pair reachable by poll gaps {list(GAPS if ctx.thorough else GAPS_QUICK)} s "
        f"within {HORIZON if ctx.thorough else HORIZON_QUICK} s (BFS, exact-state dedupe, last firing moves only when the "
        "real CronCondition.is_satisfied_by said yes) vs an own five-field minute matcher. "
        "STORE: real trigger_loop_iteration() at frozen instants on MemTrigger (one runner) and SQLiteTrigger (two app objects on "
        "one file, " + ("either may poll" if ctx.thorough else "polling alternately") + ", runner 1 may restart once = new app "
        "object + register_deferred_triggers), level-parallel BFS over gaps (see extra.store_states for the variants), "
        "launched invocations per poll == evaluator. "
        "SCHED: two concurrent trigger_loop_iteration() 10 s into a window, first-ever and later firing, same instant "
        "and 1 us apart; memory: one trigger object, a point at every line of mem_trigger/base_trigger; SQLite: two "
        f"app objects, a point at every SQL statement; all schedules within the deviation bounds of extra.bounds ({t})."
    )
    ctx.assume("all instants are UTC; poll instants are whole seconds (the gaps are), the clock is frozen during a poll")
    ctx.assume("a poll is attributed to the latest scheduled minute <= its instant; an older minute whose window still "
               "covers the poll is superseded (catch-up of skipped minutes is not promised)")
    ctx.assume("strict timing is read as: the effective window is min(check window, precision tolerance); only "
               "safety is judged under strict timing")
    ctx.assume("PURE: croniter's parse of the expression text is memoised (pure function of the text, deep copies); "
               "a slice of every configuration's evaluations is repeated on the unmodified library")
    ctx.assume("STORE: a state is re-entered by injection (public store_last_cron_execution + assignment of the "
               "per-runner cache) - exactly the assumption that merging equal dumps makes; every 25th transition and "
               "every reported violation is re-executed from the empty system and compared")
    ctx.assume("STORE: trigger-run claims are keyed by the poll instant, which never recurs: they are not part of the state")
    if ctx.counters.get("sched_polls_raising"):
        ctx.notes.append("some concurrent polls raised (KeyError in MemTrigger.clear_valid_conditions / the clean-up of "
                         "trigger_loop_iteration when the other thread removed the valid condition first); counted, "
                         "judged only through the number of launches")


def replay_part(payload: dict) -> bool:
    r = payload["replay"]
    if r.get("kind") == "schedule":
        return e1.replay_schedule(r)
    if r.get("kind") == "pure":
        return _replay_pure(r)
    if r.get("kind") == "store":
        return _replay_store(r)
    return False
