"""C10 — the recorded history of an invocation is exactly its sequence of status changes.

Rides on the C02 scenarios (claims, duplicate messages, blocking path, recovery, kill,
late finisher) plus retry / concurrency-control lifecycles; here the asynchronous
history writers are *independent scheduler threads*: by default they run arbitrarily
late (only when nothing else can run), running one early costs a deviation.
"""

from __future__ import annotations

import json
import os
from typing import Any

from vf import e1, env, sched, worlds
from vf.props import c02
from vf.report import Ctx, Partial

MOD = "vf.props.c10"
SPEC = json.load(open(os.path.join(os.path.dirname(__file__), "..", "spec", "lifecycle.json")))
EDGES = {tuple(e) for e in SPEC["edges"]}


class Scn(c02.Scn):
    lazy: tuple = ()

    def execute(self, choices: list[int], expect: Any) -> sched.Execution:
        # same worlds as C02, but the history writers are ordinary actors
        orig = sched.Scheduler

        def mk(ch: Any, ex: Any, **kw: Any) -> sched.Scheduler:
            kw.pop("lazy", None)
            return orig(ch, ex, **kw)

        sched.Scheduler = mk  # type: ignore[assignment,misc]
        try:
            ex = super().execute(choices, expect)
        finally:
            sched.Scheduler = orig  # type: ignore[misc]
        w = ex.world
        w.flush()
        ex.histories = {i: w.history(i, -1) for i in w.ids}
        return ex

    def post_actor(self, j: int, w: Any, app: Any) -> None:
        """The actor flushes (per invocation) and reads the history while other actors and writers are still going:
        every change this actor made itself before the flush must be there."""
        pos = len(w.log)
        for inv_id in w.ids:
            app.state_backend.wait_for_invocation_async_operations(inv_id)
            got = [(h[0], h[3]) for h in w.history(inv_id, j)]
            w.__dict__.setdefault("flush_obs", []).append((worlds._tid(), pos, inv_id, got))

    def digest(self, ex: sched.Execution) -> Any:
        base = super().digest(ex)
        hs = tuple(tuple((h[0], h[1], h[2]) for h in sorted(ex.histories[i], key=lambda h: h[3])) for i in ex.world.ids)
        return (base, hs)

    def check(self, ex: sched.Execution, p: Partial) -> None:
        w = ex.world
        d = self.desc
        base = dict(backend=d["backend"], queue=d["queue"], n=d["n"])
        if ex.outcome != "done":
            p.violation({"clause": f"no-progress:{ex.outcome}", **base}, {"log": w.log[-12:]}, {})
            return
        for inv_id in w.ids:
            oks = sorted(worlds.successful(w.log, inv_id), key=lambda e: e[6][2])
            want = [(e[6][0], e[6][1], e[4], e[6][2]) for e in oks]  # status, owner, acting runner, time of change
            got = sorted(ex.histories[inv_id], key=lambda h: h[3])
            p.add("lifecycle_paths_seen", tuple(x[0] for x in want))
            sig = None
            if len(got) < len(want):
                sig = "history-entry-missing"
            elif len(got) > len(want):
                sig = "history-entry-duplicated-or-extra"
            elif [g[0] for g in got] != [x[0] for x in want]:
                sig = "history-order-or-status-differs"
            elif [g[3] for g in got] != [x[3] for x in want] or [g[1] for g in got] != [x[1] for x in want]:
                sig = "history-record-differs"
            elif [g[2] for g in got] != [x[2] for x in want]:
                sig = "history-names-wrong-runner"
            elif got and got[0][0] != "REGISTERED":
                sig = "history-does-not-start-at-registered"
            elif got and (got[-1][0], got[-1][1]) != w.record(inv_id, -1):
                sig = "history-does-not-end-at-current-status"
            else:
                for a, b in zip(got, got[1:]):
                    if (a[0], b[0]) not in EDGES:
                        sig = "history-is-not-a-lifecycle-path"
            if sig:
                p.violation({"clause": sig, **base},
                            {"id": inv_id, "history": [list(g) for g in got], "changes": [list(x) for x in want]}, {})
                return
        # flush observations taken inside the schedule
        # (only the actor's own changes: another thread may sit between its transition and its add_history call)
        for tid, pos, inv_id, got in getattr(w, "flush_obs", []):
            need = [(e[6][0], e[6][2]) for e in worlds.successful(w.log[:pos], inv_id) if e[1] == tid]
            p.count("flush_observations")
            missing = [x for x in need if x not in got]
            if missing:
                p.violation({"clause": "change-missing-from-history-after-flush", **base},
                            {"id": inv_id, "actor_thread": tid, "missing": [list(x) for x in missing], "read": [list(g) for g in got]}, {})
                return
        # nothing recorded under an id that is not one of the world's invocations
        known = {e[2] for e in w.log if e[0] == "tr"}
        for inv_id in known - set(w.ids):
            pass  # set-up helpers (the waiter of the blocking scenario) are not judged


class LifeScn(Scn):
    """Retry and concurrency-control lifecycles (the C05/C06 scenario shapes), history writers as actors."""

    def execute(self, choices: list[int], expect: Any) -> sched.Execution:
        from vf import tasks
        from vf.props import c06
        from vf.worlds import World, runner_ctx

        d = self.desc
        w = World(d["backend"], 3, app_id="c10l")
        self.w = w
        kind = d["queue"]
        client_actor = None
        if kind == "batch-register":
            # the batch registration itself runs under the scheduler: its history writers are late by default
            w.bind(tasks.keyed)
            w.ids = []

            def client_actor() -> None:
                grp = w.task("keyed", 2).parallelize([(1, 0), (2, 0), (3, 0)])
                w.ids.extend(str(i.invocation_id) for i in grp.invocations)
                self.post_actor(2, w, w.apps[2])
            rounds = 2
        elif kind in ("retry", "fail"):
            w.bind(tasks.scripted, max_retries=2)
            plan = {"a": ["retry", "ok"] if kind == "retry" else ["retry", "fail"]}

            def script(name: str, x: int) -> Any:
                from pynenc.exceptions import RetryError

                step = plan[name].pop(0) if plan.get(name) else "ok"
                if step == "retry":
                    raise RetryError(name)
                if step == "fail":
                    raise ValueError(name)
                return x
            tasks.HOOKS["script"] = script
            w.ids = [str(w.task("scripted", 2)("a", 1).invocation_id)]
            rounds = 2
        else:
            # cc: two same-key invocations, TASK mode, blocked one rerouted; cc-final: blocked one ends CONCURRENCY_CONTROLLED_FINAL
            w.bind(tasks.keyed, **c06.task_options("TASK", kind == "cc"))
            t = w.task("keyed", 2)
            w.ids = [str(t(0, 0).invocation_id), str(t(0, 1).invocation_id)]
            rounds = 3 if kind == "cc" else 2
        w.flush()
        w.setup_len = len(w.log)

        def actor(j: int) -> Any:
            def f() -> None:
                ctx = runner_ctx(f"r{j}")
                app = w.apps[j]
                for _ in range(rounds):
                    try:
                        got = list(app.orchestrator.get_invocations_to_run(1, ctx))
                    except sched.Abort:
                        raise
                    except Exception as e:  # noqa: BLE001 - a raising poll is judged by C06
                        w.log.append(("poll-error", worlds._tid(), type(e).__name__, f"r{j}"))
                        got = []
                    for inv in got:
                        try:
                            inv.run(ctx)
                        except sched.Abort:
                            raise
                        except Exception as e:  # noqa: BLE001
                            w.log.append(("run-error", worlds._tid(), type(e).__name__, f"r{j}"))
                self.post_actor(j, w, app)
            return f

        s = sched.Scheduler(choices, expect, max_points=6000)
        actors = [(f"w{j}", actor(j)) for j in range(2)]
        if client_actor is not None:
            actors = [("client", client_actor), actors[0]]
        ex = s.run(actors)
        ex.world = w
        w.flush()
        ex.histories = {i: w.history(i, -1) for i in w.ids}
        return ex

    def digest(self, ex: sched.Execution) -> Any:
        w = ex.world
        recs = tuple(w.record(i, -1) for i in w.ids)
        oks = tuple((e[2][-4:], e[3], e[4]) for e in sorted(worlds.successful(w.log[w.setup_len:]), key=lambda e: e[6][2]))
        hs = tuple(tuple((h[0], h[1], h[2]) for h in sorted(ex.histories[i], key=lambda h: h[3])) for i in w.ids)
        return (recs, oks, hs, ex.outcome)


LIFE_KINDS = ("retry", "fail", "cc", "cc-final", "batch-register")


def build(desc: dict) -> Scn:
    return LifeScn(desc) if desc["queue"] in LIFE_KINDS else Scn(desc)


def descs(ctx: Ctx) -> list[dict]:
    out = []
    for backend in env.BACKENDS:
        for queue, bound in (("single", 2), ("dup", 1), ("blocking", 1), ("recovery", 1), ("kill", 1),
                             ("late-finish", 1), ("two", 1)):
            if ctx.thorough and queue not in ("single", "two"):
                # 'single' already runs with 2 deviations in quick (a third costs ~3.4 M schedules); 'two' (three
                # invocations, 370 points) would cost ~0.5 M more
                bound += 1
            out.append(dict(backend=backend, queue=queue, n=2, k=2 if queue == "two" else 1, bound=bound))
        for queue in LIFE_KINDS:
            out.append(dict(backend=backend, queue=queue, n=2, k=1, bound=2 if ctx.thorough and queue in ("retry", "fail") else 1))
    if getattr(ctx, "only", None):
        out = [d for d in out if ctx.only in e1.desc_key(d)]
    return out


def run(ctx: Ctx) -> None:
    e1.explore_all(ctx, MOD, descs(ctx), lambda d: d["bound"])
    paths = ctx.sets.get("lifecycle_paths_seen", set())
    ctx.extra["statuses_seen_in_histories"] = sorted({st for path in paths for st in path})
    ctx.extra["longest_lifecycle_path"] = list(max(paths, key=len)) if paths else []
    ctx.rule = ("the C02 worlds plus retry / concurrency-control lifecycles with the background history writers scheduled as independent threads; all schedules "
                "with at most `bound` deviations (extra.bounds); after the flush the stored history of every invocation "
                "is compared entry by entry with the monitor's list of successful status changes")
    ctx.assume("the monitor orders changes by the timestamp taken inside the atomic transition")
    ctx.assume("retry / concurrency-controlled (rerouted and final) lifecycles: two poller+worker actors over one retrying invocation / "
               "two same-key invocations (the C05/C06 scenario shapes), same oracle")


def replay(payload: dict) -> bool:
    return e1.replay_schedule(payload["replay"])
