"""C20 — monitoring pages only observe: a GET never changes the system.

E2/E3: (system states reached by every operation history up to a small depth over a small
alphabet, on the in-memory and on the SQLite backends) x (every GET route of the monitor's real
route table) x (a finite parameter menu).  Requests go through starlette's TestClient in-process.

Oracle: a full read-out of the *concrete* stores of the monitored app (queue content in order,
every orchestrator index/record, wait graph, runner heartbeats, state-backend invocations,
histories, results, exceptions, runner contexts, workflow data, trigger store, client data store)
taken before and after EACH request must be identical, whatever the status code.
  * mem: every attribute of the five component objects (canonicalised; process machinery and
    pure read caches excluded, see EXCLUDED);  * sqlite: every row of every table of the file.
  * the queue is compared as the sequence of invocation ids (the property promises ids + order,
    not the broker's internal enqueue stamp).
  * containers that are empty are equal to absent ones (defaultdict entries created by a lookup).
The monitor's own selection state (/switch-app) is not part of the system.
"""

from __future__ import annotations

import dataclasses
import datetime as _dt
import enum
import json
import os
import re
import threading
from collections import deque
from typing import Any
from urllib.parse import quote, urlencode

from vf import env, par, tasks, tasks_c20
from vf.report import Ctx, Partial, digest

APP_ID = "c20"
MISSING_UUID = "ffffffff-ffff-4fff-8fff-ffffffffffff"
MALFORMED = ["\x00", "x/../y"]
WORK_KEY = "vf.tasks_c20.work"
MISSING_TASK_KEYS = ["vf.tasks_c20.nope", "no_such_module_c20.f"]

# attributes of the in-memory components that are not "the system"
EXCLUDED = {
    "app": "back reference",
    "conf": "configuration object (cached property)",
    "invocation_threads": "handles of finished background writer threads (joined before every read-out)",
    "_runner_context_cache": "read cache of runner contexts already stored in _runner_contexts",
    "_deserialized_cache": "LRU read cache of client-data values already stored in _storage",
    "_hash": "memoised hash of an argument pair",
    "_logger": "logger",
    "logger": "logger",
}
_LOCK_TYPES = (type(threading.Lock()), type(threading.RLock()), threading.Thread, threading.Event,
               threading.Condition)

_STATE: dict[str, Any] = {"routes_ready": False, "client": None}


# ---------------------------------------------------------------------------
# canonical read-out
# ---------------------------------------------------------------------------
def _is_empty(v: Any) -> bool:
    return v is None or (isinstance(v, (list, dict, str)) and len(v) == 0)


def _canon(o: Any, seen: tuple = ()) -> Any:
    if isinstance(o, str):
        sd = _STATE.get("scratch")
        return o.replace(sd, "<scratch>") if sd and sd in o else o
    if o is None or isinstance(o, (bool, int, float)):
        return o
    if isinstance(o, bytes):
        return "bytes:" + o.hex()
    if isinstance(o, enum.Enum):
        return f"{type(o).__name__}.{o.name}"
    if isinstance(o, _dt.datetime):
        return "dt:" + o.isoformat()
    if isinstance(o, _LOCK_TYPES) or type(o).__module__ == "vf.sched":
        return None  # synchronisation objects (real or the harness's stand-ins) carry no system state
    if id(o) in seen:
        return "<cycle>"
    seen = seen + (id(o),)
    if isinstance(o, dict):
        out = {}
        for k, v in o.items():
            cv = _canon(v, seen)
            if _is_empty(cv):
                continue  # an empty container under a key == no key (defaultdict lookups)
            ck = k if isinstance(k, str) else json.dumps(_canon(k, seen), sort_keys=True, default=repr)
            out[ck] = cv
        return out
    if isinstance(o, (set, frozenset)):
        return sorted((_canon(x, seen) for x in o), key=lambda x: json.dumps(x, sort_keys=True, default=repr))
    if isinstance(o, (list, tuple, deque)):
        return [_canon(x, seen) for x in o]
    if len(seen) > 14:
        return "<deep>"
    fields: dict[str, Any] | None = None
    if dataclasses.is_dataclass(o) and not isinstance(o, type):
        fields = {f.name: getattr(o, f.name, None) for f in dataclasses.fields(o)}
    elif hasattr(o, "__dict__"):
        fields = dict(vars(o))
    elif hasattr(o, "__slots__"):
        fields = {s: getattr(o, s, None) for s in o.__slots__}
    if fields is None:
        return repr(o)
    out = {"__cls__": type(o).__name__}
    for k in sorted(fields):
        if k in EXCLUDED or _is_app_or_conf(fields[k]):
            continue
        out[k] = _canon(fields[k], seen)
    return out


def _is_app_or_conf(v: Any) -> bool:
    n = type(v).__name__
    return n == "Pynenc" or n.startswith("Config") or n == "Logger"


# ---------------------------------------------------------------------------
# the system under observation
# ---------------------------------------------------------------------------
class World:
    """One system state = one operation history applied to fresh components."""

    def __init__(self, backend: str, queue_page: int) -> None:
        from pynenc import context
        from pynenc.runner.runner_context import RunnerContext
        from pynenc.trigger.trigger_builder import on_event

        env.reset_world()
        tasks_c20.SCRIPT.clear()
        self.backend = backend
        self.queue_page = queue_page
        if backend == env.MEM:
            self.app = env.make_app(env.MEM, app_id=APP_ID)
            self.mon = self.app  # the in-memory stores live in the app object
        else:
            db = env.reuse_db(APP_ID)
            self.app = env.make_app(env.SQLITE, app_id=APP_ID, db=db)
            self.mon = env.make_app(env.SQLITE, app_id=APP_ID, db=db)  # the monitor's own process
        self.client = RunnerContext("ExternalRunner", "client", pid=1, hostname="h", thread_id=1)
        self.r1 = RunnerContext("VfRunner", "r1", pid=2, hostname="h", thread_id=2)
        context.set_runner_context(APP_ID, self.client)
        self.t: dict[str, Any] = {}
        for a in {id(self.app): self.app, id(self.mon): self.mon}.values():
            t_work = tasks.bind(a, tasks_c20.work)
            t_child = tasks.bind(a, tasks_c20.child)
            tasks.bind(a, tasks_c20.on_evt, triggers=on_event("c20evt"))
            if a is self.app:
                self.t = {"work": t_work, "child": t_child}
        self.app.register_deferred_triggers()
        tasks_c20.SCRIPT["spawn"] = lambda x: self.t["child"](x)
        self.ids: list[str] = []  # every invocation id ever created, creation order
        self.claimed: list[Any] = []  # invocations handed to r1, not yet run
        self.done: list[str] = []
        self.blocked: list[str] = []
        self.nsubmit = 0
        self.nbeat = 0
        self.runners: list[str] = []
        self.purged: list[str] = []
        self.call_keys: list[str] = []
        self.op_errors = 0
        self._rconn: Any = None

    # -- operations ------------------------------------------------------
    def _submit(self, x: int, blob: str = "") -> None:
        inv = self.t["work"](x, blob) if blob else self.t["work"](x)
        self.ids.append(str(inv.invocation_id))
        k = str(inv.call.call_id.key)
        if k not in self.call_keys:
            self.call_keys.append(k)

    def apply(self, op: tuple) -> None:
        """An operation that raises (possible after a partial purge) leaves whatever it leaves:
        that is a reachable system state too."""
        from pynenc import context

        try:
            self._apply(op)
        except Exception:  # noqa: BLE001
            self.op_errors += 1
        finally:
            context.set_runner_context(APP_ID, self.client)
            tasks_c20.SCRIPT["mode"] = "ok"
        self.app.state_backend.wait_for_all_async_operations()

    def _apply(self, op: tuple) -> None:
        from pynenc import context
        from pynenc.invocation.status import InvocationStatus

        app = self.app
        kind = op[0]
        if kind == "submit":
            n = self.nsubmit
            self.nsubmit += 1
            # 1st and 2nd share the call; the 3rd carries an argument large enough for the data store
            self._submit(n // 2, "b" * 3000 if n == 2 else "")
        elif kind == "submit_many":
            for i in range(self.queue_page + 1):
                # the first of them carries a long argument that still stays inline in the stored call (below the
                # externalisation threshold, above what the pages display in full)
                self._submit(1000 + i, "m" * 700 if i == 0 else "")
        elif kind == "claim":
            for inv in app.orchestrator.get_invocations_to_run(1, self.r1):
                self.claimed.append(inv)
        elif kind == "run":
            if not self.claimed:
                return
            inv = self.claimed.pop(0)
            tasks_c20.SCRIPT["mode"] = op[1]
            try:
                inv.run(self.r1)
            except Exception:  # noqa: BLE001 - a failing body is the point of ("run", "fail")
                pass
            finally:
                context.set_runner_context(APP_ID, self.client)
                tasks_c20.SCRIPT["mode"] = "ok"
            self.done.append(str(inv.invocation_id))
            self._adopt_children()
        elif kind == "block":
            # a runner thread started the oldest claimed invocation, its body submitted a child and
            # now waits for the child's result (the thread stays blocked: RUNNING + wait-graph edge)
            if not self.claimed:
                return
            inv = self.claimed.pop(0)
            app.orchestrator.set_invocation_status(inv.invocation_id, InvocationStatus.RUNNING, self.r1)
            context.set_runner_context(APP_ID, self.r1)
            prev = context.swap_dist_invocation_context(APP_ID, inv)
            try:
                self.t["child"](7)
            finally:
                context.swap_dist_invocation_context(APP_ID, prev)
                context.set_runner_context(APP_ID, self.client)
            self._adopt_children()
            app.orchestrator.waiting_for_results(inv.invocation_id, [self.ids[-1]])
            self.blocked.append(str(inv.invocation_id))
        elif kind == "heartbeat":
            rid = "r1" if self.nbeat % 2 == 0 else "r2"
            self.nbeat += 1
            app.orchestrator.register_runner_heartbeats([rid], can_run_atomic_service=True)
            if rid == "r1":
                app.state_backend.store_runner_context(self.r1)
            if rid not in self.runners:
                self.runners.append(rid)
        elif kind == "service":
            now = _dt.datetime.fromtimestamp(env.CLOCK.read(), _dt.UTC)
            app.orchestrator.record_atomic_service_execution("r1", now, now + _dt.timedelta(seconds=2))
        elif kind == "event":
            app.trigger.emit_event("c20evt", {"n": 1})
        elif kind == "requeue":
            # a second message for an invocation that already has one in the queue (what the retry of a blocking
            # invocation, a reroute racing a recovery or a duplicate delivery leave behind)
            q = self.queue()
            if q:
                app.broker.route_invocation(q[0])
        elif kind == "tick":
            env.CLOCK.advance(25 * 3600.0)  # a day later: heartbeats stale, claims overdue, finals past auto-purge age
        elif kind == "purge":
            getattr(app, op[1]).purge()
            self.purged.append(op[1])
        else:
            raise AssertionError(op)

    def _adopt_children(self) -> None:
        """Invocation ids created inside a task body (children): found by a scan of the queue."""
        for q in self.queue():
            if q not in self.ids:
                self.ids.append(q)

    # -- read-out --------------------------------------------------------
    def _conn(self) -> Any:
        """The observer's own read-only connection (never one of pynenc's)."""
        if self._rconn is None:
            import sqlite3

            self._rconn = sqlite3.connect(self.app.broker.sqlite_db_path, timeout=30.0, isolation_level=None)
        return self._rconn

    def close(self) -> None:
        if self._rconn is not None:
            self._rconn.close()
            self._rconn = None

    def queue(self) -> list[str]:
        b = self.app.broker
        if self.backend == env.MEM:
            return [str(x) for x in b._queue]
        cur = self._conn().execute(f"SELECT invocation_id FROM {b.tables.QUEUE} ORDER BY created_at ASC, id ASC")
        rows = [r[0] for r in cur.fetchall()]
        cur.close()
        return rows

    def dump(self) -> dict[str, Any]:
        """component name -> canonical JSON-able value (empty components omitted)."""
        for a in (self.app, self.mon):
            a.state_backend.wait_for_all_async_operations()
        _STATE["scratch"] = env.scratch_dir()
        out: dict[str, Any] = {"queue": self.queue()}
        if self.backend == env.MEM:
            a = self.app
            comps = [("orchestrator", a.orchestrator), ("blocking", getattr(a.orchestrator, "_blocking_control", None)),
                     ("state", a.state_backend), ("trigger", a.trigger), ("data", a.client_data_store)]
            for cname, obj in comps:
                if obj is None:
                    continue
                for attr, val in vars(obj).items():
                    if attr in EXCLUDED or _is_app_or_conf(val) or attr == "_blocking_control":
                        continue
                    out[f"{cname}.{attr}"] = _canon(val)
            from pynenc.state_backend.mem_state_backend import MemStateBackend

            out["state._app_info_registry"] = _canon(MemStateBackend._app_info_registry)
        else:
            qt = self.app.broker.tables.QUEUE
            conn = self._conn()
            cur = conn.execute("SELECT name FROM sqlite_master WHERE type='table' ORDER BY name")
            names = [r[0] for r in cur.fetchall()]
            cur.close()
            for n in names:
                if n == qt or n.startswith("sqlite_"):
                    continue
                cur = conn.execute(f'SELECT * FROM "{n}"')
                cols = [d[0] for d in cur.description]
                rows = [[_canon(v) for v in r] for r in cur.fetchall()]
                cur.close()
                rows.sort(key=lambda r: json.dumps(r, default=repr))
                short = n.split("__", 1)[1] if "__" in n else n
                out[f"sql.{short}"] = [cols] + rows if rows else []
        return {k: v for k, v in out.items() if not _is_empty(v) or k == "queue"}

    def key(self) -> str:
        """Identity of the state for the search (the virtual hour distinguishes 'tick')."""
        return state_key(self.backend, self.dump())

    # -- facts for the parameter menu -------------------------------------
    def facts(self) -> dict[str, list[str]]:
        q = self.queue()
        inv: list[str] = []
        for cand in (q[:1] + q[-1:] + self.done[-1:] + self.blocked[-1:] + self.ids[:1]
                     + [str(i.invocation_id) for i in self.claimed[:1]]):
            if cand not in inv:
                inv.append(cand)
        return {
            "invocation": inv[:5],
            "runner": (self.runners[:2] + ["client"]) if (self.runners or self.ids) else [],
            "task": [WORK_KEY, "vf.tasks_c20.child"][: 2 if self.ids else 1],
            "call": self.call_keys[:2],
            "workflow_id": inv[:1],
        }


_REAL_TS = re.compile(r"20(?!23-11-1)\d\d-\d\d-\d\d[T ]\d\d:\d\d:\d\d(?:\.\d+)?")


def state_key(backend: str, dump: dict) -> str:
    """Identity of a state for the search and the states counter.  The virtual hour distinguishes
    'tick'.  One stored value escapes the virtual clock (ConditionContext.timestamp binds the real
    datetime.now as a dataclass default factory at import time): wall-clock stamps are masked here so
    that the identity does not depend on when the run happens (the before/after comparison of a
    request uses the unmasked read-out)."""
    text = _REAL_TS.sub("<wall-clock>", json.dumps(dump, sort_keys=True, default=repr))
    return digest([backend, text, int(env.CLOCK.now // 3600)])


def build(backend: str, history: list, queue_page: int) -> World:
    w = World(backend, queue_page)
    for op in history:
        w.apply(tuple(op))
    return w


# systems that have been in use and are looked at a day later (finished invocations are past the
# orchestrator's auto-purge age, heartbeats are stale): one success + one failure + one queued; one success
AGED = [("submit",), ("submit",), ("submit",), ("claim",), ("run", "ok"), ("claim",), ("run", "fail"), ("heartbeat",),
        ("tick",)]
AGED_ONE = [("submit",), ("claim",), ("run", "ok"), ("tick",)]
PREFIXES = {"aged": AGED, "aged-one-final": AGED_ONE}


def alphabet(history: list, thorough: bool) -> list[tuple]:
    ops: list[tuple] = [("submit",), ("claim",), ("run", "ok"), ("run", "fail"), ("run", "spawn"), ("block",),
                        ("heartbeat",), ("event",)]
    kinds = [o[0] for o in history]
    if "submit_many" not in kinds:
        ops.append(("submit_many",))
    if "purge" not in kinds:
        ops += [("purge", "state_backend"), ("purge", "orchestrator"), ("purge", "broker")]
    if "heartbeat" in kinds:
        ops.append(("service",))
    if history and "tick" not in kinds:
        ops.append(("tick",))
    if "submit" in kinds and "requeue" not in kinds:
        ops.append(("requeue",))
    return ops


# ---------------------------------------------------------------------------
# the monitor: route table and parameter menu
# ---------------------------------------------------------------------------
def _prepare() -> None:
    """Same seams as every other check (virtual clock, inline background threads, SQLite proxy), but
    without the proxy's connection pool: pooled connections have busy_timeout 0 because blocking is
    emulated by the controlled scheduler; here the monitor's handlers run in real threads (event loop,
    asyncio.to_thread) outside any scheduler, so pynenc's own connection handling is kept (a fresh
    connection per operation, 30 s busy timeout)."""
    from vf import e1, sqlproxy

    e1.prepare()
    sqlproxy.USE_POOL = False


def ensure_routes() -> Any:
    import pynmon.app as pa

    _prepare()
    if not _STATE["routes_ready"]:
        if not any(getattr(r, "path", None) == "/broker/" for r in _walk(pa.app.routes)):
            pa.setup_routes()
        _STATE["routes_ready"] = True
    return pa


def _walk(routes: Any) -> list[Any]:
    """Flatten the application's route table (handles routers included by reference)."""
    out: list[Any] = []
    for r in routes:
        if hasattr(r, "effective_candidates"):
            cands = list(r.effective_candidates())
            low = getattr(r, "effective_low_priority_routes", None)
            if low is not None:
                cands += list(low())
            flat = []
            for c in cands:
                if hasattr(c, "effective_candidates"):
                    out.extend(_walk([c]))
                elif getattr(c, "path", ""):
                    flat.append(c)
                elif getattr(c, "starlette_route", None) is not None:
                    flat.append(c.starlette_route)
            out.extend(_walk(flat))
            continue
        sub = getattr(r, "routes", None)
        if sub and type(r).__name__ != "Mount":
            out.extend(_walk(sub))
            continue
        out.append(r)
    return out


def get_routes() -> list[dict]:
    """Every route of the monitor answering GET: {path, name, path_params, query: [(name, default)]}"""
    pa = ensure_routes()
    out = []
    for r in _walk(pa.app.routes):
        path = getattr(r, "path", None)
        if path is None:
            continue
        if type(r).__name__ == "Mount":
            d = getattr(getattr(r, "app", None), "directory", None)
            files = []
            if d and os.path.isdir(str(d)):
                for root, _dirs, fs in sorted(os.walk(str(d))):
                    for f in sorted(fs):
                        files.append(os.path.relpath(os.path.join(root, f), str(d)))
            out.append({"path": path + "/{file:path}", "name": "static", "mount": path, "files": files,
                        "path_params": ["file"], "query": []})
            continue
        methods = getattr(r, "methods", None) or set()
        if "GET" not in methods:
            continue
        dep = getattr(r, "dependant", None)
        pp = [p.name for p in dep.path_params] if dep is not None else []
        if dep is None:
            pp = re.findall(r"{([a-zA-Z_]+)(?::[a-z]+)?}", path)
        qp = [(p.name, p.default if isinstance(p.default, (int, str, type(None))) else None)
              for p in dep.query_params] if dep is not None else []
        rx = getattr(r, "path_regex", None)
        out.append({"path": path, "name": getattr(r, "name", ""), "path_params": pp, "query": qp,
                    "regex": rx.pattern if rx is not None else None})
    sh = shadowed(out)
    for r in out:
        r["shadowed"] = sh.get(r["path"])
    # self-check of the walker against the application's own OpenAPI description
    have = {re.sub(r":[a-z]+}", "}", r["path"]) for r in out}
    want = {p for p, ops in pa.app.openapi().get("paths", {}).items() if "get" in ops}
    if want - have or "/broker/queue" not in have:
        raise RuntimeError(f"route walker missed GET routes: {sorted(want - have)}")
    return out


def shadowed(routes: list[dict]) -> dict[str, str]:
    """Literal GET paths that an earlier parametrised GET route of the table matches first: their own
    handler can never serve a request (first match wins), the earlier route's handler does."""
    out = {}
    for i, r in enumerate(routes):
        if r["path_params"] or r.get("mount"):
            continue
        for e in routes[:i]:
            if e.get("regex") and e["path_params"] and re.match(e["regex"], r["path"]):
                out[r["path"]] = e["path"]
                break
    return out


def queue_page_default(routes: list[dict]) -> int:
    for r in routes:
        if r["path"] == "/broker/queue":
            for n, d in r["query"]:
                if n == "limit" and isinstance(d, int):
                    return d
    return 20


def _log_text(f: dict) -> list[str]:
    inv = (f["invocation"] or [MISSING_UUID])[0]
    line = (f"2023-11-14 22:14:00.000+00:00 INFO  pynenc.c20 [VR(r1){inv}:{WORK_KEY}] "
            f"invocation:{inv} runner:r1 task:{WORK_KEY} workflow:{inv} invocations:[{inv},{MISSING_UUID}]")
    return [line, line + "\n2023-11-14 22:14:01 ERROR x [TR(deadbeef)] parent-invocation:" + MISSING_UUID,
            "not a log line \x00 [", "2023-11-14 22:14:00 INFO a [" + MISSING_UUID + ":no.such]"]


def path_menu(name: str, f: dict, route: dict) -> list[str]:
    """Decoded values of one path parameter: existing of the right kind, missing, malformed."""
    if name == "invocation_id":
        return f["invocation"] + [MISSING_UUID] + MALFORMED
    if name == "runner_id":
        return f["runner"] + ["nobody"] + MALFORMED
    if name in ("task_id_key", "workflow_type_key"):
        return f["task"] + MISSING_TASK_KEYS + ["notakey"] + MALFORMED
    if name == "call_id_key":
        return f["call"] + [WORK_KEY + ":" + "0" * 64, "notakey"] + MALFORMED
    if name == "app_id":
        return [APP_ID, "other"] + MALFORMED
    if name == "file":
        return route.get("files", []) + ["missing.css", "../app.py", "\x00"]
    return ["x", MISSING_UUID] + MALFORMED


def query_menu(name: str, default: Any, f: dict, route_path: str = "") -> list[Any]:
    if name == "limit":
        return [0, 1, 2, 20, -1, 1000000, "x", ""] if route_path == "/broker/queue" else [0, 1, 2, 20, 1000000, "x"]
    if name == "page":
        return [0, 2, 999, "x"]
    if name == "status":
        return ["registered", "SUCCESS", "failed", "bogus"]
    if name == "task_id":
        return f["task"][:1] + MISSING_TASK_KEYS[:1] + ["notakey", "\x00"]
    if name == "workflow_id":
        return f["workflow_id"] + [MISSING_UUID]
    if name == "workflow_type":
        return [WORK_KEY, "notakey"]
    if name == "time_range":
        return ["1m", "1w", "bogus"]
    if name in ("start_date", "end_date"):
        return ["2023-11-14T00:00:00"]
    if name == "resolution":
        return ["10s", "bogus"]
    if name == "collapse_external":
        return ["0"]
    if name == "bare":
        return [1, "x"]
    if name == "expand":
        return [",".join(f["invocation"][:2]) or MISSING_UUID, "x,,y"]
    if name == "log":
        return _log_text(f)
    if isinstance(default, int):
        return [0, 1, 2, 20, "x"]
    return ["x", "\x00"]


EXTRA_QUERIES = {
    "/invocations/": [{"limit": 1, "page": 2}, {"limit": 2, "page": 2}, {"limit": 1, "page": 999},
                      {"status": "registered", "limit": 1}, {"task_id": WORK_KEY, "status": "success"},
                      {"workflow_type": WORK_KEY, "workflow_id": "@inv"}],
    "/invocations/timeline": [
        {"time_range": "custom", "start_date": "2023-11-14T00:00:00", "end_date": "2023-11-15T00:00:00"},
        {"time_range": "custom", "start_date": "garbage", "end_date": "2023-11-15"},
        {"time_range": "1h", "limit": "1"}, {"task_id": WORK_KEY, "workflow_type": WORK_KEY},
        {"time_range": "1w", "resolution": "1h", "collapse_external": "0", "limit": ""}],
    "/calls/": [{"call_id_key": "@call"}, {"call_id_key": WORK_KEY + ":" + "0" * 64}, {"call_id_key": "notakey"},
                {"call_id_key": "\x00"}],
    "/invocations/{invocation_id}/family-tree": [{"bare": 1, "expand": "@inv"}],
}


def requests_for(route: dict, f: dict) -> list[str]:
    """The finite list of GET urls for one route in one state (deterministic order)."""
    tpl = route["path"]
    # path instances
    paths = [""]
    if route["path_params"]:
        paths = []
        base = route.get("mount", None)
        vals = path_menu(route["path_params"][0], f, route)
        for v in vals:
            enc = quote(v, safe="")
            if base is not None:
                paths.append(base + "/" + enc)
                continue
            paths.append(re.sub(r"{[a-zA-Z_]+(?::[a-z]+)?}", enc, tpl))
        if route["path_params"][0] in ("call_id_key", "file"):
            raw = "a/b" if base is None else "css/../css/pynmon.css"
            paths.append((base + "/" + raw) if base is not None else tpl.split("{")[0] + raw)
    else:
        paths = [tpl]
    urls: list[str] = []
    queries: list[dict] = [{}]
    for name, default in route["query"]:
        vals = query_menu(name, default, f, tpl)
        for v in vals[:1] if route.get("shadowed") else vals:  # a shadowed route is served by another handler
            queries.append({name: v})
    for extra in EXTRA_QUERIES.get(tpl, []):
        q = {}
        for k, v in extra.items():
            if v == "@inv":
                v = (f["invocation"] or [MISSING_UUID])[0]
            elif v == "@call":
                v = (f["call"] or ["notakey"])[0]
            q[k] = v
        queries.append(q)
    for i, p in enumerate(paths):
        for q in (queries if i == 0 else queries[:1]):
            urls.append(p + ("?" + urlencode(q) if q else ""))
    return urls


# ---------------------------------------------------------------------------
# issuing requests
# ---------------------------------------------------------------------------
def _new_client() -> Any:
    import warnings

    warnings.filterwarnings("ignore")
    from starlette.testclient import TestClient

    pa = ensure_routes()
    return TestClient(pa.app, raise_server_exceptions=False, follow_redirects=False)


class _Session:
    """One TestClient with its event-loop thread kept open for a batch of requests (the thread is
    closed on exit so that neither a forked worker nor the main process keeps a live thread)."""

    def __enter__(self) -> "_Session":
        self.c = _new_client()
        self.c.__enter__()
        _STATE["client"] = self.c
        return self

    def __exit__(self, *exc: Any) -> None:
        _STATE["client"] = None
        self.c.__exit__(None, None, None)


def _select(w: World) -> None:
    import pynmon.app as pa

    pa.all_pynenc_instances = {APP_ID: w.mon}
    pa.pynenc_instance = w.mon


def _get(url: str) -> int:
    try:
        return int(_STATE["client"].get(url).status_code)
    except Exception as e:  # noqa: BLE001 - a request the client library refuses to send
        return -1 if "Invalid" in type(e).__name__ or "Invalid" in str(e) else -2


def _queue_kind(a: list, b: list) -> str:
    if sorted(a) == sorted(b):
        return "order"
    ra = list(a)
    try:
        for x in b:
            ra.remove(x)
        return "messages-lost"
    except ValueError:
        pass
    rb = list(b)
    try:
        for x in a:
            rb.remove(x)
        return "messages-added"
    except ValueError:
        return "content"


def _entry_kind(a: Any, b: Any) -> str:
    if _is_empty(a):
        return "appeared"
    if _is_empty(b):
        return "vanished"
    if isinstance(a, dict) and isinstance(b, dict):
        if set(b) - set(a) and not set(a) - set(b):
            return "entries-added"
        if set(a) - set(b) and not set(b) - set(a):
            return "entries-removed"
    if isinstance(a, list) and isinstance(b, list):
        if len(b) > len(a):
            return "entries-added"
        if len(b) < len(a):
            return "entries-removed"
    return "changed"


def compare(before: dict, after: dict) -> list[tuple[str, str, Any, Any]]:
    diffs = []
    for k in sorted(set(before) | set(after)):
        a, b = before.get(k), after.get(k)
        if a == b:
            continue
        if k == "queue":
            diffs.append((k, _queue_kind(a or [], b or []), a, b))
        else:
            diffs.append((k, _entry_kind(a, b), a, b))
    return diffs


def _short(v: Any) -> Any:
    s = json.dumps(v, sort_keys=True, default=repr)
    return v if len(s) <= 600 else s[:600] + "..."


def _explore_unit(item: tuple) -> Partial:
    with _Session():
        return _explore(item)


def _explore(item: tuple) -> Partial:
    backend, history, queue_page, sample_it = item
    p = Partial()
    routes = get_routes()
    w = build(backend, history, queue_page)
    _select(w)
    facts = w.facts()
    before = w.dump()
    p.add("states", (backend, state_key(backend, before)))
    p.max("max_queue_length", len(before["queue"]))
    reported: set = set()
    for route in routes:
        tpl = route["path"]
        for url in requests_for(route, facts):
            status = _get(url)
            after = w.dump()
            p.count("transitions")
            p.count("traces_validated_against_impl")
            p.add("routes_requested", tpl)
            p.count(f"req|{tpl}|{status}")
            if status not in (404, 405, -1, -2):
                p.add("routes_reaching_handler", tpl)
            if status >= 500:
                p.add("routes_answering_5xx", tpl)
            if sample_it and len(p.samples) < 2 and tpl in ("/broker/queue", "/invocations/{invocation_id}"):
                p.sample({"backend": backend, "history": [list(o) for o in history], "GET": url, "status": status,
                          "queue": after["queue"][:4], "components_compared": len(after), "verdict": "unchanged"
                          if after == before else "CHANGED"})
            if after == before:
                continue
            for comp, kind, a, b in compare(before, after):
                sig = {"clause": "GET-changed-system", "backend": backend, "route": tpl, "component": comp,
                       "kind": kind, "response": f"{status // 100}xx" if status > 0 else "none"}
                k = json.dumps(sig, sort_keys=True)
                if k in reported:
                    continue
                reported.add(k)
                p.violation(
                    sig,
                    {"GET": url, "status": status, "history": [list(o) for o in history],
                     "before": _short(a), "after": _short(b)},
                    {"kind": "get", "backend": backend, "history": [list(o) for o in history], "url": url,
                     "queue_page": queue_page},
                )
            # the request changed the system: rebuild S so that the next request is judged against S
            w.close()
            w = build(backend, history, queue_page)
            _select(w)
            before = w.dump()
    w.close()
    return p


def _key_unit(item: tuple) -> tuple:
    backend, history, queue_page = item
    w = build(backend, history, queue_page)
    try:
        return w.key()
    finally:
        w.close()


def _enumerate_states(backend: str, depth: int, queue_page: int, thorough: bool, ctx: Ctx,
                      init: list | None = None, seen: set | None = None) -> list[list]:
    """Breadth-first over histories (from `init`); a history is kept when it reaches a state not
    seen before (`seen` is shared between the searches of one backend)."""
    h0 = [tuple(o) for o in (init or [])]
    k0 = _key_unit((backend, h0, queue_page))
    seen = seen if seen is not None else set()
    kept: list[list] = []
    if k0 not in seen:
        seen.add(k0)
        kept.append(h0)
    frontier: list[list] = [h0]
    for _d in range(depth):
        cands = [h + [op] for h in frontier for op in alphabet(h, thorough)]
        ctx.count("histories_executed", len(cands))
        keys = par.pmap(_key_unit, [(backend, h, queue_page) for h in cands])
        frontier = []
        for h, k in zip(cands, keys):
            if k in seen:
                continue
            seen.add(k)
            frontier.append(h)
            kept.append(h)
    return kept


def _weight(history: list) -> int:
    return sum(21 if o[0] == "submit_many" else 1 for o in history)


def run(ctx: Ctx) -> None:
    routes = get_routes()
    queue_page = queue_page_default(routes)
    depth = 4 if ctx.thorough else 3
    depth_aged = 2 if ctx.thorough else 1
    items = []
    per_backend = {}
    for backend in env.BACKENDS:
        seen: set = set()
        hs = _enumerate_states(backend, depth, queue_page, ctx.thorough, ctx, [], seen)
        for prefix in PREFIXES.values():
            hs += _enumerate_states(backend, depth_aged, queue_page, ctx.thorough, ctx, prefix, seen)
        per_backend[backend] = len(hs)
        items += [(backend, h, queue_page, i % 97 == 5) for i, h in enumerate(hs)]
    if getattr(ctx, "only", None):
        items = [it for it in items if ctx.only in json.dumps([it[0], it[1]])]
    # heaviest first (long queues), stable
    items.sort(key=lambda it: -_weight(it[1]))
    rot = ctx.seed % max(1, len(items))
    items = items[rot:] + items[:rot]
    parts = par.pmap(_explore_unit, items)
    # merged shortest history first: the example recorded for a signature is a minimal one
    for _i, part in sorted(enumerate(parts), key=lambda ip: (_weight(items[ip[0]][1]), ip[0])):
        ctx.merge(part)
    # ---- evidence -------------------------------------------------------
    table: dict[str, dict] = {}
    for k in list(ctx.counters):
        if k.startswith("req|"):
            _, tpl, status = k.split("|")
            n = ctx.counters.pop(k)
            t = table.setdefault(tpl, {"requests": 0, "statuses": {}})
            t["requests"] += n
            t["statuses"][status] = n
    ctx.extra["routes_exercised"] = table
    ctx.extra["routes_total_GET"] = len(routes)
    ctx.extra["routes_shadowed_by_an_earlier_route"] = shadowed(routes)
    ctx.extra["routes_never_reaching_a_handler"] = sorted(
        set(r["path"] for r in routes) - ctx.sets.get("routes_reaching_handler", set()))
    ctx.extra["states_per_backend"] = per_backend
    ctx.extra["history_depth"] = depth
    ctx.extra["aged_prefixes"] = {k: [list(o) for o in v] for k, v in PREFIXES.items()}
    ctx.extra["history_depth_after_aged_prefix"] = depth_aged
    ctx.extra["queue_view_default_limit"] = queue_page
    ctx.extra["excluded_attributes"] = EXCLUDED
    ctx.rule = (
        f"states: every history of length <= {depth} over {{submit, submit x(limit+1), claim, run ok/fail/spawn-child, "
        "block-on-child, heartbeat, service record, event, clock +25h, purge of ONE of state_backend/orchestrator/broker} "
        f"from the empty system, and every history of length <= {depth_aged} after each 'aged' prefix (extra.aged_prefixes), "
        "on mem and sqlite, kept when the concrete read-out differs from every earlier state; for each state every GET "
        "route of the monitor's route table x the parameter menu (path: existing ids of the right kind, a missing "
        "well-formed id, malformed ids; query: each parameter over its menu one at a time, plus listed combinations); "
        "after EACH request the full concrete read-out is compared with the one taken before it"
    )
    ctx.assume("a request is judged after it has returned and after the state backend's background writers were joined")
    ctx.assume("the SQLite monitor runs as a second app object on the same database file (its own process in production); "
               "the in-memory monitor shares the app object")
    ctx.assume("not part of the system: the monitor's selected app, per-object caches listed in excluded_attributes, "
               "the queue rows' internal enqueue stamp (ids and order are compared)")


def replay(payload: dict) -> bool:
    r = payload["replay"]
    if r.get("kind") != "get":
        return False
    get_routes()
    w = build(r["backend"], r["history"], r.get("queue_page", 20))
    _select(w)
    before = w.dump()
    with _Session():
        _get(r["url"])
    after = w.dump()
    w.close()
    return before != after
