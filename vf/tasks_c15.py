"""Task bodies and value classes used by the C15 check (round trip + canonical identity).

Everything here must live in an importable, non-__main__ module: task ids are
``module.function`` and the serializers record ``module`` / ``qualname`` of classes.
"""

from __future__ import annotations

import dataclasses
from enum import Enum, IntEnum, StrEnum
from typing import Any, NamedTuple


# --- round-trip tasks: one function per `disable_cache_args` option (a task id is module.function)
def rt0(x: Any) -> Any:  # disable_cache_args = ()
    return x


def rtx(x: Any) -> Any:  # disable_cache_args = ("x",)
    return x


def rtstar(x: Any) -> Any:  # disable_cache_args = ("*",)
    return x


# --- identity signatures
def f(a: Any, b: Any = 1, *, c: Any = 2) -> Any:
    return (a, b, c)


def g(x: Any) -> Any:
    return x


def g2(x: Any) -> Any:  # same signature as g, different task
    return x


def h() -> None:
    return None


def kw(a: Any = None, b: Any = None, c: Any = None, d: Any = None) -> Any:
    return (a, b, c, d)


# --- value classes
class Color(Enum):
    RED = 1
    NONE = None
    ZERO = 0
    TXT = "t"


class Prio(IntEnum):
    LOW = 0
    HIGH = 2


class Mode(StrEnum):
    ON = "on"
    EMPTY = ""


class UserError(Exception):
    """A user-defined (non-builtin) exception with plain positional args."""


class Money:
    """JsonSerializable by protocol (to_json / from_json); no __eq__ on purpose: the oracle
    compares type and attributes."""

    def __init__(self, amount: Any, currency: str) -> None:
        self.amount = amount
        self.currency = currency

    def to_json(self) -> dict:
        return {"amount": self.amount, "currency": self.currency}

    @classmethod
    def from_json(cls, data: dict) -> "Money":
        return cls(data["amount"], data["currency"])

    def __repr__(self) -> str:
        return f"Money({self.amount!r}, {self.currency!r})"


class Falsy:
    """JsonSerializable whose JSON form is falsy (an empty list)."""

    def to_json(self) -> list:
        return []

    @classmethod
    def from_json(cls, data: list) -> "Falsy":
        return cls()

    def __repr__(self) -> str:
        return "Falsy()"


@dataclasses.dataclass
class Point:
    x: int
    y: Any


class Pair(NamedTuple):
    left: Any
    right: Any
