"""E2 — explicit-state breadth-first search over operation histories.

A state is the history that reaches it; every transition rebuilds fresh real
components and replays the history (live objects do not copy).  After every
operation the result of each implementation is compared with the reference
model (and thereby with the sibling backend), then a full observable read-out
is compared, then the property's invariant is evaluated.  States are merged only
when the canonical dump of the *concrete* state of every implementation is equal.
"""

from __future__ import annotations

from typing import Any, Callable

from vf.report import Partial


def outcome(fn: Callable[[], Any]) -> Any:
    """Run fn; exceptions become ('raise', class name)."""
    try:
        return ("ok", fn())
    except Exception as e:  # noqa: BLE001 - the class is the observation
        return ("raise", type(e).__name__)


class System:
    """One implementation (or the reference model) under a common operation alphabet."""

    name = "sys"

    def reset(self) -> None:  # fresh components
        raise NotImplementedError

    def apply(self, op: tuple) -> Any:  # -> comparable result
        raise NotImplementedError

    def dump(self) -> Any:  # canonical concrete state (hashable)
        raise NotImplementedError

    def readout(self) -> Any:  # every public query over the small universes (hashable)
        return None


def explore(
    p: Partial,
    impls: list[System],
    model: System | None,
    alphabet: Callable[[list[tuple]], list[tuple]],
    depth: int,
    tag: Any = None,
    invariant: Callable[[System, list[tuple]], str | None] | None = None,
    same_result: Callable[[Any, Any], bool] | None = None,
    max_states: int | None = None,
    init_history: list[tuple] | None = None,
) -> dict:
    """Breadth-first search. Violations are reported through p.violation with signatures
    {clause, op, [impl]} and the full history as replay. Returns stats."""
    eq = same_result or (lambda a, b: a == b)
    allsys = impls + ([model] if model is not None else [])

    def rebuild(hist: list[tuple]) -> None:
        for s in allsys:
            s.reset()
            for op in hist:
                s.apply(op)

    h0 = list(init_history or [])
    rebuild(h0)
    seen = {tuple(s.dump() for s in impls)}
    frontier: list[list[tuple]] = [h0]
    stats = {"states": 1, "transitions": 0, "depth": 0, "capped": False}
    reported: set = set()
    for d in range(depth):
        nxt: list[list[tuple]] = []
        for hist in frontier:
            for op in alphabet(hist):
                rebuild(hist)
                results = [s.apply(op) for s in allsys]
                stats["transitions"] += 1
                p.count("transitions")
                bad = None
                ref = results[-1] if model is not None else results[0]
                refname = "model" if model is not None else impls[0].name
                for s, r in zip(impls, results):
                    if not eq(r, ref):
                        bad = ({"clause": "result-differs", "op": op[0], "impl": s.name, "ref": refname},
                               {"result": r, "expected": ref})
                        break
                if bad is None:
                    outs = [s.readout() for s in allsys]
                    refo = outs[-1] if model is not None else outs[0]
                    for s, o in zip(impls, outs):
                        if o != refo:
                            diff = _first_diff(o, refo)
                            bad = ({"clause": "readout-differs", "op": op[0], "impl": s.name, "ref": refname,
                                    "query": diff[0]},
                                   {"observed": diff[1], "expected": diff[2]})
                            break
                if bad is None and invariant is not None:
                    msgs = [(s.name, invariant(s, hist + [op])) for s in impls]
                    failing = [(n, m) for n, m in msgs if m]
                    if failing:
                        same = len(failing) == len(impls) and len({m for _, m in failing}) == 1
                        bad = ({"clause": failing[0][1], "op": op[0],
                                "impl": "all" if same else failing[0][0]}, {"per_impl": msgs})
                if bad is not None:
                    sig, detail = bad
                    if tag is not None:
                        sig["config"] = tag
                    k = repr(sorted(sig.items()))
                    if k not in reported:
                        reported.add(k)
                        detail["history"] = hist + [op]
                        p.violation(sig, detail, {"kind": "history", "config": tag, "history": hist + [op]})
                    continue  # never expand a state that already violates
                key = tuple(s.dump() for s in impls)
                if key not in seen:
                    seen.add(key)
                    nxt.append(hist + [op])
                    if max_states is not None and len(seen) >= max_states:
                        stats["capped"] = True
        frontier = nxt
        stats["depth"] = d + 1
        if not frontier or stats["capped"]:
            break
    stats["states"] = len(seen)
    stats["closed"] = not frontier
    if frontier and len(p.samples) < 3:
        p.sample({"config": tag, "a_deepest_history": frontier[-1]})
    return stats


def _first_diff(a: Any, b: Any) -> tuple:
    if isinstance(a, dict) and isinstance(b, dict):
        for k in sorted(set(a) | set(b), key=repr):
            if a.get(k) != b.get(k):
                return (k, a.get(k), b.get(k))
    if isinstance(a, (tuple, list)) and isinstance(b, (tuple, list)) and len(a) == len(b):
        for i, (x, y) in enumerate(zip(a, b)):
            if x != y:
                if isinstance(x, tuple) and len(x) == 2 and isinstance(x[0], str):
                    return (x[0], x[1], y[1] if isinstance(y, tuple) and len(y) == 2 else y)
                return (i, x, y)
    return ("*", a, b)
