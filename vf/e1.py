"""Glue between the schedule explorer (vf.sched) and property scenarios.

A scenario module provides `build(desc) -> Scenario`.  A Scenario has
  .points       -> (list of module names, 'line'|'op') or None (sync/sql points only)
  .execute(choices, expect) -> sched.Execution   (fresh world every time)
  .check(ex, partial)  -> evaluates the oracle, calls partial.violation(...) itself
  .digest(ex)   -> hashable summary of the observations (distinct outcomes, replay check)
"""

from __future__ import annotations

import importlib
from typing import Any

from vf import env, par, sched, sqlproxy
from vf.report import Ctx, Partial

_ready = False
FAIL_FAST = 3  # a subtree stops exploring after this many violations (only ever reached on a failing run)


class _Stop(Exception):
    pass



def prepare() -> None:
    global _ready
    if not _ready:
        env.install()
        sched.install_threading()
        sqlproxy.install_sqlite()
        assert_seams()
        _ready = True


def assert_seams() -> None:
    """Fail loudly if a pynenc module still holds an un-shimmed primitive."""
    import sqlite3
    import sys
    import threading
    import time

    bad = []
    for name in env.PYNENC_MODULES:
        mod = sys.modules.get(name)
        if mod is None or name == "pynenc.context":
            continue
        for attr, val in vars(mod).items():
            if val is threading or val is time or val is sqlite3 or val is time.time or val is time.sleep:
                bad.append(f"{name}.{attr}")
    if bad:
        raise sched.HarnessError(f"un-shimmed primitives: {bad}")


def windows(ex: sched.Execution) -> list[str]:
    """Logical position of every deviation: where the thread that lost the CPU was."""
    out = []
    for p in ex.trace:
        if p.chosen:
            info = p.info
            if p.kind == "line" and isinstance(info, tuple):
                out.append(f"line:{info[0]}:{info[2] if len(info) > 2 else ''}")
            elif p.kind in ("sql", "op"):
                out.append(f"{p.kind}:{info if not isinstance(info, tuple) else ':'.join(map(str, info))}")
            else:
                out.append(p.kind)
    return sorted(out)


def _subtree(args: tuple) -> Partial:
    modname, desc, prefix, expect, bound, replay_every = args
    prepare()
    mod = importlib.import_module(modname)
    scn = mod.build(desc)
    _set_points(scn)
    p = Partial()
    n = [0]
    from vf.report import load_known

    prop = modname.rsplit(".", 1)[1][:3].upper()
    known = [k.get("signature") for k in load_known().get("findings", []) if k.get("property") == prop]

    def on_exec(ex: sched.Execution) -> None:
        n[0] += 1
        p.count("schedules")
        p.count("transitions", len(ex.trace))
        p.max("max_points_per_schedule", len(ex.trace))
        p.max("deviations_max", ex.deviations)
        if ex.outcome != "done":
            p.count(f"outcome:{ex.outcome}")
        d = scn.digest(ex)
        p.add("distinct_outcomes", (desc_key(desc), d))
        for st in getattr(ex, "mid_states", ()):  # optional coverage number
            p.add("states", st)
        p.add("states", (desc_key(desc), "end", d))
        before = len(p.violations)
        scn.check(ex, p)
        if len(p.violations) > before:
            # minimise the first new violation of this execution, tag all with scenario data
            for v in p.violations[before:]:
                _finish_violation(scn, modname, desc, ex, v)
            if sum(1 for v in p.violations if v["signature"] not in known) >= FAIL_FAST:
                raise _Stop()  # recorded findings do not count: their subtrees are explored completely
        if replay_every and n[0] % replay_every == 0:
            ex2 = scn.execute(list(ex.choices), None)
            if sched.prefix_hashes(ex2)[-1] != sched.prefix_hashes(ex)[-1] or scn.digest(ex2) != d:
                raise sched.HarnessError(f"replay of {sched._trim(ex.choices)} diverged in {desc}")
            p.count("traces_validated_against_impl")

    try:
        sched.explore(scn.execute, bound, on_exec, prefix=prefix, expect=expect)
    except _Stop:
        p.notes.append(f"exploration of a subtree stopped after {FAIL_FAST} violations (the run fails anyway)")
    sched.clear_points()
    return p


def _finish_violation(scn: Any, modname: str, desc: Any, ex: sched.Execution, v: dict) -> None:
    clause = v["signature"].get("clause")

    def still_bad(e2: sched.Execution) -> bool:
        q = Partial()
        scn.check(e2, q)
        return any(x["signature"].get("clause") == clause for x in q.violations)

    try:
        best, exm = sched.minimise(scn.execute, list(ex.choices), still_bad)
    except sched.HarnessError:
        best, exm = sched._trim(ex.choices), ex
    q = Partial()
    scn.check(exm, q)
    for x in q.violations:
        if x["signature"].get("clause") == clause:
            v["signature"] = x["signature"]
            v["detail"] = x["detail"]
            break
    lw = getattr(scn, "logical_windows", None)
    wins = lw(exm) if lw is not None else windows(exm)
    nw = v["signature"].pop("_no_windows", False)
    if nw:
        # the scenario classified the cause itself (schedule-independent signature); the number of
        # deviations of the minimised schedule stays part of the identity unless the scenario says the
        # finding does not depend on the schedule at all ("_no_windows": "schedule-free")
        v["detail"]["windows"] = wins
        if nw != "schedule-free":
            v["signature"]["deviations"] = exm.deviations
    else:
        v["signature"]["windows"] = wins
    v["detail"]["code_windows"] = windows(exm)
    v["detail"]["schedule"] = [
        {"at": i, "thread": p.tid, "kind": p.kind, "info": p.info, "ran_instead": p.cands[p.chosen]}
        for i, p in enumerate(exm.trace) if p.chosen
    ]
    v["detail"]["deviations"] = exm.deviations
    v["replay"] = {"kind": "schedule", "module": modname, "desc": desc, "choices": best}


def desc_key(desc: Any) -> str:
    from vf.report import canon

    return canon(desc)


def _set_points(scn: Any) -> None:
    pts = getattr(scn, "points", None)
    if pts:
        sched.set_points(pts[0], pts[1], getattr(scn, "points_filter", None))
    else:
        sched.clear_points()


def explore_all(ctx: Ctx, modname: str, descs: list, bound_of: Any, replay_every: int = 50) -> None:
    """Explore every scenario descriptor completely up to its deviation bound.
    Level 0 (default schedule) runs here, twice (determinism check); the subtrees of its
    one-deviation children are distributed over the fork pool."""
    prepare()
    mod = importlib.import_module(modname)
    items = []
    for desc in descs:
        bound = bound_of(desc) if callable(bound_of) else bound_of
        scn = mod.build(desc)
        _set_points(scn)
        ex = scn.execute([], None)
        ex_b = scn.execute([], None)
        if sched.prefix_hashes(ex)[-1] != sched.prefix_hashes(ex_b)[-1] or scn.digest(ex) != scn.digest(ex_b):
            raise sched.HarnessError(f"default schedule not reproducible for {desc}")
        ctx.count("traces_validated_against_impl")
        ctx.count("schedules")
        ctx.count("transitions", len(ex.trace))
        ctx.max("max_points_per_schedule", len(ex.trace))
        ctx.add("distinct_outcomes", (desc_key(desc), scn.digest(ex)))
        ctx.add("states", (desc_key(desc), "end", scn.digest(ex)))
        if ex.outcome != "done":
            ctx.count(f"outcome:{ex.outcome}")
        before = len(ctx.violations)
        scn.check(ex, ctx)
        for v in ctx.violations[before:]:
            _finish_violation(scn, modname, desc, ex, v)
        ctx.sample({"scenario": desc, "default_schedule_points": len(ex.trace),
                    "first_points": [[p.tid, p.kind, p.info] for p in ex.trace[:8]],
                    "observed": scn.digest(ex)}, limit=4)
        ctx.extra.setdefault("bounds", {})[desc_key(desc)] = bound
        if bound >= 1 and len(ctx.violations) == before:
            for pre, exp in sched.children(ex, 0):
                items.append((modname, desc, pre, exp, bound, replay_every))
        sched.clear_points()
    rot = ctx.seed % len(items) if items else 0
    items = items[rot:] + items[:rot]
    for part in par.pmap(_subtree, items):
        ctx.merge(part)


def replay_schedule(r: dict) -> bool:
    prepare()
    mod = importlib.import_module(r["module"])
    scn = mod.build(r["desc"])
    _set_points(scn)
    ex = scn.execute(list(r["choices"]), None)
    q = Partial()
    scn.check(ex, q)
    sched.clear_points()
    for v in q.violations:
        print("  replayed:", v["signature"])
    return bool(q.violations)
