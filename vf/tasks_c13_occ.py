"""Module-level task bodies and argument-provider callbacks of the C13 occurrence part.

`src` is the observed ("source") task, `target` the launched one.  The callbacks derive the
arguments of a launch from ONE occurrence; the `tag` names the kind of occurrence the arguments
were derived from and `val` a value that is different for every occurrence of the histories
(event payload / source argument / source result), so the oracle can tell which occurrence a
launch belongs to.
"""

from __future__ import annotations

from typing import Any


def src(x: int, fail: int = 0) -> int:
    if fail:
        raise ValueError(f"boom {x}")
    return x * 10


def target(tag: str = "", val: int = 0) -> None:
    return None


def target2(tag: str = "", val: int = 0) -> None:
    """a second launched task (two triggers that share a condition)"""
    return None


# --- argument providers (module level: they are serialised by module + name) ------------------
def from_event(ctx: Any) -> dict:
    return {"tag": f"event:{ctx.event_code}", "val": ctx.payload["v"]}


def from_event_val(ctx: Any) -> dict:
    """Payload only (schedule part: an OR trigger whose occurrences carry the same payload)."""
    return {"tag": "event", "val": ctx.payload["v"]}


def from_status(ctx: Any) -> dict:
    return {"tag": "status", "val": ctx.arguments.kwargs["x"]}


def from_result(ctx: Any) -> dict:
    return {"tag": "result", "val": ctx.result}


def from_exception(ctx: Any) -> dict:
    return {"tag": "exception", "val": ctx.arguments.kwargs["x"]}
