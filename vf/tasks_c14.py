"""Task bodies of the C14 (worker pool kept at capacity) check.

Plain module-level functions bound to a fresh app per world with `vf.tasks.bind(app, func)`.
The bodies are never executed: the worker processes of the runners are stand-ins whose `start()`
only records; the check drives the parent runner and the real orchestrator / broker directly.
"""

from __future__ import annotations


def work(x: int) -> int:
    """The trivial unit of work that is queued, claimed by (stand-in) workers and left unfinished."""
    return x + 1
