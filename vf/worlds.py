"""World builder shared by the lifecycle scenarios (C02, C03, C05, C06, C10, ...).

A world = one in-memory app shared by all actors (threads of one process), or
several SQLite app objects on one database file (one per simulated process),
plus a monitor that logs, in their global order, every status-transition request
(outcome included), every task-body enter/exit and every id handed to a poller.
"""

from __future__ import annotations

from typing import Any, Callable

from vf import env, sched, tasks

OWNED = {"PENDING", "RUNNING", "PAUSED", "RESUMED"}
RECOVERY = {"PENDING_RECOVERY", "RUNNING_RECOVERY"}
FINAL = {"SUCCESS", "FAILED", "CONCURRENCY_CONTROLLED_FINAL"}
AVAILABLE = {"REGISTERED", "REROUTED", "RETRY"}

MEM_FILES = [
    "pynenc.orchestrator.mem_orchestrator",
    "pynenc.broker.mem_broker",
    "pynenc.state_backend.mem_state_backend",
]


def _tid() -> int:
    s = sched.ACTIVE
    me = s.me() if s is not None else None
    return me.tid if me is not None else -1


def _pos() -> int:
    s = sched.ACTIVE
    return len(s.trace) if s is not None else -1


class World:
    def __init__(self, backend: str, nproc: int, app_id: str = "w", **conf: Any) -> None:
        env.reset_world()
        tasks.HOOKS.clear()
        self.backend = backend
        self.log: list[tuple] = []
        self.ops: list[tuple] = []  # (tid, trace position at completion, logical operation name, position at start)
        if backend == env.MEM:
            app = env.make_app(env.MEM, app_id=app_id, **conf)
            self.apps = [app] * nproc
            self._distinct = [app]
        else:
            db = env.reuse_db(app_id)
            self.apps = [env.make_app(env.SQLITE, app_id=app_id, db=db, **conf) for _ in range(nproc)]
            self._distinct = list(self.apps)
        self.tasks: dict[str, list] = {}
        for a in self._distinct:
            self._monitor(a)
        tasks.HOOKS["enter"] = lambda name, args: self._body("enter", name, args)
        tasks.HOOKS["exit"] = lambda name, args: self._body("exit", name, args)
        tasks.HOOKS["point"] = lambda name, args: sched.point("body", name)
        tasks.HOOKS["body"] = lambda name, args: self._body("ran", name, args)

    # -- tasks -----------------------------------------------------------
    def bind(self, func: Callable, **options: Any) -> None:
        ts = {}
        for a in self._distinct:
            ts[id(a)] = tasks.bind(a, func, **options)
        self.tasks[func.__name__] = [ts[id(a)] for a in self.apps]

    def task(self, name: str, proc: int = 0) -> Any:
        return self.tasks[name][proc]

    # -- monitor ---------------------------------------------------------
    def _monitor(self, app: Any) -> None:
        orch = app.orchestrator
        orig = orch._atomic_status_transition
        log = self.log

        def wrapped(invocation_id: Any, status: Any, runner_id: Any = None) -> Any:
            try:
                rec = orig(invocation_id, status, runner_id)
            except BaseException as e:  # noqa: BLE001
                if not isinstance(e, sched.Abort):
                    log.append(("tr", _tid(), str(invocation_id), status.name, runner_id, type(e).__name__, None, _pos()))
                raise
            log.append(("tr", _tid(), str(invocation_id), status.name, runner_id, "ok",
                        (rec.status.name, rec.runner_id, rec.timestamp.timestamp()), _pos()))
            return rec

        orch._atomic_status_transition = wrapped
        orig_reg = orch._register_new_invocations

        def wrapped_reg(invocations: Any, runner_id: Any = None) -> Any:
            rec = orig_reg(invocations, runner_id)
            for inv in invocations:
                log.append(("tr", _tid(), str(inv.invocation_id), "REGISTERED", runner_id, "ok",
                            (rec.status.name, rec.runner_id, rec.timestamp.timestamp()), _pos()))
            return rec

        orch._register_new_invocations = wrapped_reg
        # logical operations (for window signatures): name, thread, position in the schedule trace
        ops = self.ops

        def logical(obj: Any, attr: str, name_of: Callable[..., str], materialise: bool = False) -> None:
            orig_fn = getattr(obj, attr)

            def w(*a: Any, **k: Any) -> Any:
                nm = name_of(*a, **k)
                start = _pos()
                try:
                    r = orig_fn(*a, **k)
                    if materialise:
                        r = iter(list(r))
                finally:
                    ops.append((_tid(), _pos(), nm, start))
                return r

            setattr(obj, attr, w)

        def st_names(sts: Any) -> str:
            return "+".join(sorted(x.name for x in sts)) if sts else "*"

        logical(orch, "get_existing_invocations",
                lambda task=None, key_serialized_arguments=None, statuses=None, **_k: f"lookup[{st_names(statuses)}]",
                materialise=True)
        logical(orch, "_atomic_status_transition",
                lambda invocation_id=None, status=None, runner_id=None: f"transition[{status.name}]")
        logical(orch, "get_invocation_status_record", lambda *a, **k: "status-read")
        logical(app.broker, "retrieve_invocation", lambda *a, **k: "queue-pop")
        logical(app.broker, "route_invocation", lambda *a, **k: "queue-push")

    def _body(self, what: str, name: str, args: Any) -> None:
        from pynenc import context

        inv = None
        for a in self._distinct:
            inv = context.get_dist_invocation_context(a.app_id)
            if inv is not None:
                break
        self.log.append((what, _tid(), str(inv.invocation_id) if inv is not None else None, name, args))

    # -- read-out --------------------------------------------------------
    def flush(self) -> None:
        for a in self._distinct:
            a.state_backend.wait_for_all_async_operations()

    def record(self, inv_id: str, proc: int = 0) -> tuple | None:
        try:
            r = self.apps[proc].orchestrator.get_invocation_status_record(inv_id)
        except KeyError:
            return None
        return (r.status.name, r.runner_id)

    def queue(self, proc: int = 0) -> list[str]:
        """Non-destructive view of the queue content (reads the concrete store)."""
        b = self.apps[proc].broker
        if self.backend == env.MEM:
            return [str(x) for x in b._queue]
        from pynenc.util.sqlite_utils import create_sqlite_connection

        with create_sqlite_connection(b.sqlite_db_path) as conn:
            cur = conn.execute(f"SELECT invocation_id FROM {b.tables.QUEUE} ORDER BY created_at ASC, id ASC")
            rows = [r[0] for r in cur.fetchall()]
            cur.close()
        return rows

    def history(self, inv_id: str, proc: int = 0) -> list[tuple]:
        hs = self.apps[proc].state_backend.get_history(inv_id)
        return [(h.status_record.status.name, h.status_record.runner_id, h.runner_context_id,
                 h.status_record.timestamp.timestamp()) for h in hs]


def runner_ctx(rid: str, cls: str = "VfRunner") -> Any:
    from pynenc.runner.runner_context import RunnerContext

    return RunnerContext(runner_cls=cls, runner_id=rid)


def successful(log: list[tuple], inv_id: str | None = None) -> list[tuple]:
    return [e for e in log if e[0] == "tr" and e[5] == "ok" and (inv_id is None or e[2] == inv_id)]


def logical_windows(ex: Any) -> list[str]:
    """For every deviation of the execution: 'last completed logical backend operation -> next
    logical backend operation' of the thread that lost the CPU (names, not line numbers)."""
    w = ex.world
    out = []
    for i, p in enumerate(ex.trace):
        if not p.chosen:
            continue
        t = p.tid
        if t < 0:
            out.append("start-order")
            continue
        mine = [o for o in w.ops if o[0] == t]
        last = [o for o in mine if o[1] <= i]
        nxt = [o for o in mine if o[1] > i]
        out.append(f"{last[-1][2] if last else 'begin'} -> {nxt[0][2] if nxt else 'end'}")
    return sorted(out)
