"""Task bodies of the C17 (application isolation) check.

Plain module-level functions (importable, not __main__); every app object of a world binds its
own Task objects to them with `vf.tasks.bind(app, func, **options)`.  The bodies are never run by a
runner in C17 (the check drives the orchestrator directly); they only have to be resolvable by id.
"""

from __future__ import annotations

from typing import Any


def add(x: int, y: int) -> int:
    return x + y


def ident(x: Any) -> Any:
    return x


def keyed(k: str, v: int = 0) -> tuple:
    return (k, v)


def fired(tag: str = "") -> str:
    """Target of the triggers registered by the check."""
    return tag
