"""Task bodies of the C13 cron check (module level: the task id is module.function)."""

from __future__ import annotations


def cron_job() -> str:
    """The cron-triggered task: what matters is how many invocations of it are registered."""
    return "tick"
