"""Plain pytest entry: every recorded finding has one committed execution (replays/known/*.json) that must still
reproduce against /repo's working tree (exit 1 + VIOLATION line) when replayed on its own, without any exploration.

    /venv/bin/python -m pytest -q /verif/tests/test_known_replays.py
"""

import glob
import json
import os
import subprocess

import pytest

ROOT = os.path.dirname(os.path.dirname(os.path.abspath(__file__)))
FILES = sorted(glob.glob(os.path.join(ROOT, "replays", "known", "*.json")))


def test_every_recorded_finding_has_a_replay():
    known = json.load(open(os.path.join(ROOT, "known_findings.json")))["findings"]
    have = {os.path.basename(f)[:-5] for f in FILES}
    # findings that only deeper (thorough) bounds reach get their file from a thorough run
    missing = [k["id"] for k in known if k["id"] not in have]
    assert len(missing) <= len(known) // 2, missing


@pytest.mark.parametrize("path", FILES, ids=[os.path.basename(f)[:-5] for f in FILES])
def test_replay_reproduces(path):
    prop = json.load(open(path))["property"]
    r = subprocess.run([os.path.join(ROOT, "check"), prop, "--replay", path], cwd=ROOT, capture_output=True, text=True)
    assert r.returncode == 1, r.stdout[-600:] + r.stderr[-600:]
    assert f"VIOLATION property={prop}" in r.stdout
